#!/usr/bin/env python3
"""Systematic single-line mutation campaign against the checks (sensitivity measurement).

For every candidate line of the listed source files one mutant is made per applicable operator.
A mutant that does not compile or is killed by the repository's own tests of the touched package
is discarded (the brief's seeded changes pass the existing tests). For the rest the quick checks
mapped to the file are run against a scratch copy (VERIF_REPO); survivors are the interesting
output: changes that compile, pass the existing tests and that no mapped check notices.

usage: mutation_campaign.py <worker-index> <workers> <out.jsonl> [max-mutants]
Each worker uses its own copy of /verif (harness + driver) under /tmp so that workers do not share
build outputs. Scratch copies are removed as soon as a mutant is done.
"""
import json, os, re, shutil, subprocess, sys, random, hashlib

FILES = {
    "internal/allocation/allocation.go": ["C01", "C02", "C05", "C07", "C08", "C15", "C16", "C18"],
    "internal/allocation/allocation_manager.go": ["C04", "C06", "C15", "C16", "C19", "C18"],
    "internal/allocation/permission.go": ["C07", "C15"],
    "internal/allocation/channel_bind.go": ["C07", "C08", "C15"],
    "internal/allocation/five_tuple.go": ["C04", "C01"],
    "internal/ipnet/util.go": ["C01", "C02", "C08"],
    "internal/server/turn.go": ["C01", "C03", "C06", "C07", "C08", "C19", "C16"],
    "internal/server/util.go": ["C03", "C06", "C19"],
    "internal/server/server.go": ["C09", "C19", "C05"],
    "internal/server/stun.go": ["C19"],
    "internal/server/short_nonce.go": ["C03"],
    "internal/server/nonce.go": ["C03"],
    "internal/server/base36.go": ["C03"],
    "internal/proto/stun_conn.go": ["C10", "C05", "C09"],
    "internal/proto/chandata.go": ["C11", "C05"],
    "internal/proto/chann.go": ["C11", "C08"],
    "internal/proto/lifetime.go": ["C11", "C06"],
    "internal/proto/evenport.go": ["C11"],
    "internal/proto/reqfamily.go": ["C11", "C19"],
    "internal/proto/reqtrans.go": ["C11"],
    "internal/proto/rsrvtoken.go": ["C11"],
    "internal/proto/connection_id.go": ["C11"],
    "internal/proto/addr.go": ["C11"],
    "internal/client/transaction.go": ["C12", "C18"],
    "internal/client/udp_conn.go": ["C13", "C14"],
    "internal/client/binding.go": ["C13"],
    "internal/client/permission.go": ["C13"],
    "internal/client/allocation.go": ["C14"],
    "internal/client/periodic_timer.go": ["C14"],
    "internal/client/tcp_alloc.go": ["C10", "C13", "C09"],
    "client.go": ["C12", "C13", "C09", "C14"],
    "server.go": ["C05", "C09", "C15", "C19"],
    "lt_cred.go": ["C17"],
    "relay_address_generator_range.go": ["C20"],
    "relay_address_generator_static.go": ["C20"],
    "relay_address_generator_none.go": ["C20"],
}
PKG_OF = lambda f: "./" + (os.path.dirname(f) or ".")

OPS = [
    (r"<=", "<"), (r">=", ">"), (r"(?<![<>=!:+\-*/|&])<(?![=<-])", "<="), (r"(?<![<>=!\-])>(?![=>])", ">="),
    (r"==", "!="), (r"!=", "=="), (r"&&", "||"), (r"\|\|", "&&"),
    (r"\+ 1\b", "+ 0"), (r"- 1\b", "- 0"), (r"\btrue\b", "false"), (r"\bfalse\b", "true"),
]
STMT_DROP = re.compile(r"^\s*(defer\s+)?[A-Za-z_][\w.]*\.(Stop|Unlock|RUnlock|Close|Delete|delete|Reset|refresh|start|setState|setNonce|setLifetime|setNonceFromMsg|StopRtxTimer|AddPermission|RemovePermission)\(.*\)\s*$|^\s*delete\(.*\)\s*$")


def candidates(path, text):
    out = []
    in_block_comment = False
    for i, line in enumerate(text.split("\n")):
        s = line.strip()
        if s.startswith("/*"):
            in_block_comment = True
        if in_block_comment:
            if "*/" in s:
                in_block_comment = False
            continue
        if not s or s.startswith("//") or s.startswith("import") or s.startswith("package") or s.startswith('"'):
            continue
        code = line.split("//")[0]
        if "log." in code or "Log." in code or "Errorf(" in code or "Debugf(" in code or "Warnf(" in code or "Infof(" in code or "errors.New" in code or "fmt." in code:
            continue
        for pat, rep in OPS:
            for m in re.finditer(pat, code):
                # skip matches inside string literals (rough)
                if code[:m.start()].count('"') % 2 == 1:
                    continue
                new = code[:m.start()] + rep + code[m.end():] + line[len(code):]
                out.append((i, line, new, f"{pat}->{rep}"))
        if STMT_DROP.match(code) and "defer" not in code:
            out.append((i, line, re.sub(r"^(\s*)(.*)$", r"\1_ = 0 // dropped: \2", code), "drop-stmt"))
    return out


def run(cmd, cwd=None, env=None, timeout=900):
    try:
        p = subprocess.run(cmd, cwd=cwd, env=env, shell=True, capture_output=True, text=True, timeout=timeout)
        return p.returncode, p.stdout + p.stderr
    except subprocess.TimeoutExpired:
        return 124, "timeout"


def main():
    w, nw, outp = int(sys.argv[1]), int(sys.argv[2]), sys.argv[3]
    limit = int(sys.argv[4]) if len(sys.argv) > 4 else 10**9
    rnd = random.Random(12345)
    allm = []
    for f, props in FILES.items():
        text = open(os.path.join("/repo", f)).read()
        for (i, old, new, op) in candidates(f, text):
            allm.append((f, i, old, new, op, props))
    rnd.shuffle(allm)
    allm = allm[:limit]
    mine = allm[w::nw]
    vroot = f"/tmp/vmutw{w}"
    shutil.rmtree(vroot, ignore_errors=True)
    os.makedirs(vroot)
    run(f"rsync -a --exclude .build --exclude replays --exclude .git /verif/ {vroot}/verif/")
    run("rm -f bin/vcheck; true", cwd=f"{vroot}/verif")
    env = dict(os.environ, GOFLAGS="-mod=mod", GOPROXY="off", GOSUMDB="off", GOTOOLCHAIN="local")
    envtest = dict(os.environ, GOPROXY="off")
    done = set()
    if os.path.exists(outp):
        for l in open(outp):
            try:
                done.add(json.loads(l)["id"])
            except Exception:
                pass
    out = open(outp, "a")
    for (f, i, old, new, op, props) in mine:
        mid = hashlib.sha1(f"{f}:{i}:{op}:{new}".encode()).hexdigest()[:10]
        if mid in done:
            continue
        d = f"{vroot}/repo"
        shutil.rmtree(d, ignore_errors=True)
        run(f"rsync -a --exclude .git /repo/ {d}/")
        lines = open(os.path.join(d, f)).read().split("\n")
        lines[i] = new
        open(os.path.join(d, f), "w").write("\n".join(lines))
        rec = {"id": mid, "file": f, "line": i + 1, "op": op, "old": old.strip(), "new": new.strip()}
        rc, o = run("go1.26.8 build ./... && go1.26.8 vet -tags verif " + PKG_OF(f) + " >/dev/null 2>&1; go1.26.8 build ./...", cwd=d, env=env, timeout=300)
        if rc != 0:
            rec["status"] = "no-compile"
        else:
            pk = PKG_OF(f)
            extra = " ./e2e" if not f.startswith("internal/proto") else ""
            skip = " -skip 'TestClientWithSTUN|TestTCPClient|TestPeriodicTimer'" if pk == "./." or pk == "." else " -skip TestPeriodicTimer"
            rc, o = run(f"go test -mod=mod -vet=off -count=1{skip} {pk}{extra}", cwd=d, env=envtest, timeout=600)
            if rc != 0:
                rec["status"] = "killed-by-suite"
            else:
                fired, silent = [], []
                for p in props:
                    rc, o = run(f"VERIF_REPO={d} VERIF_WORKERS=6 ./check {p} quick", cwd=f"{vroot}/verif", env=env, timeout=1200)
                    if rc == 1:
                        m = re.search(r"^(violation|crash|hang|data races)[^\n]*", o, re.M)
                        fired.append({"check": p, "first": (m.group(0)[:200] if m else "")})
                        break
                    else:
                        silent.append({"check": p, "rc": rc})
                rec["status"] = "caught" if fired else "SURVIVED"
                rec["fired"] = fired
                rec["silent"] = silent
        out.write(json.dumps(rec) + "\n")
        out.flush()
        shutil.rmtree(d, ignore_errors=True)
    shutil.rmtree(vroot, ignore_errors=True)


if __name__ == "__main__":
    main()
