package props

import (
	"encoding/binary"
	"fmt"
	"math/big"
	"math/rand"
	"net"
	"strings"
	"sync"
	"testing"
	"time"

	"github.com/pion/turn/v5/internal/allocation"
	"github.com/pion/turn/v5/internal/auth"
	"github.com/pion/turn/v5/internal/server"
	"github.com/pion/turn/v5/verifharness/sim"
	"github.com/pion/turn/v5/verifharness/simnet"
	"github.com/pion/turn/v5/verifharness/wire"
)

// C03: state-changing requests take effect only with valid long-term credentials.
//
// Part A (public server, short nonce with 12 HMAC bytes): method x state x credential defect.
// The harness holds the user table, so it knows whether a credential is valid; a defective one
// must not be answered with success, must leave the state digest and subsequent relay behaviour
// unchanged; the same request with sound credentials is then sent as positive control.
//
// Part B (internal/server.HandleRequest with NewNonceHash and NewShortNonceHash(n), n=2..32):
// nonce life cycle - accepted when fresh, at 59 min; rejected at 62 min and later, when minted
// by another instance, or when mutated to different bytes.

func init() {
	sim.RegisterKind("auth-defect-success", "C03")
	sim.RegisterKind("auth-defect-state", "C03")
	sim.RegisterKind("auth-valid-rejected", "C03")
	sim.RegisterKind("auth-challenge-unusable", "C03")
	sim.RegisterKind("auth-challenge-missing", "C03")
	sim.RegisterKind("auth-nonce-age", "C03")
	sim.RegisterKind("auth-nonce-foreign", "C03")
	sim.RegisterKind("auth-nonce-mutated", "C03")
	sim.RegisterKind("auth-nonowner", "C03", "C04")
}

type c03cred struct {
	user, realm, pass, nonce               string
	omitUser, omitRealm, omitNonce, omitMI bool
	hmacMut                                func([]byte) []byte
	rawKey                                 []byte // when non-nil: sign with exactly this key (e.g. the empty key)
}

func c03Build(method uint16, tid [12]byte, attrs func(b *wire.Builder), cr c03cred) []byte {
	b := wire.NewBuilder(method, wire.ClassRequest, tid)
	if attrs != nil {
		attrs(b)
	}
	if !cr.omitUser {
		b.Add(wire.AttrUsername, []byte(cr.user))
	}
	if !cr.omitRealm {
		b.Add(wire.AttrRealm, []byte(cr.realm))
	}
	if !cr.omitNonce {
		b.Add(wire.AttrNonce, []byte(cr.nonce))
	}
	if !cr.omitMI {
		key := wire.LongTermKey(cr.user, cr.realm, cr.pass)
		if cr.rawKey != nil {
			key = cr.rawKey
		}
		v := b.IntegrityValue(key)
		if cr.hmacMut != nil {
			v = cr.hmacMut(v)
		}
		b.Add(wire.AttrMessageIntegrity, v)
	}

	return b.Bytes()
}

func decodeBase36(s string) []byte {
	n := new(big.Int)
	for _, ch := range strings.ToUpper(s) {
		d := strings.IndexRune("0123456789ABCDEFGHIJKLMNOPQRSTUVWXYZ", ch)
		if d < 0 {
			return nil
		}
		n.Mul(n, big.NewInt(36))
		n.Add(n, big.NewInt(int64(d)))
	}

	return n.Bytes()
}

// redateShortNonce moves the minute count in front of a short nonce by delta, keeping the MAC.
func redateShortNonce(n string, hmacLen, delta int) string {
	b := decodeBase36(n)
	if b == nil || len(b) > 4+hmacLen {
		return ""
	}
	b = append(make([]byte, 4+hmacLen-len(b)), b...)
	binary.BigEndian.PutUint32(b[:4], uint32(int64(binary.BigEndian.Uint32(b[:4]))+int64(delta))) //nolint:gosec

	return strings.ToUpper(new(big.Int).SetBytes(b).Text(36))
}

// sameShortNonce reports whether two nonce strings denote the same bytes under base-36
// (case-insensitive, leading zeros insignificant) - equivalent encodings are not defects.
func sameShortNonce(a, b string) bool {
	da, db := decodeBase36(a), decodeBase36(b)
	if da == nil || db == nil {
		return false
	}

	return new(big.Int).SetBytes(da).Cmp(new(big.Int).SetBytes(db)) == 0
}

func mutateString(rng *rand.Rand, s string, alphabet string) string {
	if len(s) == 0 {
		return "x"
	}
	b := []byte(s)
	switch rng.Intn(5) {
	case 0: // substitute one character
		i := rng.Intn(len(b))
		for {
			ch := alphabet[rng.Intn(len(alphabet))]
			if ch != b[i] {
				b[i] = ch

				break
			}
		}
	case 1: // truncate
		b = b[:rng.Intn(len(b))]
	case 2: // extend
		b = append(b, alphabet[rng.Intn(len(alphabet))])
	case 3: // swap two different characters
		i, j := rng.Intn(len(b)), rng.Intn(len(b))
		b[i], b[j] = b[j], b[i]
	default: // drop one character
		i := rng.Intn(len(b))
		b = append(b[:i], b[i+1:]...)
	}

	return string(b)
}

type c03 struct {
	t              *testing.T
	w              *sim.World
	m              *sim.Model
	rng            *rand.Rand
	rec            *sim.Rec
	controlRefresh bool
}

func (x *c03) digest() string {
	out := fmt.Sprintf("count=%d;", x.w.Srv.AllocationCount())
	for li, mgr := range x.w.Srv.VerifManagers() {
		snap, res, ok := mgr.VerifSnapshot()
		if !ok {
			return "locked"
		}
		out += fmt.Sprintf("L%d res=%d:", li, res)
		for _, s := range snap {
			out += fmt.Sprintf("[%s %s %s %v %v %v]", s.Src, s.UserID, s.Relay, s.Permissions, s.Channels, s.TCPConns)
		}
	}
	open := 0
	for _, r := range x.w.Gen.Resources() {
		if r.Open() {
			open++
		}
	}

	return out + fmt.Sprintf(";open=%d", open)
}

func (x *c03) send(c *sim.RawClient, method uint16, raw []byte, tid [12]byte) *wire.Msg {
	x.m.Track(c, tid, method)
	r := c.Exchange(raw, tid)
	x.m.Audit(nil)

	return r
}

func (x *c03) challenge(c *sim.RawClient, method uint16) (nonce, realm string, ok bool) {
	tid := x.w.NewTID()
	b := wire.NewBuilder(method, wire.ClassRequest, tid)
	if method == wire.MethodAllocate {
		b.Add(wire.AttrRequestedTransport, []byte{17, 0, 0, 0})
	}
	r := x.send(c, method, b.Bytes(), tid)
	if r == nil || r.Class != wire.ClassError || r.ErrorCode() != 401 {
		x.rec.Violate("auth-challenge-missing", fmt.Sprintf("m%x", method), "%s: request without credentials (method %x) answered %d, want a 401 challenge", c.Name, method, codeOfMsg(r))

		return "", "", false
	}
	n, ok1 := r.Get(wire.AttrNonce)
	rl, ok2 := r.Get(wire.AttrRealm)
	if !ok1 || !ok2 {
		x.rec.Violate("auth-challenge-missing", "attrs", "%s: 401 challenge lacks NONCE or REALM", c.Name)

		return "", "", false
	}

	return string(n), string(rl), true
}

var c03Methods = []uint16{wire.MethodAllocate, wire.MethodRefresh, wire.MethodCreatePermission, wire.MethodChannelBind, wire.MethodConnect}

var c03Defects = []string{
	"no-mi", "wrong-password", "hmac-truncated", "hmac-bitflip", "hmac-extended", "unknown-user", "other-user", "no-username", "no-realm",
	"no-nonce", "random-nonce", "mutated-nonce", "foreign-nonce", "expired-nonce", "wrong-realm", "empty-user", "guessable-key", "key-of-another-realm",
}

func runC03A(t *testing.T, rng *rand.Rand, rec *sim.Rec, tier string, caseNo int) {
	noAuth := caseNo%23 == 22
	// an operator whose auth handler hands out no user ids (every allocation then belongs to ""):
	// credentials are checked exactly as otherwise, only the per-user ownership rule has no meaning
	emptyUID := caseNo%5 == 1
	// the operator's realm as configured - with capitals and a blank in one case in four: it is
	// what the challenge must announce, letter for letter (keys are derived from it)
	realmCfg := "verif.test"
	if caseNo%4 == 3 {
		realmCfg = pick(rng, []string{"Verif.Test", "VERIF.TEST", "Verif Test ", " verif.test"})
		rec.FP("realm-with-capitals-or-blanks")
	}
	cfg := sim.Config{
		Realm: realmCfg, Users: map[string]string{"alice": "pw-a", "bob": "pw-b", "Alice": "pw-A2", "ALICE": "pw-A3"}, NoAuth: noAuth, EmptyUserID: emptyUID,
		Lifetime: 26 * time.Hour, PermTimeout: 26 * time.Hour, ChanTimeout: 26 * time.Hour,
		UDPListeners: []*net.UDPAddr{{IP: sim.ServerIP4, Port: 3478}},
		TCPListeners: []*net.TCPAddr{{IP: sim.ServerIP4, Port: 3478}},
	}
	w, err := sim.NewWorld(cfg, rec, rng, true)
	if err != nil {
		t.Fatal(err)
	}
	defer w.Shutdown()
	x := &c03{t: t, w: w, m: sim.NewModel(w), rng: rng, rec: rec}
	// one case in three: the clients reach the server over TCP control connections (the rules are
	// the same: a stream's 5-tuple is no credential)
	newClient := w.NewUDPClient
	if caseNo%3 == 1 {
		newClient = w.NewTCPClient
		rec.FP("clients-over-tcp")
	}
	alice, err1 := newClient("alice@c0", net.IPv4(10, 1, 0, 1).To4(), 5000, 0, "alice")
	fresh, err2 := newClient("alice@c1", net.IPv4(10, 1, 0, 1).To4(), 5001, 0, "alice")
	bobc, err3 := newClient("bob@c2", net.IPv4(10, 1, 0, 2).To4(), 5002, 0, "bob")
	if err1 != nil || err2 != nil || err3 != nil {
		t.Fatal(err1, err2, err3)
	}
	p1, _ := w.NewPeer("p1", net.IPv4(10, 2, 0, 1).To4(), 7000)
	p2, _ := w.NewPeer("p2", net.IPv4(10, 2, 0, 2).To4(), 7001)
	// a second, independent server instance mints "foreign" nonces
	w2, err := sim.NewWorld(sim.Config{Realm: realmCfg, Users: cfg.Users, UDPListeners: []*net.UDPAddr{{IP: sim.ServerIP4, Port: 3478}}}, sim.NewRec("C03"), rng, true)
	if err != nil {
		t.Fatal(err)
	}
	defer w2.Shutdown()
	foreignC, _ := w2.NewUDPClient("f", net.IPv4(10, 1, 0, 9).To4(), 5009, 0, "alice")
	ftid := w2.NewTID()
	fr := foreignC.Exchange(wire.NewBuilder(wire.MethodRefresh, wire.ClassRequest, ftid).Bytes(), ftid)
	foreignNonce := ""
	if fr != nil {
		if n, ok := fr.Get(wire.AttrNonce); ok {
			foreignNonce = string(n)
		}
	}

	if noAuth {
		// no AuthHandler configured: nothing may succeed or change anything, with or without credentials
		before := x.digest()
		for _, method := range c03Methods {
			tid := w.NewTID()
			raw := c03Build(method, tid, x.attrsFor(method, p1, 0x4000), c03cred{user: "alice", realm: realmCfg, pass: "pw-a", nonce: foreignNonce})
			r := x.send(alice, method, raw, tid)
			rec.FP("noauth/m%x/%d", method, codeOfMsg(r))
			if r != nil && r.Class == wire.ClassSuccess {
				rec.Violate("auth-defect-success", "no-auth-handler", "server without AuthHandler answered method %x with success", method)
			}
		}
		if x.digest() != before {
			rec.Violate("auth-defect-state", "no-auth-handler", "server without AuthHandler changed state")
		}

		return
	}

	// standing state: alice@c0 has an allocation with a permission and a channel; bob@c2 has his own
	x.m.Allocate(alice, sim.AllocOpts{})
	x.m.CreatePermission(alice, p1.Addr)
	x.m.ChannelBind(alice, 0x4001, p1.Addr)
	x.m.Allocate(bobc, sim.AllocOpts{})
	if a, st := x.m.Alloc(alice); a == nil || st != sim.Live {
		rec.Inconclusive("setup failed")

		return
	}
	oldNonce := alice.Nonce
	minted := time.Now()

	rounds := 6 + rng.Intn(6)
	for i := 0; i < rounds && len(rec.Violations()) == 0; i++ {
		rec.SetStep(i)
		method := pick(rng, c03Methods)
		defect := pick(rng, c03Defects)
		// which client/5-tuple the request is sent from
		c := alice
		state := "own-allocation"
		if a, st := x.m.Alloc(alice); method == wire.MethodAllocate && (a == nil || st != sim.Live) {
			state = "no-allocation" // alice's 5-tuple is free (again): anybody's valid Allocate may take it
		} else if (method == wire.MethodAllocate && rng.Intn(3) != 0) || (method != wire.MethodAllocate && rng.Intn(5) == 0) {
			c = fresh
			state = "no-allocation"
			if a, st := x.m.Alloc(fresh); a != nil && st != sim.Dead {
				x.m.Refresh(fresh, sim.U32(0))
			}
		}
		nonce, realm, ok := x.challenge(c, method)
		if !ok {
			return
		}
		if realm != realmCfg {
			rec.Violate("auth-challenge-unusable", "realm", "%s: the 401 challenge announces realm %q, the server is configured with %q (a key derived from the announced realm is not the operator's)", c.Name, realm, realmCfg)

			return
		}
		cr := c03cred{user: "alice", realm: realm, pass: "pw-a", nonce: nonce}
		valid := false
		switch defect {
		case "no-mi":
			cr.omitMI = true
		case "wrong-password":
			cr.pass = pick(rng, []string{"pw-b", "pw-A", "", "pw-a "})
		case "hmac-truncated":
			n := rng.Intn(20)
			cr.hmacMut = func(v []byte) []byte { return v[:n] }
		case "hmac-bitflip":
			bit := rng.Intn(160)
			cr.hmacMut = func(v []byte) []byte { v[bit/8] ^= 1 << (bit % 8); return v }
		case "hmac-extended":
			cr.hmacMut = func(v []byte) []byte { return append(v, byte(rng.Intn(256))) }
		case "unknown-user":
			cr.user, cr.pass = "mallory", "pw-a"
		case "guessable-key":
			// keys anybody can compute: the empty key, a key of zero bytes, MD5("::") - for a user the
			// auth handler does not know and for one it knows
			cr.user = pick(rng, []string{"mallory", "alice", ""})
			cr.rawKey = pick(rng, [][]byte{{}, make([]byte, 16), wire.LongTermKey("", "", "")})
		case "other-user":
			// bob's perfectly valid credentials on alice's 5-tuple - or those of an account whose
			// name differs from alice's in capitals only (another user all the same)
			cr.user, cr.pass = "bob", "pw-b"
			switch rng.Intn(3) {
			case 1:
				cr.user, cr.pass = "Alice", "pw-A2"
			case 2:
				cr.user, cr.pass = "ALICE", "pw-A3"
			}
			if state == "no-allocation" && method == wire.MethodAllocate {
				valid = true // a free 5-tuple may be allocated by any valid user
			}
			if emptyUID {
				valid = true // the operator's handler does not tell users apart
			}
		case "no-username":
			cr.omitUser = true
		case "no-realm":
			cr.omitRealm = true
		case "no-nonce":
			cr.omitNonce = true
		case "random-nonce":
			b := make([]byte, 8+rng.Intn(24))
			for i := range b {
				b[i] = "0123456789ABCDEFGHIJKLMNOPQRSTUVWXYZabcdefghijklmnopqrstuvwxyz-_"[rng.Intn(64)]
			}
			cr.nonce = string(b)
		case "mutated-nonce":
			cr.nonce = mutateString(rng, nonce, "0123456789ABCDEFGHIJKLMNOPQRSTUVWXYZ")
			if sameShortNonce(cr.nonce, nonce) {
				valid = true
			}
		case "foreign-nonce":
			cr.nonce = foreignNonce
		case "expired-nonce":
			age := pick(rng, []time.Duration{62 * time.Minute, 63 * time.Minute, 2 * time.Hour, 25 * time.Hour})
			cr.nonce = oldNonce
			if d := age - time.Since(minted); d > 0 {
				w.Sleep(d)
				x.m.Audit(nil)
			}
		case "wrong-realm":
			cr.realm = "other.realm" // the key is derived from the presented realm: alice's password still signs it
			valid = true             // ...so this is a sound credential for (alice, other.realm) as far as the statement goes
		case "empty-user":
			cr.user = ""
		case "key-of-another-realm":
			// the request presents one realm and is signed with the key of the same user in another
			// (the realm the server is configured with): the operator's handler is asked about the
			// presented realm, and its key for that realm is a different one
			cr.realm = "other.realm"
			cr.rawKey = wire.LongTermKey(cr.user, realmCfg, cr.pass)
		}
		before := x.digest()
		tid := w.NewTID()
		sameTID := false
		if a, _ := x.m.Alloc(c); a != nil && method == wire.MethodAllocate && state != "no-allocation" && defect != "other-user" && rng.Intn(3) != 0 {
			// the transaction id of the Allocate that made the standing allocation: a repeat of it
			// is only a retransmission if it also authenticates
			// (not with another user's valid credentials: the statement ties only the other methods
			// to the allocation's creator)
			tid, sameTID = a.AllocTID, true
		}
		raw := c03Build(method, tid, x.attrsFor(method, p2, 0x4002), cr)
		r := x.send(c, method, raw, tid)
		code := codeOfMsg(r)
		rec.Tracef("%s method %x state %s defect %s -> %d", c.Name, method, state, defect, code)
		if valid {
			rec.FP("valid-variant/m%x/%s/%s/%d", method, state, defect, code)
			// whatever happened is legitimate; resynchronise the model with the server below
			x.resync(c, method, r, cr.user, p2, 0x4002)

			continue
		}
		rec.FP("defect/m%x/%s/%s/%d/repeated-tid=%v/empty-uid=%v", method, state, defect, code, sameTID, emptyUID)
		if code == 0 {
			kind := "auth-defect-success"
			if defect == "other-user" {
				kind = "auth-nonowner"
			}
			rec.Violate(kind, fmt.Sprintf("m%x/%s", method, defect), "%s: method %x with defective credentials (%s, state %s) answered success", c.Name, method, defect, state)

			break
		}
		if after := x.digest(); after != before {
			rec.Violate("auth-defect-state", fmt.Sprintf("m%x/%s", method, defect), "%s: method %x with defective credentials (%s) changed server state: %s -> %s", c.Name, method, defect, before, after)

			break
		}
		// a 401/438 challenge must carry a nonce+realm the server itself accepts right away
		if code == 401 || code == 438 {
			n2, ok1 := r.Get(wire.AttrNonce)
			r2, ok2 := r.Get(wire.AttrRealm)
			if !ok1 || !ok2 {
				rec.Violate("auth-challenge-missing", "attrs", "%d challenge lacks NONCE/REALM", code)
			} else {
				c.Nonce, c.Realm = string(n2), string(r2)
				tid2 := w.NewTID()
				b := wire.NewBuilder(wire.MethodRefresh, wire.ClassRequest, tid2)
				c.AddAuth(b)
				rr := x.send(c, wire.MethodRefresh, b.Bytes(), tid2)
				// with a live allocation of this user the Refresh succeeds; without, the server stays
				// silent (no allocation) - but it must not reject the nonce (438) or the integrity (400/401)
				if cc := codeOfMsg(rr); cc == 438 || cc == 401 || cc == 400 {
					rec.Violate("auth-challenge-unusable", fmt.Sprintf("%d", cc), "%s: nonce+realm from a %d challenge were rejected with %d when used immediately", c.Name, code, cc)
				}
				rec.FP("challenge-reuse/%d/%d", code, codeOfMsg(rr))
				if rr != nil && rr.Class == wire.ClassSuccess {
					if a, st := x.m.Alloc(c); a != nil && st == sim.Live {
						lt, _ := rr.Lifetime()
						a.Exp = time.Now().Add(time.Duration(lt) * time.Second)
					}
				}
			}
		}
		// relayed traffic unchanged: the standing permission/channel still relay, nothing new does
		st := x.m.Begin()
		st.ClientSend(alice, p1.Addr, []byte(fmt.Sprintf("after-%d-p1", i)))
		st.ClientSend(alice, p2.Addr, []byte(fmt.Sprintf("after-%d-p2", i)))
		st.ClientChanData(alice, 0x4001, []byte(fmt.Sprintf("after-%d-ch", i)), true)
		st.ClientChanData(alice, 0x4002, []byte(fmt.Sprintf("after-%d-ch2", i)), true)
		if a, _ := x.m.Alloc(alice); a != nil {
			st.PeerSend(p1, a.RelayUDP, []byte(fmt.Sprintf("after-%d-back", i)))
			st.PeerSend(p2, a.RelayUDP, []byte(fmt.Sprintf("after-%d-back2", i)))
		}
		st.End()
		x.m.CrossCheck()
		// positive control: the same request with sound credentials
		aliceLive := false
		if a, st := x.m.Alloc(alice); a != nil && st == sim.Live {
			aliceLive = true
		}
		if rng.Intn(2) == 0 && (method == wire.MethodRefresh || method == wire.MethodCreatePermission) && state == "own-allocation" && aliceLive {
			x.controlRefresh = true
			n3, rl3, ok := x.challenge(c, method)
			if !ok {
				return
			}
			tid3 := w.NewTID()
			raw3 := c03Build(method, tid3, x.attrsFor(method, p1, 0x4001), c03cred{user: "alice", realm: rl3, pass: "pw-a", nonce: n3})
			r3 := x.send(c, method, raw3, tid3)
			x.controlRefresh = false
			rec.FP("control/m%x/%d", method, codeOfMsg(r3))
			if r3 == nil || r3.Class != wire.ClassSuccess {
				rec.Violate("auth-valid-rejected", fmt.Sprintf("m%x", method), "%s: method %x with sound credentials answered %d", c.Name, method, codeOfMsg(r3))
			} else {
				x.resync(c, method, r3, "alice", p1, 0x4001)
			}
		}
	}
	rec.SetSample(map[string]any{"rounds": rounds})
}

// resync brings the model in line after a request that legitimately succeeded outside the wrappers.
func (x *c03) resync(c *sim.RawClient, method uint16, r *wire.Msg, user string, peer *sim.Peer, num uint16) {
	if r == nil || r.Class != wire.ClassSuccess {
		return
	}
	a, st := x.m.Alloc(c)
	now := time.Now()
	switch method {
	case wire.MethodAllocate:
		// tear it down again with the same user so that the fresh 5-tuple stays free for later rounds
		old := *c
		c.User, c.Pass = user, x.w.Cfg.Users[user]
		x.m.AdoptAllocation(c, r)
		x.m.Refresh(c, sim.U32(0))
		c.User, c.Pass = old.User, old.Pass
	case wire.MethodRefresh:
		if a != nil && st == sim.Live {
			lt, _ := r.Lifetime()
			if lt == 0 {
				a.Gone, a.GoneAt = true, now
			} else {
				a.Exp = now.Add(time.Duration(lt) * time.Second)
			}
		}
	case wire.MethodCreatePermission:
		if a != nil && st == sim.Live && peer != nil {
			a.Perms[peer.Addr.IP.String()] = now.Add(x.m.PermTO)
		}
	case wire.MethodChannelBind:
		if a != nil && st == sim.Live && peer != nil {
			found := false
			for _, ch := range a.Chans {
				if ch.Num == num && ch.Peer == peer.Addr.String() {
					ch.Exp = now.Add(x.m.ChanTO)
					found = true
				}
			}
			if !found {
				a.Chans = append(a.Chans, &sim.MChan{Num: num, Peer: peer.Addr.String(), Exp: now.Add(x.m.ChanTO)})
			}
			a.Perms[peer.Addr.IP.String()] = now.Add(x.m.PermTO)
		}
	}
}

func (x *c03) attrsFor(method uint16, p *sim.Peer, num uint16) func(b *wire.Builder) {
	return func(b *wire.Builder) {
		switch method {
		case wire.MethodAllocate:
			b.Add(wire.AttrRequestedTransport, []byte{17, 0, 0, 0})
		case wire.MethodRefresh:
			if x.controlRefresh {
				b.AddU32(wire.AttrLifetime, 90000)
			} else {
				b.AddU32(wire.AttrLifetime, uint32(pick(x.rng, []int{0, 0, 1, 900})))
			}
		case wire.MethodCreatePermission:
			b.AddXorAddr(wire.AttrXORPeerAddress, p.Addr.IP, p.Addr.Port)
		case wire.MethodChannelBind:
			b.Add(wire.AttrChannelNumber, []byte{byte(num >> 8), byte(num), 0, 0})
			b.AddXorAddr(wire.AttrXORPeerAddress, p.Addr.IP, p.Addr.Port)
		case wire.MethodConnect:
			b.AddXorAddr(wire.AttrXORPeerAddress, p.Addr.IP, p.Addr.Port)
		}
	}
}

// ---------------------------------------------------------------- part B: nonce implementations

type nullLogger struct{}

func (nullLogger) Trace(string)          {}
func (nullLogger) Tracef(string, ...any) {}
func (nullLogger) Debug(string)          {}
func (nullLogger) Debugf(string, ...any) {}
func (nullLogger) Info(string)           {}
func (nullLogger) Infof(string, ...any)  {}
func (nullLogger) Warn(string)           {}
func (nullLogger) Warnf(string, ...any)  {}
func (nullLogger) Error(string)          {}
func (nullLogger) Errorf(string, ...any) {}

func runC03B(t *testing.T, rng *rand.Rand, rec *sim.Rec, tier string, caseNo int) {
	// nonce implementation under test
	hmacLen := -1 // -1 = long NonceHash
	if caseNo%3 != 0 {
		hmacLen = 2 + (caseNo/3)%31
	}
	mk := func() server.NonceManager {
		var nm server.NonceManager
		var err error
		if hmacLen < 0 {
			nm, err = server.NewNonceHash()
		} else {
			nm, err = server.NewShortNonceHash(hmacLen)
		}
		if err != nil {
			t.Fatal(err)
		}

		return nm
	}
	nm, other := mk(), mk()
	n := simnet.New()
	lsock, _ := n.ListenUDP(sim.ServerIP4, 3478)
	csock, _ := n.ListenUDP(net.IPv4(10, 1, 0, 1).To4(), 5000)
	defer n.CloseAll()
	mgr, err := allocation.NewManager(allocation.ManagerConfig{
		LeveledLogger: nullLogger{},
		AllocatePacketConn: func(allocation.AllocateListenerConfig) (net.PacketConn, net.Addr, error) {
			c, err := n.ListenUDP(sim.RelayIP4, 0)
			if err != nil {
				return nil, nil, err
			}

			return c, c.LocalAddr(), nil
		},
		AllocateListener: func(allocation.AllocateListenerConfig) (net.Listener, net.Addr, error) {
			return nil, nil, simnet.ErrInjected
		},
		AllocateConn: func(allocation.AllocateConnConfig) (net.Conn, error) { return nil, simnet.ErrInjected },
	})
	if err != nil {
		t.Fatal(err)
	}
	defer mgr.Close() //nolint:errcheck
	key := wire.LongTermKey("alice", "verif.test", "pw-a")
	handle := func(raw []byte) *wire.Msg {
		_ = server.HandleRequest(server.Request{
			Conn: lsock, SrcAddr: csock.Addr(), Buff: raw, AllocationManager: mgr, NonceHash: nm,
			AuthHandler: func(ra *auth.RequestAttributes) (string, []byte, bool) {
				if ra.Username != "alice" {
					return "", nil, false
				}

				return "alice", wire.LongTermKey(ra.Username, ra.Realm, "pw-a"), true
			},
			Log: nullLogger{}, Realm: "verif.test",
			ChannelBindTimeout: 10 * time.Minute, PermissionTimeout: 5 * time.Minute, AllocationLifetime: 10 * time.Minute,
		})
		for _, d := range csock.Drain() {
			if m, err := wire.ParseSTUN(d.Data); err == nil {
				return m
			}
		}

		return nil
	}
	_ = key
	tidc := 0
	newTID := func() (tid [12]byte) {
		tidc++
		copy(tid[:], fmt.Sprintf("c03b-%07d", tidc))

		return tid
	}
	impl := fmt.Sprintf("short%d", hmacLen)
	if hmacLen < 0 {
		impl = "long"
	}
	challenge := func() string {
		tid := newTID()
		r := handle(c03Build(wire.MethodRefresh, tid, nil, c03cred{omitUser: true, omitRealm: true, omitNonce: true, omitMI: true}))
		if r == nil || r.ErrorCode() != 401 {
			rec.Violate("auth-challenge-missing", impl, "nonce impl %s: no 401 challenge", impl)

			return ""
		}
		nv, _ := r.Get(wire.AttrNonce)

		return string(nv)
	}
	// tryAlloc: Allocate + Refresh(0) with the given nonce; returns the Allocate code
	tryAlloc := func(nonce string) int {
		tid := newTID()
		r := handle(c03Build(wire.MethodAllocate, tid, func(b *wire.Builder) { b.Add(wire.AttrRequestedTransport, []byte{17, 0, 0, 0}) },
			c03cred{user: "alice", realm: "verif.test", pass: "pw-a", nonce: nonce}))
		code := codeOfMsg(r)
		if code == 0 {
			tid2 := newTID()
			handle(c03Build(wire.MethodRefresh, tid2, func(b *wire.Builder) { b.AddU32(wire.AttrLifetime, 0) },
				c03cred{user: "alice", realm: "verif.test", pass: "pw-a", nonce: nonce}))
		}

		return code
	}
	n0 := challenge()
	if n0 == "" {
		return
	}
	minted := time.Now()
	if code := tryAlloc(n0); code != 0 {
		rec.Violate("auth-challenge-unusable", impl, "nonce impl %s: fresh challenge nonce rejected with %d", impl, code)

		return
	}
	rec.FP("nonce/%s/fresh-accepted", impl)
	// foreign instance
	on, _ := other.Generate()
	if code := tryAlloc(on); code == 0 {
		rec.Violate("auth-nonce-foreign", impl, "nonce impl %s: nonce minted by another instance accepted", impl)
	} else {
		rec.FP("nonce/%s/foreign-rejected/%d", impl, code)
	}
	// mutations (only where a chance hit is negligible: >= 8 HMAC bytes)
	if hmacLen < 0 || hmacLen >= 8 {
		alphabet := "0123456789ABCDEFGHIJKLMNOPQRSTUVWXYZ"
		if hmacLen < 0 {
			alphabet = "0123456789abcdef"
		}
		for i := 0; i < 12; i++ {
			mn := mutateString(rng, n0, alphabet)
			same := mn == n0
			if hmacLen >= 0 {
				same = sameShortNonce(mn, n0)
			} else {
				same = strings.EqualFold(mn, n0)
			}
			code := tryAlloc(mn)
			if same {
				rec.Ev("nonce-equivalent-encoding")

				continue
			}
			if code == 0 {
				rec.Violate("auth-nonce-mutated", impl, "nonce impl %s: mutated nonce %q (original %q) accepted", impl, mn, n0)
			}
			rec.FP("nonce/%s/mutated-rejected/%d", impl, code)
		}
	}
	// re-dated: the same MAC behind another minute count inside the last hour (the short nonce is
	// timestamp || truncated HMAC(timestamp))
	if hmacLen >= 8 {
		for _, delta := range []int{-1, -25, -59, 1} {
			if rn := redateShortNonce(n0, hmacLen, delta); rn != "" {
				if code := tryAlloc(rn); code == 0 {
					rec.Violate("auth-nonce-mutated", impl+"/re-dated", "nonce impl %s: nonce %q with its timestamp moved by %d min (%q) accepted", impl, n0, delta, rn)
				} else {
					rec.FP("nonce/%s/re-dated-rejected/%d", impl, code)
				}
			}
		}
	}
	defer func() {
		// ... and an expired nonce given today's date
		if hmacLen < 8 || len(rec.Violations()) > 0 {
			return
		}
		if rn := redateShortNonce(n0, hmacLen, int(time.Since(minted)/time.Minute)); rn != "" {
			if code := tryAlloc(rn); code == 0 {
				rec.Violate("auth-nonce-age", impl+"/re-dated", "nonce impl %s: a nonce minted %v ago whose timestamp was moved to now (%q) accepted", impl, time.Since(minted), rn)
			} else {
				rec.FP("nonce/%s/expired-re-dated-rejected/%d", impl, code)
			}
		}
	}()
	// age: accepted up to 59 min after minting, rejected from 62 min on (the short nonce has
	// one-minute granularity; in between the statement's "within the last hour" is undetermined)
	for _, age := range []time.Duration{30 * time.Minute, 59 * time.Minute, 62 * time.Minute, 3 * time.Hour, 25 * time.Hour} {
		if d := age - time.Since(minted); d > 0 {
			time.Sleep(d)
		}
		code := tryAlloc(n0)
		want := age <= 59*time.Minute
		if want != (code == 0) {
			rec.Violate("auth-nonce-age", fmt.Sprintf("%s/%s", impl, age), "nonce impl %s: nonce aged %v answered %d (accepted=%v, want accepted=%v)", impl, age, code, code == 0, want)
		}
		rec.FP("nonce/%s/age%v/%d", impl, age, code)
		if !want && code == 438 {
			// the stale-nonce challenge carries a fresh nonce... checked through the public server in part A
			rec.Ev("nonce-438-observed")
		}
	}
	rec.SetSample(map[string]any{"impl": impl})
}

// runC03Rotation: the operator's answer for a user changes while that user holds an allocation
// (password replaced, account removed): from then on only the key the handler returns *now*
// authenticates - for requests on the existing allocation and for new ones.
func runC03Rotation(t *testing.T, rng *rand.Rand, rec *sim.Rec, tier string, caseNo int) {
	cfg := sim.Config{
		Realm: "verif.test", Users: map[string]string{"alice": "pw-a", "bob": "pw-b"},
		UDPListeners: []*net.UDPAddr{{IP: sim.ServerIP4, Port: 3478}},
	}
	w, err := sim.NewWorld(cfg, rec, rng, true)
	if err != nil {
		t.Fatal(err)
	}
	defer w.Shutdown()
	m := sim.NewModel(w)
	c, _ := w.NewUDPClient("alice@c0", net.IPv4(10, 1, 0, 1).To4(), 5000, 0, "alice")
	other, _ := w.NewUDPClient("alice@c1", net.IPv4(10, 1, 0, 1).To4(), 5001, 0, "alice")
	if r := m.Allocate(c, sim.AllocOpts{Lifetime: sim.U32(3000)}); r == nil || r.Class != wire.ClassSuccess {
		rec.Inconclusive("allocate failed")

		return
	}
	// requests are sent raw from here on (the model does not know about changing passwords)
	try := func(cl *sim.RawClient, method uint16, pass string) int {
		for attempt := 0; attempt < 2; attempt++ {
			tid := w.NewTID()
			b := wire.NewBuilder(method, wire.ClassRequest, tid)
			if method == wire.MethodAllocate {
				b.Add(wire.AttrRequestedTransport, []byte{17, 0, 0, 0})
			} else {
				b.AddU32(wire.AttrLifetime, 2000)
			}
			b.Add(wire.AttrUsername, []byte("alice"))
			b.Add(wire.AttrRealm, []byte(cl.Realm))
			b.Add(wire.AttrNonce, []byte(cl.Nonce))
			b.AddIntegrity(wire.LongTermKey("alice", cl.Realm, pass))
			m.Track(cl, tid, method)
			r := cl.Exchange(b.Bytes(), tid)
			m.Audit(nil)
			if r != nil && r.Class == wire.ClassError && (r.ErrorCode() == 401 || r.ErrorCode() == 438) && attempt == 0 {
				if n, ok := r.Get(wire.AttrNonce); ok {
					cl.Nonce = string(n)
				}
				if rl, ok := r.Get(wire.AttrRealm); ok {
					cl.Realm = string(rl)
				}

				continue
			}

			return codeOfMsg(r)
		}

		return -1
	}
	other.Realm, other.Nonce = c.Realm, c.Nonce
	cur := "pw-a"
	rounds := 2 + rng.Intn(3)
	for i := 0; i < rounds; i++ {
		old := cur
		cur = fmt.Sprintf("pw-rotated-%d", rng.Intn(1000000))
		w.SetPassword("alice", cur)
		if code := try(c, wire.MethodRefresh, old); code == 0 {
			rec.Violate("auth-defect-success", "m4/replaced-password", "Refresh signed with a password the operator replaced %d request(s) ago answered success", 1)
		}
		if code := try(other, wire.MethodAllocate, old); code == 0 {
			rec.Violate("auth-defect-success", "m3/replaced-password", "Allocate on a fresh 5-tuple signed with a replaced password answered success")
		}
		if code := try(c, wire.MethodRefresh, cur); code != 0 {
			rec.Violate("auth-valid-rejected", "m4/new-password", "Refresh signed with the user's current password answered %d", code)
		}
		rec.FP("rotation/round")
	}
	if rng.Intn(2) == 0 {
		w.SetPassword("alice", "")
		if code := try(c, wire.MethodRefresh, cur); code == 0 {
			rec.Violate("auth-defect-success", "m4/removed-account", "Refresh by a user whose account the operator removed answered success")
		}
		rec.FP("rotation/account-removed")
	}
	rec.SetSample(map[string]any{"kind": "operator-changes-its-answer", "rounds": rounds})
}

// runC03Concurrent: a server with several listeners mints challenges for many clients at once;
// the nonce of every 401 must be accepted when the client uses it straight away (the statement's
// "whose fresh nonce and realm the server itself subsequently accepts"), whichever read loops
// were minting other nonces at the same moment.
func runC03Concurrent(t *testing.T, rng *rand.Rand, rec *sim.Rec, tier string, caseNo int) {
	cfg := sim.Config{Realm: "verif.test", Users: map[string]string{"alice": "pw-a"}}
	nl := 3 + rng.Intn(3)
	for i := 0; i < nl; i++ {
		cfg.UDPListeners = append(cfg.UDPListeners, &net.UDPAddr{IP: sim.ServerIP4, Port: 3478 + i})
	}
	w, err := sim.NewWorld(cfg, rec, rng, true)
	if err != nil {
		t.Fatal(err)
	}
	defer w.Shutdown()
	w.Net.LogSends = false
	const perClient = 40
	nclients := 2 * nl
	type bad struct{ what string }
	out := make([][]bad, nclients)
	var wg sync.WaitGroup
	start := make(chan struct{})
	key := wire.LongTermKey("alice", "verif.test", "pw-a")
	for i := 0; i < nclients; i++ {
		u, err := w.Net.ListenUDP(net.IPv4(10, 1, 0, byte(1+i)).To4(), 5000+i)
		if err != nil {
			t.Fatal(err)
		}
		srv := &net.UDPAddr{IP: sim.ServerIP4, Port: 3478 + i%nl}
		prng := rand.New(rand.NewSource(rng.Int63()))
		wg.Add(1)
		go func(i int) {
			defer wg.Done()
			buf := make([]byte, 2048)
			exchange := func(raw []byte, tid [12]byte) *wire.Msg {
				_, _ = u.WriteTo(raw, srv)
				for {
					_ = u.SetReadDeadline(time.Now().Add(2 * time.Second))
					n, _, err := u.ReadFrom(buf)
					if err != nil {
						return nil
					}
					if m, err := wire.ParseSTUN(buf[:n]); err == nil && m.TID == tid {
						return m
					}
				}
			}
			<-start
			for k := 0; k < perClient; k++ {
				var tid [12]byte
				prng.Read(tid[:])
				b := wire.NewBuilder(wire.MethodRefresh, wire.ClassRequest, tid)
				r := exchange(b.Bytes(), tid)
				if r == nil || r.ErrorCode() != 401 {
					out[i] = append(out[i], bad{fmt.Sprintf("request without credentials answered %d", codeOfMsg(r))})

					return
				}
				nonce, ok1 := r.Get(wire.AttrNonce)
				realm, ok2 := r.Get(wire.AttrRealm)
				if !ok1 || !ok2 {
					out[i] = append(out[i], bad{"401 without NONCE/REALM"})

					return
				}
				prng.Read(tid[:])
				b = wire.NewBuilder(wire.MethodRefresh, wire.ClassRequest, tid)
				b.Add(wire.AttrUsername, []byte("alice"))
				b.Add(wire.AttrRealm, realm)
				b.Add(wire.AttrNonce, nonce)
				b.AddIntegrity(key)
				r = exchange(b.Bytes(), tid)
				// no allocation here: the server answers 437 (or stays silent); it must not turn down the
				// nonce it has just minted (438) or the credentials (400/401)
				if cc := codeOfMsg(r); cc == 438 || cc == 401 || cc == 400 {
					out[i] = append(out[i], bad{fmt.Sprintf("nonce %q from a 401 minted a moment ago (round %d) was answered %d", nonce, k, cc)})

					return
				}
			}
		}(i)
	}
	close(start)
	wg.Wait()
	for _, bs := range out {
		for _, b := range bs {
			rec.Violate("auth-challenge-unusable", "concurrent", "%d listeners, %d clients at once: %s", nl, nclients, b.what)
		}
	}
	rec.EvN("concurrent-challenges-used", nclients*perClient)
	rec.FP("challenge-reuse/concurrent/listeners=%d", nl)
	rec.SetSample(map[string]any{"kind": "concurrent-challenges", "listeners": nl, "clients": nclients})
}

func init() {
	register("C03", PropDef{
		Bubble: true,
		Cases: func(tier string) int {
			if tier == "thorough" {
				return 80000
			}

			return 1200
		},
		Run: func(t *testing.T, rng *rand.Rand, rec *sim.Rec, tier string, caseNo int) {
			if caseNo%6 == 5 {
				runC03B(t, rng, rec, tier, caseNo/6)

				return
			}
			if caseNo%20 == 13 {
				runC03Rotation(t, rng, rec, tier, caseNo)

				return
			}
			if caseNo%20 == 7 {
				runC03Concurrent(t, rng, rec, tier, caseNo)

				return
			}
			if caseNo%12 == 4 {
				// ConnectionBind: wrong user / wrong id / repeated binds must neither succeed nor
				// disturb the owner's own bind (RFC 6062 histories of C16)
				runC16(t, rng, rec, tier, caseNo)

				return
			}
			runC03A(t, rng, rec, tier, caseNo)
		},
	})
}
