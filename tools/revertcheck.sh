#!/bin/sh
# usage: revertcheck.sh <fix-commit> <prop>...  — reverts one fix: commit on a scratch copy and expects the checks to fire
C="$1"; shift
git -C /repo show "$C" > /tmp/revert.$$.diff
D=$(mktemp -d /tmp/vrev.XXXXXX)
rsync -a --exclude .git /repo/ "$D/"
( cd "$D" && patch -R -p1 -s < /tmp/revert.$$.diff ) || { echo "revert failed"; rm -rf "$D" /tmp/revert.$$.diff; exit 2; }
rm -f /tmp/revert.$$.diff
rc=0
for p in "$@"; do
  out=$(cd /verif && VERIF_SCRATCH_TAG="$(basename "$D")" VERIF_REPO="$D" ./check "$p" ${TIER:-quick} 2>&1); code=$?
  echo "revert $C: $p exit=$code; first: $(echo "$out" | grep -m1 '^violation\|^crash\|^hang\|^data races' | cut -c1-200)"
  [ $code -eq 1 ] || rc=1
done
rm -rf "$D" "/verif/.build/scratch-$(basename "$D")"
exit $rc
