package props

import (
	"bytes"
	"fmt"
	"io"
	"math/rand"
	"net"
	"testing"
	"time"

	"github.com/pion/turn/v5"
	"github.com/pion/turn/v5/verifharness/sim"
	"github.com/pion/turn/v5/verifharness/simnet"
	"github.com/pion/turn/v5/verifharness/wire"
)

// C16: TCP relay (RFC 6062) - connection ids are unique and backed by real peer connections,
// bind exactly once, only by the owner, only within 30 s; afterwards bytes are piped intact in
// both directions; a second Connect to the same peer gets 446 and the server keeps serving.

func init() {
	sim.RegisterKind("connid-duplicate", "C16", "C04")
	sim.RegisterKind("connect-wrong-source", "C16", "C04")
	sim.RegisterKind("connid-unbacked", "C16")
	sim.RegisterKind("connect-unexpected", "C16", "C04")
	sim.RegisterKind("connect-dup-code", "C16")
	sim.RegisterKind("connect-accepted-denied", "C01", "C16")
	sim.RegisterKind("attempt-unpermitted", "C16", "C02")
	sim.RegisterKind("attempt-missing", "C16")
	sim.RegisterKind("bind-accepted", "C16", "C03")
	sim.RegisterKind("bind-rejected", "C16", "C03")
	sim.RegisterKind("bind-deadline", "C16")
	sim.RegisterKind("pipe-bytes", "C16")
	sim.RegisterKind("pipe-close", "C16")
	sim.RegisterKind("server-wedged", "C16", "C18", "C06")
	sim.RegisterKind("alloc-expiry-late", "C06", "C16")
	sim.RegisterKind("alloc-expiry-early", "C06")
	sim.RegisterKind("ledger-open-after-death", "C15", "C06", "C16")
	sim.RegisterKind("client-tcp", "C16", "C13")
	sim.RegisterKind("conn-open-after-death", "C15", "C16")
}

type tcpPeer struct {
	addr *net.TCPAddr
	l    *simnet.Listener
}

type mConn struct {
	id      uint32
	peer    string
	peerEnd *simnet.Conn // the peer's end of the peer<->relay connection
	created time.Time
	bound   bool
	dead    bool
	data    *simnet.Conn // client's data connection once bound
	c2p     []byte       // bytes written by the client, not yet seen at the peer
	p2c     []byte
	owner   *sim.RawClient
}

type c16 struct {
	bindDefect string
	t          *testing.T
	w          *sim.World
	m          *sim.Model
	rng        *rand.Rand
	rec        *sim.Rec
	conns      []*mConn
	peers      []*tcpPeer
	strangers  int
}

func (x *c16) liveConn(pred func(c *mConn) bool) *mConn {
	var cs []*mConn
	for _, c := range x.conns {
		if !c.dead && pred(c) {
			cs = append(cs, c)
		}
	}
	if len(cs) == 0 {
		return nil
	}

	return pick(x.rng, cs)
}

// serverAlive: no manager lock is held and the server answers a Binding and a Refresh.
func (x *c16) serverAlive(c *sim.RawClient, when string) bool {
	x.w.Settle() // lock probes are only meaningful at a quiescent point
	for _, mgr := range x.w.Srv.VerifManagers() {
		if held := mgr.VerifLocksHeld(); len(held) > 0 {
			x.rec.Violate("lock-held", when, "mutex held at a quiescent point after %s: %v", when, held)

			return false
		}
	}
	done := make(chan *wire.Msg, 1)
	go func() { done <- x.m.Refresh(c, sim.U32(600)) }()
	select {
	case r := <-done:
		if r == nil || r.Class != wire.ClassSuccess {
			x.rec.Violate("server-wedged", when, "Refresh after %s answered %d", when, codeOfMsg(r))

			return false
		}
	case <-time.After(5 * time.Second):
		x.rec.Violate("server-wedged", when, "the server no longer answers requests after %s", when)

		return false
	}

	return true
}

func (x *c16) acceptAt(p *tcpPeer) *simnet.Conn {
	ch := make(chan net.Conn, 1)
	go func() {
		c, err := p.l.Accept()
		if err == nil {
			ch <- c
		}
	}()
	select {
	case c := <-ch:
		return c.(*simnet.Conn)
	case <-time.After(time.Millisecond):
		p.l.FailNextAccept(simnet.ErrInjected) // unblock the helper goroutine
		time.Sleep(time.Millisecond)

		return nil
	}
}

func (x *c16) opConnect(c *sim.RawClient) {
	a, st := x.m.Alloc(c)
	if a == nil || st != sim.Live {
		return
	}
	p := pick(x.rng, x.peers)
	listening := p.l != nil
	dup := false
	for _, mc := range x.conns {
		if !mc.dead && mc.owner == c && mc.peer == p.addr.String() {
			age := time.Since(mc.created)
			switch {
			case mc.bound || age <= 29*time.Second:
				dup = true
			case age < 31*time.Second:
				return // the unbound connection is being removed about now: outcome undetermined
			default:
				mc.dead = true // removed by the 30 s bind deadline
				_ = mc.peerEnd.Close()
			}
		}
	}
	resp := x.m.Connect(c, p.addr)
	code := codeOfMsg(resp)
	x.rec.Tracef("%s Connect(%s) listening=%v dup=%v -> %d", c.Name, p.addr, listening, dup, code)
	x.rec.FP("connect/listening=%v/dup=%v/%d", listening, dup, code)
	switch {
	case dup:
		if code != 446 {
			x.rec.Violate("connect-dup-code", fmt.Sprintf("%d", code), "second Connect to the live peer connection %s answered %d, want 446", p.addr, code)
		}
		x.serverAlive(c, "duplicate-connect")
	case !listening:
		if code == 0 {
			x.rec.Violate("connect-unexpected", "success-without-peer", "Connect to %s where nobody listens answered success", p.addr)
		}
	default:
		if code != 0 {
			x.rec.Violate("connect-unexpected", fmt.Sprintf("failed-%d", code), "Connect to listening peer %s answered %d", p.addr, code)

			return
		}
		v, ok := resp.Get(wire.AttrConnectionID)
		if !ok || len(v) != 4 {
			x.rec.Violate("connect-unexpected", "no-id", "Connect success without CONNECTION-ID")

			return
		}
		id := uint32(v[0])<<24 | uint32(v[1])<<16 | uint32(v[2])<<8 | uint32(v[3])
		pe := x.acceptAt(p)
		if pe == nil {
			x.rec.Violate("connid-unbacked", "connect", "Connect success (id %d) but the peer %s accepted no connection", id, p.addr)

			return
		}
		if pe.RemoteAddr().String() != a.Relay {
			x.rec.Violate("connid-unbacked", "source", "peer connection comes from %s, the relayed address is %s", pe.RemoteAddr(), a.Relay)
		}
		x.addConn(&mConn{id: id, peer: p.addr.String(), peerEnd: pe, created: time.Now(), owner: c})
	}
}

// opConnectRefused: Connect toward a peer the permission handler refuses must fail and must not
// create an outbound connection.
func (x *c16) opConnectRefused(c *sim.RawClient) {
	a, st := x.m.Alloc(c)
	if a == nil || st != sim.Live {
		return
	}
	l, err := x.w.Net.ListenTCP(net.IPv4(10, 2, 8, 8).To4(), 8800+x.rng.Intn(100))
	if err != nil {
		return
	}
	defer l.Close() //nolint:errcheck
	before := x.w.Gen.CallCount("conn")
	resp := x.m.Connect(c, l.TCPAddr())
	code := codeOfMsg(resp)
	x.rec.FP("connect/refused-peer/%d", code)
	if code == 0 {
		x.rec.Violate("connect-accepted-denied", "success", "Connect toward %s, which the permission handler refuses, answered success", l.TCPAddr())
	}
	if x.w.Gen.CallCount("conn") != before {
		x.rec.Violate("connect-accepted-denied", "dialed", "the server opened a connection toward refused peer %s", l.TCPAddr())
	}
}

// opConnectWithoutAllocation: the same user, on a second control connection that holds no
// allocation, sends Connect: that 5-tuple has nothing to connect from - no success, no dial, and
// the first connection's allocation is none the wiser (its own Connect to that peer still works).
func (x *c16) opConnectWithoutAllocation(owner *sim.RawClient) {
	a, st := x.m.Alloc(owner)
	if a == nil || st != sim.Live {
		return
	}
	x.strangers++
	second, err := x.w.NewTCPClient(fmt.Sprintf("second-%d", x.strangers), net.IPv4(10, 1, 2, byte(x.strangers%250+1)).To4(), 6500+x.strangers, 0, owner.User)
	if err != nil {
		return
	}
	defer func() { second.Close(); x.w.Settle(); x.m.ClientClosed(second) }()
	var p *tcpPeer
	for _, q := range x.peers {
		if q.l != nil {
			p = q
		}
	}
	if p == nil {
		return
	}
	before := x.w.Gen.CallCount("conn")
	resp := x.m.Connect(second, p.addr)
	code := codeOfMsg(resp)
	x.rec.FP("connect/no-allocation/%d", code)
	if code == 0 {
		x.rec.Violate("connect-unexpected", "success-without-allocation", "Connect on a control connection that holds no allocation (same user as %s) answered success", owner.Name)
	}
	if x.w.Gen.CallCount("conn") != before {
		x.rec.Violate("connect-unexpected", "dialed-without-allocation", "the server opened a peer connection for a Connect that arrived on a 5-tuple without allocation")
	}
	if pe := x.acceptAt(p); pe != nil {
		_ = pe.Close()
	}
}

func (x *c16) addConn(nc *mConn) {
	for _, mc := range x.conns {
		if !mc.dead && mc.id == nc.id {
			x.rec.Violate("connid-duplicate", "live", "connection id %d handed out while another live connection has it", nc.id)
		}
	}
	x.conns = append(x.conns, nc)
	x.rec.Ev("peer-connections")
}

// opInbound: a peer dials the relayed address.
func (x *c16) opInbound(c *sim.RawClient, permitted bool) {
	a, st := x.m.Alloc(c)
	if a == nil || st != sim.Live {
		return
	}
	ip := net.IPv4(10, 2, 0, byte(1+x.rng.Intn(3))).To4()
	if !permitted {
		ip = net.IPv4(10, 2, 9, byte(1+x.rng.Intn(200))).To4()
		// preferably a host this allocation has dealt with (e.g. connected to) but holds no
		// permission for: nothing but CreatePermission installs one
		for _, k := range x.rng.Perm(3) {
			cand := net.IPv4(10, 2, 0, byte(1+k)).To4()
			if a.PermState(cand) == sim.Dead && x.rng.Intn(3) != 0 {
				ip = cand

				break
			}
		}
	} else if a.PermState(ip) != sim.Live {
		x.m.CreatePermission(c, &net.UDPAddr{IP: ip, Port: 1})
	}
	relayTCP := &net.TCPAddr{IP: a.RelayUDP.IP, Port: a.RelayUDP.Port}
	x.w.TakeConnAttempts()
	pe, err := x.w.Net.DialTCP(ip, 0, relayTCP)
	if err != nil {
		x.rec.Violate("attempt-missing", "dial", "peer could not reach the relayed address %s: %v", relayTCP, err)

		return
	}
	x.w.Settle()
	x.m.Audit(nil)
	atts := x.w.TakeConnAttempts()
	x.rec.FP("inbound/permitted=%v/attempts=%d", permitted, len(atts))
	if !permitted {
		if len(atts) > 0 {
			x.rec.Violate("attempt-unpermitted", "indication", "ConnectionAttempt announced for %s which has no permission", pe.LocalAddr())
		}
		if !pe.PeerClosedWrite() {
			x.rec.Violate("attempt-unpermitted", "kept-open", "connection from unpermitted %s was not closed by the server", pe.LocalAddr())
		}
		_ = pe.Close()

		return
	}
	if len(atts) != 1 {
		x.rec.Violate("attempt-missing", fmt.Sprintf("n=%d", len(atts)), "%d ConnectionAttempt indications for one inbound connection from permitted %s", len(atts), pe.LocalAddr())
		_ = pe.Close()

		return
	}
	at := atts[0]
	if at.Client != c || at.Peer != pe.LocalAddr().String() {
		x.rec.Violate("attempt-missing", "wrong", "ConnectionAttempt went to %v naming %s; connection came from %s to %s's relay", at.Client, at.Peer, pe.LocalAddr(), c.Name)
	}
	x.addConn(&mConn{id: at.ID, peer: pe.LocalAddr().String(), peerEnd: pe, created: time.Now(), owner: c})
}

// bind opens a fresh data connection and sends ConnectionBind for id with the given credentials.
func (x *c16) bind(owner *sim.RawClient, id uint32, user string) (code int, data *simnet.Conn, rest []byte) {
	l := x.w.ServerTCP[0]
	conn, err := x.w.Net.DialTCP(net.IPv4(10, 1, 1, 99).To4(), 0, l.TCPAddr())
	if err != nil {
		return -2, nil, nil
	}
	if x.rng.Intn(2) == 0 {
		segRng := rand.New(rand.NewSource(x.rng.Int63()))
		conn.Peer().SetSeg(func(avail int) int { return 1 + segRng.Intn(avail) })
	}
	tid := x.w.NewTID()
	b := wire.NewBuilder(wire.MethodConnectionBind, wire.ClassRequest, tid)
	b.AddU32(wire.AttrConnectionID, id)
	cred := *owner
	cred.User, cred.Pass = user, x.w.Cfg.Users[user]
	switch x.bindDefect {
	case "no-credentials":
	case "wrong-password":
		cred.Pass += "x"
		cred.AddAuth(b)
	case "bad-nonce":
		cred.Nonce = "0" + cred.Nonce + "Z"
		cred.AddAuth(b)
	default:
		cred.AddAuth(b)
	}
	_, _ = conn.Write(b.Bytes())
	x.w.Settle()
	got, _ := conn.ReadAvailable()
	n, _, ferr := wire.NextFrame(got)
	if ferr != nil {
		_ = conn.Close()

		return -1, nil, nil
	}
	msg, perr := wire.ParseSTUN(got[:n])
	if perr != nil || msg.TID != tid {
		_ = conn.Close()

		return -1, nil, nil
	}
	code = codeOfMsg(msg)
	if code != 0 {
		_ = conn.Close()

		return code, nil, nil
	}

	return 0, conn, got[n:]
}

func (x *c16) opBind() {
	mc := x.liveConn(func(c *mConn) bool { return true })
	if mc == nil {
		return
	}
	age := time.Since(mc.created)
	variant := pick(x.rng, []string{"right", "right", "right", "wrong-id", "wrong-user", "repeat", "no-credentials", "wrong-password", "bad-nonce"})
	if mc.bound && variant == "right" {
		variant = "repeat"
	}
	if !mc.bound && variant == "repeat" {
		variant = "right"
	}
	id, user := mc.id, mc.owner.User
	switch variant {
	case "wrong-id":
		id = mc.id ^ uint32(1+x.rng.Intn(1<<20))
	case "wrong-user":
		user = "bob"
		if mc.owner.User == "bob" {
			user = "alice"
		}
	}
	if variant == "no-credentials" || variant == "wrong-password" || variant == "bad-nonce" {
		x.bindDefect = variant
	}
	code, data, rest := x.bind(mc.owner, id, user)
	x.bindDefect = ""
	x.rec.Tracef("ConnectionBind(id=%d %s age=%v) -> %d", id, variant, age.Round(time.Second), code)
	x.rec.FP("bind/%s/age<=29s=%v/%d", variant, age <= 29*time.Second, code)
	switch {
	case variant == "right" && age <= 29*time.Second:
		if code != 0 {
			x.rec.Violate("bind-rejected", fmt.Sprintf("%d", code), "ConnectionBind by the owner for live id %d at age %v answered %d", id, age, code)

			return
		}
		mc.bound, mc.data = true, data
		mc.p2c = append(mc.p2c, rest...)
	case variant == "right" && age >= 31*time.Second:
		if code == 0 {
			x.rec.Violate("bind-deadline", "late-bind", "ConnectionBind %v after the connection was created still succeeded", age)
		}
	case variant == "right":
		if code == 0 {
			mc.bound, mc.data = true, data
		} else {
			mc.dead = true
		}
	default:
		if code == 0 {
			x.rec.Violate("bind-accepted", variant, "ConnectionBind with %s (id %d user %s) answered success", variant, id, user)
			if data != nil {
				_ = data.Close()
			}
		}
	}
	x.serverAlive(mc.owner, "connectionbind-"+variant)
}

func (x *c16) opPipe() {
	mc := x.liveConn(func(c *mConn) bool { return c.bound })
	if mc == nil {
		return
	}
	for dir := 0; dir < 2; dir++ {
		n := pick(x.rng, []int{0, 1, 3, 100, 1500, 4000, 20000, 65536})
		buf := make([]byte, n)
		x.rng.Read(buf)
		if dir == 0 {
			_, _ = mc.data.Write(buf)
			mc.c2p = append(mc.c2p, buf...)
		} else {
			_, _ = mc.peerEnd.Write(buf)
			mc.p2c = append(mc.p2c, buf...)
		}
	}
	x.w.Settle()
	x.checkPipe(mc)
	x.rec.FP("pipe")
}

// opStalledReceiver: one side of a bound pair stops reading for 7-40 s while the other keeps
// writing (the relay's writes meet TCP flow control: 4 KiB in flight): that is not a dead peer.
// When the reader resumes, every byte arrives, in order, and the pair is still open.
func (x *c16) opStalledReceiver() {
	mc := x.liveConn(func(c *mConn) bool { return c.bound })
	if mc == nil {
		return
	}
	towardPeer := x.rng.Intn(2) == 0
	reader, writer := mc.peerEnd, mc.data
	if !towardPeer {
		reader, writer = mc.data, mc.peerEnd
	}
	reader.Peer().SetCapacity(4096)
	buf := make([]byte, pick(x.rng, []int{20000, 70000, 200000}))
	x.rng.Read(buf)
	_, _ = writer.Write(buf)
	stall := pick(x.rng, []time.Duration{7 * time.Second, 12 * time.Second, 40 * time.Second})
	x.w.Sleep(stall)
	var got []byte
	for i := 0; i < 1000; i++ {
		b, _ := reader.ReadAvailable()
		if len(b) == 0 {
			break
		}
		got = append(got, b...)
		x.w.Settle()
	}
	reader.Peer().SetCapacity(0)
	dir := map[bool]string{true: "client-to-peer", false: "peer-to-client"}[towardPeer]
	if !bytes.Equal(got, buf) {
		x.rec.Violate("pipe-bytes", "stalled-receiver/"+dir, "the receiving side of connection %d did not read for %v while %d bytes were sent to it (4 KiB window): %d bytes arrived afterwards (first difference at %d)", mc.id, stall, len(buf), len(got), firstDiff(got, buf))

		return
	}
	if mc.peerEnd.PeerClosedWrite() || mc.data.PeerClosedWrite() {
		x.rec.Violate("pipe-close", "stalled-receiver/"+dir, "bound connection %d was closed by the server although neither side closed it (the receiver had only paused for %v)", mc.id, stall)

		return
	}
	x.checkPipe(mc)
	x.rec.FP("pipe/stalled-receiver/%s/%v", dir, stall)
}

// opLongLived: a bound pair stays in use for longer than an allocation lifetime (the owner keeps
// its allocation refreshed): bytes still pass both ways, nothing times the pair out.
func (x *c16) opLongLived() {
	mc := x.liveConn(func(c *mConn) bool { return c.bound })
	if mc == nil {
		return
	}
	if r := x.m.Refresh(mc.owner, sim.U32(3599)); r == nil || r.Class != wire.ClassSuccess {
		return
	}
	for _, c := range x.w.Clients {
		if c != mc.owner && !c.Closed {
			if a, st := x.m.Alloc(c); a != nil && st == sim.Live {
				x.m.Refresh(c, sim.U32(3599))
			}
		}
	}
	// unbound connections die at their 30 s deadline meanwhile
	for _, c := range x.conns {
		if !c.bound && !c.dead {
			c.dead = true
			_ = c.peerEnd.Close()
		}
	}
	x.w.Sleep(pick(x.rng, []time.Duration{9*time.Minute + 58*time.Second, 10*time.Minute + 2*time.Second, 21 * time.Minute}))
	x.m.Audit(nil)
	msg := []byte(fmt.Sprintf("still-here-%d", x.rng.Int63()))
	_, _ = mc.data.Write(msg)
	mc.c2p = append(mc.c2p, msg...)
	_, _ = mc.peerEnd.Write(msg)
	mc.p2c = append(mc.p2c, msg...)
	x.w.Settle()
	if mc.peerEnd.PeerClosedWrite() || mc.data.PeerClosedWrite() {
		x.rec.Violate("pipe-close", "idle-timeout", "bound connection %d was closed by the server although neither side closed it (in use for more than an allocation lifetime, allocation refreshed)", mc.id)

		return
	}
	x.checkPipe(mc)
	x.rec.FP("pipe/long-lived")
}

func (x *c16) checkPipe(mc *mConn) {
	got, _ := mc.peerEnd.ReadAvailable()
	if !bytes.Equal(got, mc.c2p) {
		x.rec.Violate("pipe-bytes", "client-to-peer", "peer received %d bytes, client sent %d (first difference at %d) on connection %d", len(got), len(mc.c2p), firstDiff(got, mc.c2p), mc.id)
	}
	mc.c2p = nil
	got2, _ := mc.data.ReadAvailable()
	if !bytes.Equal(got2, mc.p2c) {
		x.rec.Violate("pipe-bytes", "peer-to-client", "client received %d bytes, peer sent %d (first difference at %d) on connection %d", len(got2), len(mc.p2c), firstDiff(got2, mc.p2c), mc.id)
	}
	mc.p2c = nil
	x.rec.Ev("pipe-comparisons")
}

func firstDiff(a, b []byte) int {
	for i := 0; i < len(a) && i < len(b); i++ {
		if a[i] != b[i] {
			return i
		}
	}

	return min(len(a), len(b))
}

func (x *c16) opClose() {
	mc := x.liveConn(func(c *mConn) bool { return c.bound })
	if mc == nil {
		return
	}
	fromClient := x.rng.Intn(2) == 0
	if fromClient {
		_ = mc.data.Close()
	} else {
		_ = mc.peerEnd.Close()
	}
	x.w.Settle()
	other := mc.peerEnd
	if !fromClient {
		other = mc.data
	}
	if !other.PeerClosedWrite() {
		x.rec.Violate("pipe-close", fmt.Sprintf("from-client=%v", fromClient), "closing one side of bound connection %d did not close the other side", mc.id)
	}
	_ = mc.data.Close()
	_ = mc.peerEnd.Close()
	mc.dead = true
	x.rec.FP("close/from-client=%v", fromClient)
	x.serverAlive(mc.owner, "close")
}

// opTeardown ends one client's allocation (Refresh 0 or closing the control connection): every
// peer connection it owned, bound or not, must be closed by the server.
func (x *c16) opTeardown(c *sim.RawClient) {
	a, st := x.m.Alloc(c)
	if a == nil || st != sim.Live || c.Closed {
		return
	}
	how := "refresh0"
	if x.rng.Intn(2) == 0 {
		how = "control-close"
		c.Close()
		x.w.Settle()
		x.m.ClientClosed(c)
	} else {
		x.m.Refresh(c, sim.U32(0))
	}
	x.w.Sleep(time.Second)
	x.m.Audit(nil)
	n := 0
	for _, mc := range x.conns {
		if mc.dead || mc.owner != c {
			continue
		}
		n++
		if !mc.peerEnd.PeerClosedWrite() {
			x.rec.Violate("conn-open-after-death", how, "peer connection %d (bound=%v) of %s is still open after its allocation ended by %s", mc.id, mc.bound, c.Name, how)
		}
		if mc.bound && mc.data != nil && !mc.data.PeerClosedWrite() {
			x.rec.Violate("conn-open-after-death", how+"/data", "client data connection of bound connection %d is still open after its allocation ended by %s", mc.id, how)
		}
		mc.dead = true
		_ = mc.peerEnd.Close()
		if mc.data != nil {
			_ = mc.data.Close()
		}
	}
	for _, r := range x.w.Gen.Resources() {
		if r.Addr == a.Relay && r.Open() {
			x.rec.Violate("conn-open-after-death", how+"/"+r.Kind, "%s resource %s (peer %s) of the ended allocation is still open", r.Kind, r.Addr, r.Peer)
		}
	}
	x.rec.FP("teardown/%s/conns=%d", how, min(n, 3))
	if how == "refresh0" {
		x.serverAlive0()
	}
}

// serverAlive0: lock probes only (the acting client may be gone).
func (x *c16) serverAlive0() {
	x.w.Settle()
	for _, mgr := range x.w.Srv.VerifManagers() {
		if held := mgr.VerifLocksHeld(); len(held) > 0 {
			x.rec.Violate("lock-held", "teardown", "mutex held at a quiescent point after teardown: %v", held)
		}
	}
}

// opDeadline moves to 29 s / 31 s after the creation of an unbound connection.
func (x *c16) opDeadline() {
	mc := x.liveConn(func(c *mConn) bool { return !c.bound })
	if mc == nil {
		x.w.Sleep(time.Duration(1+x.rng.Intn(20)) * time.Second)
		x.m.Audit(nil)

		return
	}
	target := mc.created.Add(29 * time.Second)
	late := x.rng.Intn(2) == 0
	if late {
		target = mc.created.Add(31 * time.Second)
	}
	if d := time.Until(target); d > 0 {
		x.w.Sleep(d)
	}
	x.m.Audit(nil)
	// everything unbound and older than 31 s must have been closed by the server
	for _, c := range x.conns {
		if c.dead || c.bound {
			continue
		}
		age := time.Since(c.created)
		switch {
		case age >= 31*time.Second:
			if !c.peerEnd.PeerClosedWrite() {
				x.rec.Violate("bind-deadline", "not-closed", "peer connection %d is still open %v after creation without ConnectionBind", c.id, age)
			}
			// the owner's ConnectionBind comes too late now
			code, data, _ := x.bind(c.owner, c.id, c.owner.User)
			x.rec.FP("bind/right/age<=29s=false/%d", code)
			if code == 0 {
				x.rec.Violate("bind-deadline", "late-bind", "ConnectionBind %v after the connection was created still succeeded", age)
				_ = data.Close()
			}
			c.dead = true
			_ = c.peerEnd.Close()
		case age <= 29*time.Second:
			if c.peerEnd.PeerClosedWrite() {
				x.rec.Violate("bind-deadline", "closed-early", "peer connection %d was closed after only %v", c.id, age)
				c.dead = true
			}
		}
	}
	x.rec.FP("deadline/late=%v", late)
}

// runSlowConnect: a Connect whose outgoing dial takes 20 s (slow or unanswering peer) is pending
// while another client's allocation reaches the end of its lifetime: that allocation must still
// end on time (C06), stop relaying, and the server must keep answering; afterwards the Connect
// completes normally.
func runSlowConnect(t *testing.T, rng *rand.Rand, rec *sim.Rec, tier string, caseNo int) {
	cfg := sim.Config{
		Realm: "verif.test", Users: map[string]string{"alice": "pw-a", "bob": "pw-b"},
		TCPListeners: []*net.TCPAddr{{IP: sim.ServerIP4, Port: 3478}},
		UDPListeners: []*net.UDPAddr{{IP: sim.ServerIP4, Port: 3478}},
	}
	w, err := sim.NewWorld(cfg, rec, rng, true)
	if err != nil {
		t.Fatal(err)
	}
	defer w.Shutdown()
	m := sim.NewModel(w)
	tc, err := w.NewTCPClient("t0", net.IPv4(10, 1, 1, 1).To4(), 6000, 0, "alice")
	if err != nil {
		t.Fatal(err)
	}
	uc, _ := w.NewUDPClient("c1", net.IPv4(10, 1, 0, 1).To4(), 5000, 0, "bob")
	life := uint32(3 + rng.Intn(12))
	// in half of the cases the Connect's own allocation reaches its lifetime while the dial is still
	// under way (the control connection is busy with the Connect, so it cannot be given up by
	// request): whatever the dial produces afterwards belongs to nobody and must be closed, at the
	// latest when the 30 s ConnectionBind deadline of that connection passes
	ownerDies := rng.Intn(2) == 0
	tcOpts := sim.AllocOpts{Transport: 6}
	if ownerDies {
		tcOpts.Lifetime = sim.U32(uint32(6 + rng.Intn(8)))
	}
	if r := m.Allocate(tc, tcOpts); r == nil || r.Class != wire.ClassSuccess {
		rec.Inconclusive("tcp allocate failed")

		return
	}
	if r := m.Allocate(uc, sim.AllocOpts{Lifetime: sim.U32(life)}); r == nil || r.Class != wire.ClassSuccess {
		rec.Inconclusive("udp allocate failed")

		return
	}
	up, _ := w.NewPeer("p0", net.IPv4(10, 2, 0, 9).To4(), 7009)
	m.CreatePermission(uc, up.Addr)
	pl, _ := w.Net.ListenTCP(net.IPv4(10, 2, 0, 1).To4(), 8000)
	defer pl.Close() //nolint:errcheck
	m.CreatePermission(tc, &net.UDPAddr{IP: net.IPv4(10, 2, 0, 1).To4(), Port: 8000})
	// (the dial takes 20 s - or 34 s, longer than anybody's patience, and succeeds then)
	dialFor := pick(rng, []time.Duration{20 * time.Second, 20 * time.Second, 34 * time.Second})
	w.Gen.SetDelayKind("conn", dialFor)
	tid := w.NewTID()
	b := wire.NewBuilder(wire.MethodConnect, wire.ClassRequest, tid)
	b.AddXorAddr(wire.AttrXORPeerAddress, net.IPv4(10, 2, 0, 1).To4(), 8000)
	tc.AddAuth(b)
	t0 := time.Now()
	_ = tc.SendRaw(b.Bytes())
	// the bystander's allocation ends while the dial is pending
	time.Sleep(time.Duration(life)*time.Second + time.Second - time.Since(t0))
	w.Settle()
	st := m.Begin()
	st.PeerSend(up, mustUDPAddr(m, uc), []byte("after-expiry-during-slow-connect"))
	st.End()
	m.CrossCheck()
	want, unsure := 0, false
	for _, a := range m.Allocs {
		switch a.State() {
		case sim.Live:
			want++
		case sim.Maybe:
			unsure = true
		}
	}
	if n := w.Srv.AllocationCount(); !unsure && n != want {
		rec.Violate("alloc-expiry-late", "slow-connect", "AllocationCount=%d (want %d) one second after a %d s allocation should have ended (a Connect of another client is dialling a slow peer)", n, want, life)
	}
	w.Gen.SetDelayKind("conn", 0)
	w.Sleep(dialFor + 5*time.Second)
	tc.Collect()
	if r := tc.TakeResponse(tid); r == nil && !ownerDies {
		rec.Violate("server-wedged", "slow-connect", "the Connect whose dial took %v was never answered", dialFor)
	} else {
		rec.FP("slow-connect/answered/%d/owner-gone=%v/dial=%v", codeOfMsg(r), ownerDies, dialFor)
	}
	// nobody binds the connection: whatever the Connect was answered, the connection the server
	// dialled is closed again - with its allocation, or when nobody has claimed it for 30 s
	w.Sleep(35 * time.Second)
	for _, r := range w.Gen.Resources() {
		if r.Kind == "conn" && r.Open() {
			rec.Violate("ledger-open-after-death", "conn", "the peer connection dialled for a Connect (%s, dial took %v) is still open 40 s after the dial ended although nobody bound it (allocation deleted during the dial: %v)", r.Addr, dialFor, ownerDies)
		}
	}
	m.Audit(nil)
	rec.FP("slow-connect/life=%d", life/5)
	rec.SetSample(map[string]any{"kind": "slow-connect", "bystander_lifetime_s": life})
}

func mustUDPAddr(m *sim.Model, c *sim.RawClient) *net.UDPAddr {
	if a, _ := m.Alloc(c); a != nil && a.RelayUDP != nil {
		return a.RelayUDP
	}

	return &net.UDPAddr{IP: sim.RelayIP4, Port: 1}
}

func runC16(t *testing.T, rng *rand.Rand, rec *sim.Rec, tier string, caseNo int) {
	cfg := sim.Config{
		Realm: "verif.test", Users: map[string]string{"alice": "pw-a", "bob": "pw-b"},
		TCPListeners: []*net.TCPAddr{{IP: sim.ServerIP4, Port: 3478}},
		UDPListeners: []*net.UDPAddr{{IP: sim.ServerIP4, Port: 3478}},
		DenyPeerIPs:  []string{"10.2.8.8"},
		// every other case the server sees its TCP connections as bare net.Conn values (as behind a
		// TLS listener or any wrapping transport): the relay's copy loops then use their own buffers
		PlainConns: caseNo%2 == 1,
	}
	w, err := sim.NewWorld(cfg, rec, rng, true)
	if err != nil {
		t.Fatal(err)
	}
	defer w.Shutdown()
	x := &c16{t: t, w: w, m: sim.NewModel(w), rng: rng, rec: rec}
	nclients := 1 + rng.Intn(3)
	var clients []*sim.RawClient
	for i := 0; i < nclients; i++ {
		c, err := w.NewTCPClient(fmt.Sprintf("t%d", i), net.IPv4(10, 1, 1, byte(1+i)).To4(), 6000+i, 0, pick(rng, []string{"alice", "bob"}))
		if err != nil {
			t.Fatal(err)
		}
		r := x.m.Allocate(c, sim.AllocOpts{Transport: 6})
		if r == nil || r.Class != wire.ClassSuccess {
			rec.Inconclusive("tcp allocate failed %d", codeOfMsg(r))

			return
		}
		clients = append(clients, c)
	}
	for i := 0; i < 4; i++ {
		p := &tcpPeer{addr: &net.TCPAddr{IP: net.IPv4(10, 2, 0, byte(1+i%3)).To4(), Port: 8000 + i}}
		if i != 3 {
			p.l, _ = w.Net.ListenTCP(p.addr.IP, p.addr.Port)
		}
		x.peers = append(x.peers, p)
	}
	steps := 10 + rng.Intn(20)
	for i := 0; i < steps && len(rec.Violations()) == 0; i++ {
		rec.SetStep(i)
		c := pick(rng, clients)
		if c.Closed {
			continue
		}
		switch rng.Intn(12) {
		case 0, 1, 2:
			if r := rng.Intn(10); r < 2 {
				x.opConnectRefused(c)
			} else if r == 2 {
				x.opConnectWithoutAllocation(c)
			} else {
				x.opConnect(c)
			}
		case 3, 4:
			x.opInbound(c, true)
		case 5:
			x.opInbound(c, false)
		case 6, 7, 8:
			x.opBind()
		case 9:
			if x.rng.Intn(3) == 0 {
				x.opStalledReceiver()
			} else {
				x.opPipe()
			}
		case 10:
			if rng.Intn(3) == 0 {
				// a peer that refused connections so far starts listening: an earlier failed Connect
				// (447) to it leaves nothing behind, the next Connect reaches it
				for _, p := range x.peers {
					if p.l == nil {
						if l, err := w.Net.ListenTCP(p.addr.IP, p.addr.Port); err == nil {
							p.l = l
							rec.FP("peer-comes-up")
						}
					}
				}
			} else {
				x.opClose()
			}
		case 11:
			switch rng.Intn(4) {
			case 0:
				x.opTeardown(c)
			case 1:
				x.opLongLived()
			default:
				x.opDeadline()
			}
		}
		for _, mc := range x.conns {
			if mc.bound && !mc.dead && rng.Intn(3) == 0 {
				x.checkPipe(mc)
			}
		}
	}
	rec.SetSample(map[string]any{"clients": nclients, "steps": steps, "peer_connections": len(x.conns)})
	for _, mc := range x.conns {
		if mc.data != nil {
			_ = mc.data.Close()
		}
		_ = mc.peerEnd.Close()
	}
}

func init() {
	register("C16", PropDef{
		Cases: func(tier string) int {
			if tier == "thorough" {
				return 60000
			}

			return 700
		},
		Run: func(t *testing.T, rng *rand.Rand, rec *sim.Rec, tier string, caseNo int) {
			if caseNo%100 == 33 || (tier == "thorough" && caseNo%1000 == 533) {
				// operating-system sockets: a slow peer behind a bundled generator
				runC16RealSockets(t, rng, rec, caseNo/100)

				return
			}
			inBubble(t, func(t *testing.T) {
				if caseNo%25 == 7 {
					runSlowConnect(t, rng, rec, tier, caseNo)

					return
				}
				if caseNo%6 == 5 {
					runC16RealClient(t, rng, rec, tier, caseNo/6)

					return
				}
				runC16(t, rng, rec, tier, caseNo)
			})
		},
	})
}

// runC16RealSockets (operating-system TCP sockets on loopback, real time): the real client opens a
// data connection through a real server whose relay sockets come from a bundled generator, writes
// 64 KiB - 3 MiB, and closes at once. The peer reads slowly (small receive buffer, pauses). Every
// byte the client's Write accepted reaches the peer, unchanged and in order, followed by a clean
// end of stream - never a reset with bytes missing. (The simulated network has no kernel buffers
// and no SO_LINGER; only this case sees what the relay's socket options do to queued bytes.)
func runC16RealSockets(t *testing.T, rng *rand.Rand, rec *sim.Rec, caseNo int) {
	srvLn, err := net.Listen("tcp4", "127.0.0.1:0")
	if err != nil {
		rec.FP("real/unavailable")

		return
	}
	var gen turn.RelayAddressGenerator = &turn.RelayAddressGeneratorStatic{RelayAddress: net.IPv4(127, 0, 0, 1), Address: "127.0.0.1"}
	genName := "static"
	if caseNo%3 == 1 {
		gen, genName = &turn.RelayAddressGeneratorNone{Address: "127.0.0.1"}, "none"
	}
	srv, err := turn.NewServer(turn.ServerConfig{
		Realm: "verif.test",
		AuthHandler: func(ra *turn.RequestAttributes) (string, []byte, bool) {
			return ra.Username, wire.LongTermKey("alice", "verif.test", "pw-a"), ra.Username == "alice"
		},
		ListenerConfigs: []turn.ListenerConfig{{Listener: srvLn, RelayAddressGenerator: gen}},
		LoggerFactory:   sim.NewLogSink(),
	})
	if err != nil {
		_ = srvLn.Close()
		rec.Inconclusive("real server: %v", err)

		return
	}
	defer srv.Close() //nolint:errcheck
	peerLn, err := net.Listen("tcp4", "127.0.0.1:0")
	if err != nil {
		rec.FP("real/unavailable")

		return
	}
	defer peerLn.Close() //nolint:errcheck
	total := pick(rng, []int{64 << 10, 1 << 20, 3 << 20})
	pause := pick(rng, []time.Duration{0, time.Millisecond, 2 * time.Millisecond})
	type result struct {
		data []byte
		err  error
	}
	resCh := make(chan result, 1)
	go func() {
		c, aErr := peerLn.Accept()
		if aErr != nil {
			resCh <- result{nil, aErr}

			return
		}
		defer c.Close() //nolint:errcheck
		if tc, ok := c.(*net.TCPConn); ok {
			_ = tc.SetReadBuffer(16 * 1024)
		}
		var got bytes.Buffer
		buf := make([]byte, 16*1024)
		for {
			_ = c.SetReadDeadline(time.Now().Add(60 * time.Second))
			n, rErr := c.Read(buf)
			got.Write(buf[:n])
			if rErr != nil {
				if rErr == io.EOF { //nolint:errorlint
					rErr = nil
				}
				resCh <- result{got.Bytes(), rErr}

				return
			}
			time.Sleep(pause)
		}
	}()
	ctrl, err := net.Dial("tcp4", srvLn.Addr().String())
	if err != nil {
		rec.Inconclusive("real control connection: %v", err)

		return
	}
	defer ctrl.Close() //nolint:errcheck
	cl, err := turn.NewClient(&turn.ClientConfig{
		Conn: turn.NewSTUNConn(ctrl), STUNServerAddr: srvLn.Addr().String(), TURNServerAddr: srvLn.Addr().String(),
		Username: "alice", Password: "pw-a", Realm: "verif.test", LoggerFactory: sim.NewLogSink(),
	})
	if err != nil {
		rec.Inconclusive("real client: %v", err)

		return
	}
	defer cl.Close()
	if err := cl.Listen(); err != nil {
		rec.Inconclusive("real client: %v", err)

		return
	}
	alloc, err := cl.AllocateTCP()
	if err != nil {
		rec.Inconclusive("real AllocateTCP: %v", err)

		return
	}
	defer alloc.Close() //nolint:errcheck
	dc, err := alloc.DialTCP("tcp4", nil, peerLn.Addr().(*net.TCPAddr))
	if err != nil {
		rec.Inconclusive("real DialTCP: %v", err)

		return
	}
	payload := make([]byte, total)
	prng := rand.New(rand.NewSource(rng.Int63()))
	prng.Read(payload)
	_ = dc.SetWriteDeadline(time.Now().Add(60 * time.Second))
	n, wErr := dc.Write(payload)
	_ = dc.Close()
	if wErr != nil || n != total {
		rec.Inconclusive("real data connection: Write returned %d of %d, %v", n, total, wErr)

		return
	}
	select {
	case res := <-resCh:
		switch {
		case len(res.data) < total:
			rec.Violate("pipe-bytes", "real-socket/lost-on-close", "generator %s: the client wrote %d bytes and closed; the slow peer received %d, then %v", genName, total, len(res.data), res.err)
		case !bytes.Equal(res.data, payload):
			rec.Violate("pipe-bytes", "real-socket/altered", "generator %s: the peer received %d bytes that differ from the %d written", genName, len(res.data), total)
		case res.err != nil:
			rec.Violate("pipe-close", "real-socket/reset", "generator %s: the peer's connection ended with %v instead of a clean end of stream", genName, res.err)
		}
	case <-time.After(90 * time.Second):
		rec.Inconclusive("real-socket peer saw no end of stream within 90 s of wall time")
	}
	rec.Ev("real-socket-pipes")
	rec.EvN("real-socket-bytes-piped", total)
	rec.FP("real-socket/gen=%s/total=%d/pause=%s", genName, total, pause)
	rec.SetSample(map[string]any{"kind": "real-socket-slow-peer", "generator": genName, "bytes": total, "peer_pause": pause.String()})
}

// runC16RealClient: the real client's RFC 6062 API (AllocateTCP, DialTCP, AcceptTCP) end to end
// against the real server over simulated TCP: connections come up, are attributed to the right
// peer, and carry bytes intact in both directions.
func runC16RealClient(t *testing.T, rng *rand.Rand, rec *sim.Rec, tier string, caseNo int) {
	cfg := sim.Config{
		Realm: "verif.test", Users: map[string]string{"alice": "pw-a"},
		TCPListeners: []*net.TCPAddr{{IP: sim.ServerIP4, Port: 3478}},
	}
	// the relay sockets come from the harness' ledger generator or from one of the bundled ones
	genKind := pick(rng, []string{"ledger", "static", "range", "none"})
	grng := rand.New(rand.NewSource(rng.Int63()))
	if genKind != "ledger" {
		cfg.MakeGen = func(n *simnet.Net) turn.RelayAddressGenerator {
			gvn := &simnet.VNet{N: n, HostIP4: sim.RelayIP4}
			switch genKind {
			case "static":
				return &turn.RelayAddressGeneratorStatic{RelayAddress: sim.RelayIP4, Address: "0.0.0.0", Net: gvn}
			case "range":
				return &turn.RelayAddressGeneratorPortRange{RelayAddress: sim.RelayIP4, Address: "0.0.0.0", MinPort: 30000, MaxPort: 30040, MaxRetries: 50, Rand: &scriptRand{mode: "prng", rng: grng}, Net: gvn}
			default:
				return &turn.RelayAddressGeneratorNone{Address: sim.RelayIP4.String(), Net: gvn}
			}
		}
	}
	w, err := sim.NewWorld(cfg, rec, rng, true)
	if err != nil {
		t.Fatal(err)
	}
	defer w.Shutdown()
	w.Net.LogSends = false
	ctrl, err := w.Net.DialTCP(net.IPv4(10, 1, 1, 1).To4(), 0, w.ServerTCP[0].TCPAddr())
	if err != nil {
		t.Fatal(err)
	}
	logs := sim.NewLogSink()
	vn := &simnet.VNet{N: w.Net, HostIP4: net.IPv4(10, 1, 1, 1).To4()}
	cl, err := turn.NewClient(&turn.ClientConfig{
		STUNServerAddr: "10.0.0.1:3478", TURNServerAddr: "10.0.0.1:3478", Conn: turn.NewSTUNConn(ctrl),
		Username: "alice", Password: "pw-a", Realm: "verif.test", Net: vn, LoggerFactory: logs,
	})
	if err != nil {
		t.Fatal(err)
	}
	defer cl.Close()
	if err := cl.Listen(); err != nil {
		t.Fatal(err)
	}
	// every other case another client of the same server has allocated and dialled out before:
	// what the relay did for that one must not colour what it does for this one
	if caseNo%2 == 0 {
		ctrl0, err := w.Net.DialTCP(net.IPv4(10, 1, 1, 2).To4(), 0, w.ServerTCP[0].TCPAddr())
		if err != nil {
			t.Fatal(err)
		}
		cl0, err := turn.NewClient(&turn.ClientConfig{
			STUNServerAddr: "10.0.0.1:3478", TURNServerAddr: "10.0.0.1:3478", Conn: turn.NewSTUNConn(ctrl0),
			Username: "alice", Password: "pw-a", Realm: "verif.test",
			Net: &simnet.VNet{N: w.Net, HostIP4: net.IPv4(10, 1, 1, 2).To4()}, LoggerFactory: logs,
		})
		if err != nil {
			t.Fatal(err)
		}
		defer cl0.Close()
		if err := cl0.Listen(); err != nil {
			t.Fatal(err)
		}
		alloc0, err := cl0.AllocateTCP()
		if err != nil {
			rec.Violate("client-tcp", "allocate", "AllocateTCP of the first client failed: %v", err)

			return
		}
		defer alloc0.Close() //nolint:errcheck
		l0, _ := w.Net.ListenTCP(net.IPv4(10, 2, 0, 9).To4(), 8100)
		acc0 := make(chan net.Conn, 1)
		go func() {
			if c, err := l0.Accept(); err == nil {
				acc0 <- c
			}
		}()
		dc0, err := alloc0.DialTCP("tcp", nil, l0.TCPAddr())
		if err != nil {
			rec.Violate("client-tcp", "dial", "DialTCP of the first client failed: %v", err)

			return
		}
		defer dc0.Close() //nolint:errcheck
		select {
		case pe0 := <-acc0:
			if pe0.RemoteAddr().String() != alloc0.Addr().String() {
				rec.Violate("connect-wrong-source", "first-client", "the first client's peer sees its connection coming from %s, that client's relayed address is %s", pe0.RemoteAddr(), alloc0.Addr())
			}
			defer pe0.Close() //nolint:errcheck
		case <-time.After(5 * time.Second):
			rec.Violate("client-tcp", "dial-no-peer-conn", "DialTCP of the first client returned but the peer accepted nothing")

			return
		}
		rec.FP("client-tcp/another-client-dialled-before/gen=%s", genKind)
	}
	alloc, err := cl.AllocateTCP()
	if err != nil {
		rec.Violate("client-tcp", "allocate", "AllocateTCP failed: %v", err)

		return
	}
	relay := alloc.Addr().String()
	check := func(a, b net.Conn, what string) {
		for dir := 0; dir < 2; dir++ {
			n := pick(rng, []int{1, 100, 3000, 20000})
			buf := make([]byte, n)
			rng.Read(buf)
			src, dst := a, b
			if dir == 1 {
				src, dst = b, a
			}
			if _, err := src.Write(buf); err != nil {
				rec.Violate("client-tcp", what+"/write", "%s: write failed: %v", what, err)

				return
			}
			got := make([]byte, 0, n)
			tmp := make([]byte, 4096)
			_ = dst.SetReadDeadline(time.Now().Add(5 * time.Second))
			for len(got) < n {
				k, err := dst.Read(tmp)
				if err != nil {
					break
				}
				got = append(got, tmp[:k]...)
			}
			if !bytes.Equal(got, buf) {
				rec.Violate("client-tcp", what+"/bytes", "%s: %d bytes sent, %d arrived (first difference at %d)", what, n, len(got), firstDiff(got, buf))

				return
			}
			rec.Ev("client-tcp-stream-comparisons")
		}
	}
	rounds := 1 + rng.Intn(3)
	for i := 0; i < rounds && len(rec.Violations()) == 0; i++ {
		peerIP := net.IPv4(10, 2, 0, byte(1+i)).To4()
		if rng.Intn(2) == 0 {
			// outbound: Dial through the relay
			l, _ := w.Net.ListenTCP(peerIP, 8000+i)
			acc := make(chan net.Conn, 1)
			greeting := []byte(fmt.Sprintf("220 peer %d speaks first, before the client has bound the data connection\r\n", i))
			greet := rng.Intn(2) == 0
			go func() {
				if c, err := l.Accept(); err == nil {
					if greet {
						_, _ = c.Write(greeting) // a banner protocol: the relay holds it until ConnectionBind
					}
					acc <- c
				}
			}()
			dc, err := alloc.DialTCP("tcp", nil, l.TCPAddr())
			if err != nil {
				rec.Violate("client-tcp", "dial", "DialTCP to a listening peer failed: %v", err)
				_ = l.Close()

				return
			}
			if greet {
				got := make([]byte, len(greeting))
				_ = dc.SetReadDeadline(time.Now().Add(5 * time.Second))
				if k, err := io.ReadFull(dc, got); err != nil || !bytes.Equal(got, greeting) {
					rec.Violate("client-tcp", "dial/greeting", "the peer's greeting (%d bytes, written before the client bound the data connection) arrived as %d bytes %q (%v)", len(greeting), k, got[:k], err)
					_ = l.Close()

					return
				}
				rec.Ev("client-tcp-greetings")
			}
			var pe net.Conn
			select {
			case pe = <-acc:
			case <-time.After(5 * time.Second):
				rec.Violate("client-tcp", "dial-no-peer-conn", "DialTCP returned but the peer accepted nothing")
				_ = l.Close()

				return
			}
			if pe.RemoteAddr().String() != relay {
				rec.Violate("connect-wrong-source", "dial", "the peer sees the client's connection coming from %s, the client's relayed address is %s (generator %s)", pe.RemoteAddr(), relay, genKind)
			}
			if pe.RemoteAddr().String() != relay || dc.RemoteAddr().String() != l.TCPAddr().String() || dc.LocalAddr().String() != relay {
				rec.Violate("client-tcp", "dial-addresses", "DialTCP: peer sees %s (relay %s); conn reports remote %s local %s", pe.RemoteAddr(), relay, dc.RemoteAddr(), dc.LocalAddr())
			}
			check(dc, pe, "dialed connection")
			_ = dc.Close()
			time.Sleep(time.Second)
			_ = pe.Close()
			_ = l.Close()
			rec.FP("client-tcp/dial/gen=%s", genKind)
		} else {
			// inbound: a permitted peer connects to the relayed address, the client accepts
			if err := cl.CreatePermission(&net.TCPAddr{IP: peerIP, Port: 1}); err != nil {
				rec.Violate("client-tcp", "createpermission", "CreatePermission failed: %v", err)

				return
			}
			ra, _ := net.ResolveTCPAddr("tcp", relay)
			pe, err := w.Net.DialTCP(peerIP, 0, ra)
			if err != nil {
				rec.Violate("client-tcp", "peer-dial", "peer cannot reach the relayed address %s: %v", relay, err)

				return
			}
			greeting := []byte(fmt.Sprintf("HELLO from inbound peer %d, sent before anybody accepted\n", i))
			greet := rng.Intn(2) == 0
			if greet {
				_, _ = pe.Write(greeting)
			}
			_ = alloc.SetDeadline(time.Now().Add(10 * time.Second))
			ac, err := alloc.AcceptTCP()
			if err != nil {
				rec.Violate("client-tcp", "accept", "AcceptTCP did not deliver the inbound connection from %s: %v", pe.LocalAddr(), err)
				_ = pe.Close()

				return
			}
			if greet {
				got := make([]byte, len(greeting))
				_ = ac.SetReadDeadline(time.Now().Add(5 * time.Second))
				if k, err := io.ReadFull(ac, got); err != nil || !bytes.Equal(got, greeting) {
					rec.Violate("client-tcp", "accept/greeting", "the inbound peer's first bytes (%d, sent before AcceptTCP) arrived as %d bytes %q (%v)", len(greeting), k, got[:k], err)
					_ = pe.Close()

					return
				}
				rec.Ev("client-tcp-greetings")
			}
			if ac.RemoteAddr().String() != pe.LocalAddr().String() {
				rec.Violate("client-tcp", "accept-addresses", "AcceptTCP attributes the connection to %s, it came from %s", ac.RemoteAddr(), pe.LocalAddr())
			}
			check(ac, pe, "accepted connection")
			_ = pe.Close()
			time.Sleep(time.Second)
			_ = ac.Close()
			rec.FP("client-tcp/accept/gen=%s", genKind)
		}
	}
	_ = alloc.Close()
	time.Sleep(10 * time.Second)
	others := 0
	if caseNo%2 == 0 {
		others = 1 // (the first client's allocation is still there)
	}
	if n := w.Srv.AllocationCount(); n != others {
		rec.Violate("client-tcp", "close", "AllocationCount=%d after TCPAllocation.Close, want %d", n, others)
	}
	rec.SetSample(map[string]any{"kind": "real-client-rfc6062", "rounds": rounds, "generator": genKind})
}
