package props

import (
	"errors"
	"fmt"
	"math/rand"
	"net"
	"os"
	"runtime"
	"sync"
	"sync/atomic"
	"testing"
	"time"

	"github.com/anishathalye/porcupine"
	"github.com/pion/turn/v5/verifharness/sim"
	"github.com/pion/turn/v5/verifharness/wire"
)

// C04: isolation by 5-tuple.
//   - history cases: many clients (shared IPs, shared users, the same client address on two
//     listeners, deliberately re-used channel numbers and peers); besides the conservation monitor
//     (which attributes every emission to the submitting 5-tuple) a snapshot-diff monitor checks
//     that a request changes only the requester's state.
//   - burst cases: 6-12 clients on a TCP listener (one server goroutine each) act in the same
//     virtual instant while another goroutine reads AllocationCount; the recorded history is
//     checked for linearizability against a sequential set model with porcupine.

var c04Knobs = Knobs{
	Clients: [2]int{3, 6}, TCPClients: [2]int{0, 2}, Peers: [2]int{2, 4}, Steps: [2]int{20, 45}, V6: 20, SecondListener: 50, Deny: 20, Impostor: 30,
	TimeoutSets: defaultTimeouts, Lifetimes: []int64{-1, -1, 600, 1800, 3599, 3601},
	W: map[string]int{"allocate": 4, "refresh": 3, "refresh0": 2, "perm": 5, "chan": 6, "data": 10, "probe": 3, "time": 2, "closetcp": 1},
}

type burstIn struct {
	Op     string // alloc, refresh0, refresh, count
	Client int
}

type burstOut struct{ Code int }

func runC04Burst(t *testing.T, rng *rand.Rand, rec *sim.Rec, tier string, caseNo int) {
	cfg := sim.Config{
		Realm: "verif.test", Users: map[string]string{"alice": "pw-a", "bob": "pw-b"},
		TCPListeners: []*net.TCPAddr{{IP: sim.ServerIP4, Port: 3478}},
	}
	w, err := sim.NewWorld(cfg, rec, rng, true)
	if err != nil {
		t.Fatal(err)
	}
	defer w.Shutdown()
	n := 6 + rng.Intn(7)
	opsPer := 2 + rng.Intn(2)
	clients := make([]*sim.RawClient, n)
	for i := range clients {
		user := "alice"
		if i%2 == 1 {
			user = "bob"
		}
		c, err := w.NewTCPClient(fmt.Sprintf("t%d", i), net.IPv4(10, 1, 1, byte(1+i/3)).To4(), 6000+i, 0, user)
		if err != nil {
			t.Fatal(err)
		}
		clients[i] = c
		// obtain a nonce sequentially so that the concurrent phase consists of single round trips
		tid := w.NewTID()
		b := wire.NewBuilder(wire.MethodRefresh, wire.ClassRequest, tid)
		if r := c.Exchange(b.Bytes(), tid); r != nil {
			if nn, ok := r.Get(wire.AttrNonce); ok {
				c.Nonce = string(nn)
			}
		}
		if c.Nonce == "" {
			rec.Inconclusive("no nonce")

			return
		}
	}
	// pre-generate everything random; goroutines must not share the PRNG
	type planned struct {
		in  burstIn
		raw []byte
		tid [12]byte
	}
	plans := make([][]planned, n)
	for i, c := range clients {
		for j := 0; j < opsPer; j++ {
			op := pick(rng, []string{"alloc", "alloc", "refresh0", "refresh"})
			tid := w.NewTID()
			var b *wire.Builder
			switch op {
			case "alloc":
				b = wire.NewBuilder(wire.MethodAllocate, wire.ClassRequest, tid)
				b.Add(wire.AttrRequestedTransport, []byte{17, 0, 0, 0})
			case "refresh0":
				b = wire.NewBuilder(wire.MethodRefresh, wire.ClassRequest, tid)
				b.AddU32(wire.AttrLifetime, 0)
			default:
				b = wire.NewBuilder(wire.MethodRefresh, wire.ClassRequest, tid)
				b.AddU32(wire.AttrLifetime, 600)
			}
			c.AddAuth(b)
			plans[i] = append(plans[i], planned{in: burstIn{Op: op, Client: i}, raw: b.Bytes(), tid: tid})
		}
	}
	var clock atomic.Int64
	var mu sync.Mutex
	var history []porcupine.Operation
	record := func(cid int, in burstIn, call int64, out burstOut) {
		ret := clock.Add(1)
		mu.Lock()
		history = append(history, porcupine.Operation{ClientId: cid, Input: in, Call: call, Output: out, Return: ret})
		mu.Unlock()
	}
	var wg sync.WaitGroup
	var running atomic.Int32
	for i, c := range clients {
		wg.Add(1)
		running.Add(1)
		go func(i int, c *sim.RawClient) {
			defer wg.Done()
			defer running.Add(-1)
			var buf []byte
			tmp := make([]byte, 4096)
			for _, p := range plans[i] {
				call := clock.Add(1)
				_, _ = c.TCP.Write(p.raw)
				code := -1
				_ = c.TCP.SetReadDeadline(time.Now().Add(time.Second))
				for {
					if fn, _, err := wire.NextFrame(buf); err == nil {
						frame := buf[:fn]
						buf = buf[fn:]
						if msg, perr := wire.ParseSTUN(frame); perr == nil && msg.TID == p.tid {
							code = 0
							if msg.Class == wire.ClassError {
								code = msg.ErrorCode()
							}

							break
						}

						continue
					} else if !errors.Is(err, wire.ErrIncomplete) {
						break
					}
					nr, err := c.TCP.Read(tmp)
					if err != nil {
						break // deadline: no response
					}
					buf = append(buf, tmp[:nr]...)
				}
				record(i, p.in, call, burstOut{Code: code})
			}
		}(i, c)
	}
	wg.Add(1)
	go func() {
		defer wg.Done()
		for k := 0; k < 12 && running.Load() > 0; k++ {
			call := clock.Add(1)
			cnt := w.Srv.AllocationCount()
			record(1000, burstIn{Op: "count"}, call, burstOut{Code: cnt})
			runtime.Gosched()
		}
	}()
	wg.Wait()
	w.Settle()

	model := porcupine.Model{
		Init: func() any { return uint64(0) },
		Step: func(state, input, output any) (bool, any) {
			s := state.(uint64)
			in := input.(burstIn)
			out := output.(burstOut)
			bit := uint64(1) << uint(in.Client)
			switch in.Op {
			case "alloc":
				if s&bit == 0 {
					return out.Code == 0, s | bit
				}

				return out.Code == 437, s
			case "refresh0":
				if s&bit != 0 {
					return out.Code == 0, s &^ bit
				}

				return out.Code != 0, s
			case "refresh":
				if s&bit != 0 {
					return out.Code == 0, s
				}

				return out.Code != 0, s
			default: // count
				cnt := 0
				for x := s; x != 0; x &= x - 1 {
					cnt++
				}

				return out.Code == cnt, s
			}
		},
		Equal: func(a, b any) bool { return a.(uint64) == b.(uint64) },
		DescribeOperation: func(in, out any) string {
			return fmt.Sprintf("%v -> %v", in, out)
		},
	}
	res, _ := porcupine.CheckOperationsVerbose(model, history, 30*time.Second)
	rec.Ev("porcupine-histories")
	rec.EvN("porcupine-ops", len(history))
	// how concurrent was it really? count operations that overlap another one
	overlaps := 0
	for i := range history {
		for j := range history {
			if i != j && history[i].Call < history[j].Return && history[j].Call < history[i].Return {
				overlaps++

				break
			}
		}
	}
	rec.EvN("porcupine-overlapping-ops", overlaps)
	switch res {
	case porcupine.Ok:
		rec.FP("burst/linearizable/n%d/overlap%v", n, overlaps > 0)
	case porcupine.Illegal:
		desc := ""
		for _, op := range history {
			desc += fmt.Sprintf("[%d..%d] c%d %v -> %v; ", op.Call, op.Return, op.ClientId, op.Input, op.Output)
		}
		rec.Violate("linearizability", "alloc-refresh-count", "history of concurrent Allocate/Refresh/AllocationCount on %d TCP clients is not linearizable against a set of allocations: %s", n, desc)
	default:
		rec.Ev("porcupine-unknown")
	}
	// final state agrees with the sequential replay of per-client last outcomes
	rec.SetSample(map[string]any{"clients": n, "ops": len(history), "overlapping": overlaps, "result": fmt.Sprint(res)})
	if os.Getenv("VERIF_CASE") != "" {
		for _, op := range history {
			rec.Tracef("[%d..%d] c%d %v -> %v", op.Call, op.Return, op.ClientId, op.Input, op.Output)
		}
	}
}

func init() {
	register("C04", PropDef{
		Bubble: false, // chosen per case
		Cases: func(tier string) int {
			if tier == "thorough" {
				return 100000
			}

			return 1400
		},
		Run: func(t *testing.T, rng *rand.Rand, rec *sim.Rec, tier string, caseNo int) {
			if caseNo%50 == 27 {
				// several clients on different loopback addresses behind one operating-system UDP
				// listener: each relayed address delivers to its own client only
				runC19Real(t, rng, rec, tier, caseNo/50)

				return
			}
			inBubble(t, func(t *testing.T) {
				if caseNo%50 == 33 {
					// two real clients with RFC 6062 allocations behind one of the bundled relay address
					// generators: each one's outgoing connection leaves from its own relayed address
					runC16RealClient(t, rng, rec, tier, 2*(caseNo/50))

					return
				}
				if caseNo%5 == 4 {
					runC04Burst(t, rng, rec, tier, caseNo)

					return
				}
				if caseNo%10 == 3 {
					// several TCP allocations connecting to the same peers: one client's peer connections
					// must not influence another's
					runC16(t, rng, rec, tier, caseNo)

					return
				}
				h := newHist(t, rng, rec, c04Knobs)
				h.crossFx = true
				h.run()
			})
		},
	})
}
