// Package wire is an independent reference implementation of the STUN/TURN wire formats
// (RFC 5389, 5766, 6062, 6156) used by the harness to build requests (including malformed ones)
// and to decode everything the code under test emits. It deliberately shares no code with
// pion/turn's internal/proto.
package wire

import (
	"crypto/hmac"
	"crypto/md5"  //nolint:gosec
	"crypto/sha1" //nolint:gosec
	"encoding/binary"
	"errors"
	"fmt"
	"hash/crc32"
	"net"
)

const (
	MagicCookie = 0x2112A442
	HeaderSize  = 20
)

// Classes.
const (
	ClassRequest    = 0
	ClassIndication = 1
	ClassSuccess    = 2
	ClassError      = 3
)

// Methods.
const (
	MethodBinding           = 0x001
	MethodAllocate          = 0x003
	MethodRefresh           = 0x004
	MethodSend              = 0x006
	MethodData              = 0x007
	MethodCreatePermission  = 0x008
	MethodChannelBind       = 0x009
	MethodConnect           = 0x00a
	MethodConnectionBind    = 0x00b
	MethodConnectionAttempt = 0x00c
)

// Attribute types.
const (
	AttrMappedAddress          = 0x0001
	AttrUsername               = 0x0006
	AttrMessageIntegrity       = 0x0008
	AttrErrorCode              = 0x0009
	AttrUnknownAttributes      = 0x000A
	AttrChannelNumber          = 0x000C
	AttrLifetime               = 0x000D
	AttrXORPeerAddress         = 0x0012
	AttrData                   = 0x0013
	AttrRealm                  = 0x0014
	AttrNonce                  = 0x0015
	AttrXORRelayedAddress      = 0x0016
	AttrRequestedAddressFamily = 0x0017
	AttrEvenPort               = 0x0018
	AttrRequestedTransport     = 0x0019
	AttrDontFragment           = 0x001A
	AttrXORMappedAddress       = 0x0020
	AttrReservationToken       = 0x0022
	AttrConnectionID           = 0x002a
	AttrSoftware               = 0x8022
	AttrFingerprint            = 0x8028
)

// Attr is a raw attribute.
type Attr struct {
	Type  uint16
	Value []byte
}

// Msg is a decoded STUN message.
type Msg struct {
	Method uint16
	Class  uint8
	TID    [12]byte
	Attrs  []Attr
	Raw    []byte
}

// TypeField composes the 14-bit message type.
func TypeField(method uint16, class uint8) uint16 {
	m := method & 0xFFF
	a := m & 0x000F
	b := (m & 0x0070) << 1
	d := (m & 0x0F80) << 2
	c0 := uint16(class&1) << 4
	c1 := uint16(class&2) << 7

	return a | b | d | c0 | c1
}

// SplitType decomposes the message type.
func SplitType(t uint16) (method uint16, class uint8) {
	class = uint8(((t >> 4) & 1) | ((t >> 7) & 2))
	method = (t & 0x000F) | ((t >> 1) & 0x0070) | ((t >> 2) & 0x0F80)

	return method, class
}

var (
	ErrShort    = errors.New("wire: short STUN message")
	ErrNotSTUN  = errors.New("wire: not a STUN message")
	ErrBadLen   = errors.New("wire: bad STUN length")
	ErrBadAttrs = errors.New("wire: attribute overruns message")
)

// ParseSTUN decodes a STUN message that must occupy b exactly.
func ParseSTUN(b []byte) (*Msg, error) {
	if len(b) < HeaderSize {
		return nil, ErrShort
	}
	if b[0]&0xC0 != 0 || binary.BigEndian.Uint32(b[4:8]) != MagicCookie {
		return nil, ErrNotSTUN
	}
	l := int(binary.BigEndian.Uint16(b[2:4]))
	if HeaderSize+l != len(b) {
		return nil, ErrBadLen
	}
	m := &Msg{Raw: b}
	m.Method, m.Class = SplitType(binary.BigEndian.Uint16(b[0:2]))
	copy(m.TID[:], b[8:20])
	off := HeaderSize
	for off < len(b) {
		if off+4 > len(b) {
			return nil, ErrBadAttrs
		}
		t := binary.BigEndian.Uint16(b[off : off+2])
		al := int(binary.BigEndian.Uint16(b[off+2 : off+4]))
		off += 4
		if off+al > len(b) {
			return nil, ErrBadAttrs
		}
		m.Attrs = append(m.Attrs, Attr{Type: t, Value: b[off : off+al]})
		off += (al + 3) &^ 3
	}

	return m, nil
}

// Get returns the first attribute of the type.
func (m *Msg) Get(t uint16) ([]byte, bool) {
	for _, a := range m.Attrs {
		if a.Type == t {
			return a.Value, true
		}
	}

	return nil, false
}

// GetAll returns all attributes of the type.
func (m *Msg) GetAll(t uint16) [][]byte {
	var out [][]byte
	for _, a := range m.Attrs {
		if a.Type == t {
			out = append(out, a.Value)
		}
	}

	return out
}

// ErrorCode returns the numeric error code (0 if absent/malformed).
func (m *Msg) ErrorCode() int {
	v, ok := m.Get(AttrErrorCode)
	if !ok || len(v) < 4 {
		return 0
	}

	return int(v[2]&7)*100 + int(v[3])
}

// Lifetime returns the LIFETIME attribute in seconds.
func (m *Msg) Lifetime() (uint32, bool) {
	v, ok := m.Get(AttrLifetime)
	if !ok || len(v) != 4 {
		return 0, false
	}

	return binary.BigEndian.Uint32(v), true
}

// DecodeXorAddr decodes an XOR-*-ADDRESS value.
func DecodeXorAddr(v []byte, tid [12]byte) (net.IP, int, error) {
	if len(v) < 4 {
		return nil, 0, errors.New("wire: short xor address")
	}
	fam := v[1]
	port := int(binary.BigEndian.Uint16(v[2:4]) ^ uint16(MagicCookie>>16))
	var x [16]byte
	binary.BigEndian.PutUint32(x[0:4], MagicCookie)
	copy(x[4:], tid[:])
	switch fam {
	case 1:
		if len(v) != 8 {
			return nil, 0, errors.New("wire: bad v4 xor address length")
		}
		ip := make(net.IP, 4)
		for i := range 4 {
			ip[i] = v[4+i] ^ x[i]
		}

		return ip, port, nil
	case 2:
		if len(v) != 20 {
			return nil, 0, errors.New("wire: bad v6 xor address length")
		}
		ip := make(net.IP, 16)
		for i := range 16 {
			ip[i] = v[4+i] ^ x[i]
		}

		return ip, port, nil
	default:
		return nil, 0, fmt.Errorf("wire: bad family %d", fam)
	}
}

// XorAddr returns the first XOR address attribute of type t.
func (m *Msg) XorAddr(t uint16) (net.IP, int, bool) {
	v, ok := m.Get(t)
	if !ok {
		return nil, 0, false
	}
	ip, port, err := DecodeXorAddr(v, m.TID)
	if err != nil {
		return nil, 0, false
	}

	return ip, port, true
}

// EncodeXorAddr encodes an XOR-*-ADDRESS value. forceV6 encodes IPv4 as IPv4-mapped IPv6.
func EncodeXorAddr(ip net.IP, port int, tid [12]byte, forceV6 bool) []byte {
	var x [16]byte
	binary.BigEndian.PutUint32(x[0:4], MagicCookie)
	copy(x[4:], tid[:])
	ip4 := ip.To4()
	if ip4 != nil && !forceV6 {
		v := make([]byte, 8)
		v[1] = 1
		binary.BigEndian.PutUint16(v[2:4], uint16(port)^uint16(MagicCookie>>16))
		for i := range 4 {
			v[4+i] = ip4[i] ^ x[i]
		}

		return v
	}
	ip16 := ip.To16()
	v := make([]byte, 20)
	v[1] = 2
	binary.BigEndian.PutUint16(v[2:4], uint16(port)^uint16(MagicCookie>>16))
	for i := range 16 {
		v[4+i] = ip16[i] ^ x[i]
	}

	return v
}

// Builder builds STUN messages byte by byte.
type Builder struct {
	b   []byte
	TID [12]byte
}

// NewBuilder starts a message.
func NewBuilder(method uint16, class uint8, tid [12]byte) *Builder {
	w := &Builder{TID: tid}
	w.b = make([]byte, HeaderSize, 128)
	binary.BigEndian.PutUint16(w.b[0:2], TypeField(method, class))
	binary.BigEndian.PutUint32(w.b[4:8], MagicCookie)
	copy(w.b[8:20], tid[:])

	return w
}

func (w *Builder) fixLen() {
	binary.BigEndian.PutUint16(w.b[2:4], uint16(len(w.b)-HeaderSize))
}

// Add appends a raw attribute (padded with zeros).
func (w *Builder) Add(t uint16, v []byte) *Builder {
	var h [4]byte
	binary.BigEndian.PutUint16(h[0:2], t)
	binary.BigEndian.PutUint16(h[2:4], uint16(len(v)))
	w.b = append(w.b, h[:]...)
	w.b = append(w.b, v...)
	for len(w.b)%4 != 0 {
		w.b = append(w.b, 0)
	}
	w.fixLen()

	return w
}

// AddU32 appends a 4-byte big-endian attribute.
func (w *Builder) AddU32(t uint16, v uint32) *Builder {
	var x [4]byte
	binary.BigEndian.PutUint32(x[:], v)

	return w.Add(t, x[:])
}

// AddXorAddr appends an XOR address attribute.
func (w *Builder) AddXorAddr(t uint16, ip net.IP, port int) *Builder {
	return w.Add(t, EncodeXorAddr(ip, port, w.TID, false))
}

// LongTermKey is MD5(user:realm:pass).
func LongTermKey(user, realm, pass string) []byte {
	h := md5.Sum([]byte(user + ":" + realm + ":" + pass)) //nolint:gosec

	return h[:]
}

// IntegrityValue computes the MESSAGE-INTEGRITY HMAC for the message as built so far (the
// length field is adjusted to include the 24-byte attribute, per RFC 5389 15.4).
func (w *Builder) IntegrityValue(key []byte) []byte {
	tmp := append([]byte{}, w.b...)
	binary.BigEndian.PutUint16(tmp[2:4], uint16(len(tmp)-HeaderSize+24))
	mac := hmac.New(sha1.New, key)
	mac.Write(tmp)

	return mac.Sum(nil)
}

// AddIntegrity appends MESSAGE-INTEGRITY computed with key.
func (w *Builder) AddIntegrity(key []byte) *Builder {
	return w.Add(AttrMessageIntegrity, w.IntegrityValue(key))
}

// AddFingerprint appends FINGERPRINT.
func (w *Builder) AddFingerprint() *Builder {
	tmp := append([]byte{}, w.b...)
	binary.BigEndian.PutUint16(tmp[2:4], uint16(len(tmp)-HeaderSize+8))
	crc := crc32.ChecksumIEEE(tmp) ^ 0x5354554e

	return w.AddU32(AttrFingerprint, crc)
}

// Bytes returns the message.
func (w *Builder) Bytes() []byte { return append([]byte{}, w.b...) }

// CheckIntegrity verifies MESSAGE-INTEGRITY of a raw message with key (independent of pion/stun).
func CheckIntegrity(raw []byte, key []byte) bool {
	m, err := ParseSTUN(raw)
	if err != nil {
		return false
	}
	off := HeaderSize
	for _, a := range m.Attrs {
		if a.Type == AttrMessageIntegrity {
			if len(a.Value) != 20 {
				return false
			}
			tmp := append([]byte{}, raw[:off]...)
			binary.BigEndian.PutUint16(tmp[2:4], uint16(off-HeaderSize+24))
			mac := hmac.New(sha1.New, key)
			mac.Write(tmp)

			return hmac.Equal(mac.Sum(nil), a.Value)
		}
		off += 4 + (len(a.Value)+3)&^3
	}

	return false
}

// ---------------------------------------------------------------- ChannelData

// ValidChannel reports whether n is in 0x4000..0x7FFF.
func ValidChannel(n uint16) bool { return n >= 0x4000 && n <= 0x7FFF }

// EncodeChannelData encodes a ChannelData message; pad adds zero padding to 4 bytes.
func EncodeChannelData(num uint16, payload []byte, pad bool) []byte {
	b := make([]byte, 4, 4+len(payload)+3)
	binary.BigEndian.PutUint16(b[0:2], num)
	binary.BigEndian.PutUint16(b[2:4], uint16(len(payload)))
	b = append(b, payload...)
	if pad {
		for len(b)%4 != 0 {
			b = append(b, 0)
		}
	}

	return b
}

// ParseChannelData decodes a datagram-framed ChannelData message (padding optional).
func ParseChannelData(b []byte) (num uint16, payload []byte, ok bool) {
	if len(b) < 4 {
		return 0, nil, false
	}
	num = binary.BigEndian.Uint16(b[0:2])
	l := int(binary.BigEndian.Uint16(b[2:4]))
	if !ValidChannel(num) || l > len(b)-4 {
		return num, nil, false
	}

	return num, b[4 : 4+l], true
}

// ---------------------------------------------------------------- stream framing

// Frame kinds.
const (
	FrameSTUN = 1
	FrameChan = 2
)

var (
	ErrIncomplete = errors.New("wire: incomplete frame")
	ErrInvalid    = errors.New("wire: bytes cannot begin a frame")
)

// NextFrame is the reference stream framer: given the unread bytes of a stream it returns the
// size and kind of the first frame, ErrIncomplete when more bytes are needed, or ErrInvalid
// when the bytes cannot begin a STUN message or ChannelData frame.
//
//	first two bits 00 -> STUN: 20-byte header, magic cookie at 4..8, length at 2..4
//	first two bits 01 -> ChannelData: number (0x4000-0x7FFF) at 0..2, length at 2..4, padded to 4
//	otherwise invalid
func NextFrame(b []byte) (n int, kind int, err error) {
	if len(b) == 0 {
		return 0, 0, ErrIncomplete
	}
	switch b[0] >> 6 {
	case 0:
		// STUN. The cookie decides validity as soon as 8 bytes are there.
		if len(b) >= 8 && binary.BigEndian.Uint32(b[4:8]) != MagicCookie {
			return 0, 0, ErrInvalid
		}
		if len(b) < HeaderSize {
			return 0, 0, ErrIncomplete
		}
		n = HeaderSize + int(binary.BigEndian.Uint16(b[2:4]))
		if len(b) < n {
			return 0, 0, ErrIncomplete
		}

		return n, FrameSTUN, nil
	case 1:
		if len(b) < 4 {
			return 0, 0, ErrIncomplete
		}
		l := int(binary.BigEndian.Uint16(b[2:4]))
		n = 4 + (l+3)&^3
		if len(b) < n {
			return 0, 0, ErrIncomplete
		}

		return n, FrameChan, nil
	default:
		return 0, 0, ErrInvalid
	}
}

// SplitFrames frames a whole stream; rest is the unconsumed tail.
func SplitFrames(b []byte) (frames [][]byte, rest []byte, err error) {
	for {
		n, _, e := NextFrame(b)
		if errors.Is(e, ErrIncomplete) {
			return frames, b, nil
		}
		if e != nil {
			return frames, b, e
		}
		frames = append(frames, b[:n])
		b = b[n:]
	}
}
