package props

import (
	"crypto/hmac"
	"crypto/sha1" //nolint:gosec
	"encoding/base64"
	"fmt"
	"math/rand"
	"net"
	"strconv"
	"strings"
	"sync"
	"testing"
	"time"

	"github.com/pion/stun/v3"
	"github.com/pion/turn/v5"
	"github.com/pion/turn/v5/verifharness/sim"
	"github.com/pion/turn/v5/verifharness/simnet"
	"github.com/pion/turn/v5/verifharness/wire"
)

// C17: time-windowed shared-secret credentials validate iff authentic and unexpired.
// Generators and handlers both read time.Now inside the virtual-time bubble, so every second
// of a window around the expiry is an exact instant.

func init() {
	sim.RegisterKind("cred-rejected-before-expiry", "C17")
	sim.RegisterKind("cred-accepted-after-expiry", "C17")
	sim.RegisterKind("cred-key-wrong", "C17")
	sim.RegisterKind("cred-integrity", "C17")
	sim.RegisterKind("cred-forged-accepted", "C17")
	sim.RegisterKind("cred-format", "C17")
	sim.RegisterKind("cred-e2e", "C17")
}

func refPassword(username, secret string) string {
	mac := hmac.New(sha1.New, []byte(secret))
	mac.Write([]byte(username))

	return base64.StdEncoding.EncodeToString(mac.Sum(nil))
}

type credKind struct {
	name    string
	gen     func(secret, user string, d time.Duration) (string, string, error)
	handler func(secret string) turn.AuthHandler
	userID  func(username string) string
}

var credKinds = []credKind{
	{"longterm", func(secret, _ string, d time.Duration) (string, string, error) {
		return turn.GenerateLongTermCredentials(secret, d)
	}, func(secret string) turn.AuthHandler { return turn.NewLongTermAuthHandler(secret, nullLogger{}) }, func(u string) string { return u }},
	{"turnrest", func(secret, user string, d time.Duration) (string, string, error) {
		return turn.GenerateLongTermTURNRESTCredentials(secret, user, d)
	}, func(secret string) turn.AuthHandler { return turn.LongTermTURNRESTAuthHandler(secret, nullLogger{}) }, func(u string) string {
		f := strings.Split(u, ":")
		if len(f) > 1 {
			return f[1]
		}

		return u
	}},
}

func mutateOne(rng *rand.Rand, s string) string {
	alphabet := "0123456789abcdefghijklmnopqrstuvwxyzABCDEFGHIJKLMNOPQRSTUVWXYZ+/=:-"
	b := []byte(s)
	switch rng.Intn(3) {
	case 0:
		if len(b) == 0 {
			return "x"
		}
		i := rng.Intn(len(b))
		for {
			ch := alphabet[rng.Intn(len(alphabet))]
			if ch != b[i] {
				b[i] = ch

				break
			}
		}
	case 1:
		i := rng.Intn(len(b) + 1)
		b = append(b[:i], append([]byte{alphabet[rng.Intn(len(alphabet))]}, b[i:]...)...)
	default:
		if len(b) == 0 {
			return "x"
		}
		i := rng.Intn(len(b))
		b = append(b[:i], b[i+1:]...)
	}

	return string(b)
}

func runC17(t *testing.T, rng *rand.Rand, rec *sim.Rec, tier string, caseNo int) {
	// move the virtual clock to a PRNG-chosen instant (seconds matter, not the date)
	time.Sleep(time.Duration(rng.Intn(3_000_000))*time.Second + time.Duration(rng.Intn(1000))*time.Millisecond)
	kind := credKinds[caseNo%2]
	secret := pick(rng, []string{"s3cret", "", "a much longer shared secret with spaces", "ключ", string([]byte{0, 1, 2, 255})})
	if rng.Intn(3) == 0 {
		// lengths around the hash's block size (HMAC treats longer keys differently), e.g. the 64
		// characters of `openssl rand -hex 32`
		b := make([]byte, pick(rng, []int{19, 20, 21, 63, 64, 65, 127, 128, 129, 1000}))
		for i := range b {
			b[i] = "0123456789abcdef"[rng.Intn(16)]
		}
		secret = string(b)
		rec.FP("secret-length/%d", len(b))
	}
	user := pick(rng, []string{"alice", "", "bob:extra", "user with space", "1700000000", "50%off", "%s%d%v", "a%",
		// longer than any fixed-size scratch buffer
		"session-" + strings.Repeat("0123456789abcdef", 6) + "-000042", strings.Repeat("u", 63), strings.Repeat("v", 64), strings.Repeat("w", 65)})
	realm := pick(rng, []string{"verif.test", "", "пример", "re%alm", "100%25"})
	dur := pick(rng, []time.Duration{-time.Hour, -time.Second, 0, time.Second, 5 * time.Second, time.Minute, 24 * time.Hour,
		// durations with a sub-second part: the stamp is the second in which now+duration falls
		1900 * time.Millisecond, 500 * time.Millisecond, -500 * time.Millisecond, 2500 * time.Millisecond, 999 * time.Millisecond, 61*time.Second + time.Millisecond,
		// far horizons: expiry stamps beyond 2^31 and 2^32 seconds
		40 * 365 * 24 * time.Hour, 150 * 365 * 24 * time.Hour})
	handler := kind.handler(secret)
	username, password, err := kind.gen(secret, user, dur)
	if err != nil {
		rec.Violate("cred-format", "gen-error", "%s generator failed: %v", kind.name, err)

		return
	}
	issued := time.Now()
	expiry := issued.Add(dur).Unix()
	// format: the stamped expiry is now+duration in Unix seconds
	stamp := username
	if kind.name == "turnrest" {
		stamp = strings.SplitN(username, ":", 2)[0]
		if !strings.HasSuffix(username, ":"+user) {
			rec.Violate("cred-format", "turnrest-user", "TURN REST username %q does not end in :%s", username, user)
		}
	}
	if ts, err := strconv.ParseInt(stamp, 10, 64); err != nil || ts != expiry {
		rec.Violate("cred-format", "stamp", "%s username %q: timestamp %q, want %d", kind.name, username, stamp, expiry)
	}
	if password != refPassword(username, secret) {
		rec.Violate("cred-format", "password", "%s password is not base64(HMAC-SHA1(secret, username))", kind.name)
	}
	check := func(u, p string, wantOK bool, what string) {
		// whatever request the credential arrives in (the server passes the method along)
		method := pick(rng, []stun.Method{0, stun.MethodAllocate, stun.MethodRefresh, stun.MethodCreatePermission, stun.MethodChannelBind, stun.MethodConnect, stun.MethodConnectionBind, stun.MethodBinding})
		id, key, ok := handler(&turn.RequestAttributes{Username: u, Realm: realm, SrcAddr: &net.UDPAddr{IP: net.IPv4(10, 1, 0, 1), Port: 5000}, Method: method})
		now := time.Now().Unix()
		if ok != wantOK {
			k := "cred-rejected-before-expiry"
			if ok {
				k = "cred-accepted-after-expiry"
			}
			rec.Violate(k, fmt.Sprintf("%s/%s", kind.name, what), "%s handler returned ok=%v for %q (request method %v) at unix %d (expiry %d, %s), want %v", kind.name, ok, u, method, now, expiry, what, wantOK)

			return
		}
		if !ok {
			return
		}
		wantKey := wire.LongTermKey(u, realm, refPassword(u, secret))
		if string(key) != string(wantKey) {
			rec.Violate("cred-key-wrong", kind.name, "%s handler key for %q is not MD5(username:realm:password)", kind.name, u)
		}
		if id != kind.userID(u) {
			rec.Violate("cred-key-wrong", kind.name+"/userid", "%s handler user id %q for username %q", kind.name, id, u)
		}
		// a request signed with password p authenticates iff p is the right password
		msg, _ := stun.Build(stun.TransactionID, stun.NewType(stun.MethodAllocate, stun.ClassRequest), stun.NewUsername(u), stun.NewRealm(realm),
			stun.NewNonce("n"), stun.NewLongTermIntegrity(u, realm, p))
		errI := stun.MessageIntegrity(key).Check(msg)
		right := p == refPassword(u, secret)
		if right != (errI == nil) {
			rec.Violate("cred-integrity", kind.name, "message signed with password %q for %q: integrity check err=%v, password correct=%v", p, u, errI, right)
		}
	}
	// every second in [expiry-5, expiry+5] plus far instants, in increasing order
	var probes []int64
	for d := int64(-5); d <= 5; d++ {
		probes = append(probes, expiry+d)
	}
	probes = append(probes, expiry+3600, expiry+86400*400)
	for _, at := range probes {
		wait := time.Unix(at, 0).Sub(time.Now())
		if wait < 0 {
			if at < time.Now().Unix() {
				continue // that second is already in the past (negative durations)
			}
			wait = 0
		}
		// land somewhere inside that second
		time.Sleep(wait + time.Duration(rng.Intn(999))*time.Millisecond)
		nowS := time.Now().Unix()
		check(username, password, nowS <= expiry, fmt.Sprintf("t=expiry%+d", nowS-expiry))
		rec.Ev("instants-probed")
		if nowS <= expiry {
			rec.FP("%s/dur=%v/valid-at/%+d", kind.name, dur, min64(nowS-expiry, 0))
			// forgeries while the genuine credential is valid
			for i := 0; i < 6; i++ {
				mu := mutateOne(rng, username)
				if mu == username {
					continue
				}
				// the attacker keeps the genuine password (it does not know the secret)
				id, key, ok := handler(&turn.RequestAttributes{Username: mu, Realm: realm})
				_ = id
				if ok {
					msg, _ := stun.Build(stun.TransactionID, stun.NewType(stun.MethodAllocate, stun.ClassRequest), stun.NewUsername(mu), stun.NewRealm(realm),
						stun.NewNonce("n"), stun.NewLongTermIntegrity(mu, realm, password))
					if stun.MessageIntegrity(key).Check(msg) == nil {
						rec.Violate("cred-forged-accepted", kind.name+"/username", "altered username %q authenticates with the password issued for %q", mu, username)
					}
				}
				mp := mutateOne(rng, password)
				check(username, mp, true, "mutated-password")
				rec.Ev("forgeries-tried")
			}
			// password derived from another secret or for another username
			check(username, refPassword(username, secret+"x"), true, "other-secret")
			check(username, refPassword("9"+username, secret), true, "other-username")
		} else {
			rec.FP("%s/dur=%v/expired-at/%+d", kind.name, dur, min64(nowS-expiry, 6))
		}
	}
	// malformed timestamps never authenticate
	for _, bad := range []string{"", "abc", "12a", " 1700000000", "1700000000 ", "0x10", "1e9", "١٢٣", "99999999999999999999999999"} {
		u := bad
		if kind.name == "turnrest" {
			u = bad + ":" + user
		}
		if _, _, ok := handler(&turn.RequestAttributes{Username: u, Realm: realm}); ok {
			rec.Violate("cred-forged-accepted", kind.name+"/timestamp", "username with malformed timestamp %q accepted", u)
		}
	}
	// the other handler must not validate where the formats differ
	if kind.name == "turnrest" && user != "" {
		if _, _, ok := credKinds[0].handler(secret)(&turn.RequestAttributes{Username: username, Realm: realm}); ok {
			rec.Violate("cred-forged-accepted", "cross-format", "plain long-term handler accepted the TURN REST username %q", username)
		}
	}
	rec.SetSample(map[string]any{"kind": kind.name, "duration": dur.String(), "user": user, "username": username})
	if caseNo%5 == 2 {
		c17Concurrent(rng, rec, kind, secret, realm)
	}
}

// c17Concurrent: one handler value serves every listener of a server, so it is called from
// several goroutines at once; each caller must still get the key of its own username.
func c17Concurrent(rng *rand.Rand, rec *sim.Rec, kind credKind, secret, realm string) {
	handler := kind.handler(secret)
	const callers, calls = 8, 1500
	type bad struct{ u, what string }
	out := make([][]bad, callers)
	users := make([]string, callers)
	for i := range users {
		u, _, err := kind.gen(secret, fmt.Sprintf("user-%d-%d", i, rng.Intn(1000)), time.Duration(1+rng.Intn(48))*time.Hour)
		if err != nil {
			return
		}
		users[i] = u
	}
	var wg sync.WaitGroup
	for i := 0; i < callers; i++ {
		wg.Add(1)
		go func(i int) {
			defer wg.Done()
			defer func() {
				if r := recover(); r != nil {
					out[i] = append(out[i], bad{users[i], fmt.Sprintf("panic: %v", r)})
				}
			}()
			want := string(wire.LongTermKey(users[i], realm, refPassword(users[i], secret)))
			for k := 0; k < calls; k++ {
				_, key, ok := handler(&turn.RequestAttributes{Username: users[i], Realm: realm})
				if !ok {
					out[i] = append(out[i], bad{users[i], "rejected"})

					return
				}
				if string(key) != want {
					out[i] = append(out[i], bad{users[i], "wrong key"})

					return
				}
			}
		}(i)
	}
	wg.Wait()
	for _, bs := range out {
		for _, b := range bs {
			rec.Violate("cred-key-wrong", kind.name+"/concurrent", "%s handler called from %d goroutines at once: valid credential %q: %s", kind.name, callers, b.u, b.what)
		}
	}
	rec.EvN("concurrent-handler-calls", callers*calls)
	rec.FP("%s/concurrent", kind.name)
}

func min64(a, b int64) int64 {
	if a < b {
		return a
	}

	return b
}

// runC17E2E: Allocate through a real server and a real client with generated credentials,
// just before and just after the expiry.
func runC17E2E(t *testing.T, rng *rand.Rand, rec *sim.Rec, tier string, caseNo int) {
	time.Sleep(time.Duration(rng.Intn(3_000_000)) * time.Second)
	kind := credKinds[caseNo%2]
	secret := "shared-secret"
	dur := pick(rng, []time.Duration{10 * time.Second, time.Minute, time.Hour})
	n := simnet.New()
	defer n.CloseAll()
	lsock, _ := n.ListenUDP(sim.ServerIP4, 3478)
	w := &sim.World{}
	_ = w
	logs := sim.NewLogSink()
	gen := &simpleGen{n: n}
	// the operator's realm is used exactly as configured, whatever its letter case or script
	realm := pick(rng, []string{"verif.test", "Pion.LY", "EXAMPLE.ORG", "Straße.example", "re%alm", "пример.рф", ""}) // ("": the operator configured none)
	// what the application configured as the client's realm is a hint at most: the server's
	// challenge says which realm the key is for
	clientRealm := realm
	switch rng.Intn(4) {
	case 0:
		clientRealm = ""
	case 1:
		clientRealm = pick(rng, []string{"placeholder.invalid", strings.ToUpper(realm) + "x", "verif.test."})
	}
	user := pick(rng, []string{"alice", "room42:device7", "@alice:example.org", "a b", "50%off",
		"jean\u00a0luc", "room\u20097", "\u3000padded\u3000", "na\u00efve-\u00fc\u00df", "\u202fthin"}) // (no-break, thin, ideographic spaces: bytes like any others)
	srv, err := turn.NewServer(turn.ServerConfig{
		Realm: realm, AuthHandler: kind.handler(secret), LoggerFactory: logs,
		PacketConnConfigs: []turn.PacketConnConfig{{PacketConn: lsock, RelayAddressGenerator: gen}},
	})
	if err != nil {
		t.Fatal(err)
	}
	defer srv.Close() //nolint:errcheck
	username, password, _ := kind.gen(secret, user, dur)
	expiry := time.Now().Add(dur).Unix()
	try := func(port int, pw string) error {
		rc, err := sim.NewRealClient(n, net.IPv4(10, 1, 0, 1).To4(), port, "10.0.0.1:3478", username, pw, clientRealm, 0, logs, nil)
		if err != nil {
			return err
		}
		defer func() { rc.Client.Close(); _ = rc.Conn.Close() }()
		if err := rc.Client.Listen(); err != nil {
			return err
		}
		conn, err := rc.Client.Allocate()
		if err != nil {
			return err
		}
		_ = conn.Close()
		time.Sleep(time.Second)

		return nil
	}
	late := rng.Intn(2) == 0
	target := time.Unix(expiry, 0).Add(-2 * time.Second)
	if late {
		target = time.Unix(expiry+1, 0).Add(100 * time.Millisecond)
	}
	if d := time.Until(target); d > 0 {
		time.Sleep(d)
	}
	err = try(5000, password)
	if late && err == nil {
		rec.Violate("cred-e2e", "accepted-after-expiry", "%s credentials allocated through a real server %v after expiry", kind.name, time.Since(time.Unix(expiry, 0)))
	}
	if !late && err != nil {
		rec.Violate("cred-e2e", "rejected-before-expiry", "%s credentials rejected by a real server 2 s before expiry: %v", kind.name, err)
	}
	if !late {
		if err := try(5001, refPassword(username, "other")); err == nil {
			rec.Violate("cred-e2e", "wrong-secret", "password derived from another secret allocated through a real server")
		}
		// the same server has accepted this credential a moment ago; once it has expired the
		// server must turn it down all the same
		if d := time.Until(time.Unix(expiry+1, 0).Add(200 * time.Millisecond)); d > 0 && d < 2*time.Hour {
			time.Sleep(d)
			if err := try(5002, password); err == nil {
				rec.Violate("cred-e2e", "accepted-after-expiry", "%s credentials that the server had accepted before their expiry still allocate %v after it", kind.name, time.Since(time.Unix(expiry, 0)).Round(time.Millisecond))
			}
			rec.FP("e2e/%s/reused-after-expiry", kind.name)
		}
	}
	rec.FP("e2e/%s/late=%v/server-realm-empty=%v/client-realm=%s", kind.name, late, realm == "", map[bool]string{true: "same", false: "other-or-none"}[clientRealm == realm])
	rec.SetSample(map[string]any{"kind": kind.name + "-e2e", "late": late, "duration": dur.String()})
}

type simpleGen struct{ n *simnet.Net }

func (g *simpleGen) Validate() error { return nil }
func (g *simpleGen) AllocatePacketConn(turn.AllocateListenerConfig) (net.PacketConn, net.Addr, error) {
	c, err := g.n.ListenUDP(sim.RelayIP4, 0)
	if err != nil {
		return nil, nil, err
	}

	return c, c.LocalAddr(), nil
}
func (g *simpleGen) AllocateListener(turn.AllocateListenerConfig) (net.Listener, net.Addr, error) {
	return nil, nil, simnet.ErrInjected
}
func (g *simpleGen) AllocateConn(turn.AllocateConnConfig) (net.Conn, error) {
	return nil, simnet.ErrInjected
}

func init() {
	register("C17", PropDef{
		Bubble: true,
		Cases: func(tier string) int {
			if tier == "thorough" {
				return 100000
			}

			return 3000
		},
		Run: func(t *testing.T, rng *rand.Rand, rec *sim.Rec, tier string, caseNo int) {
			if caseNo%10 == 9 {
				runC17E2E(t, rng, rec, tier, caseNo/10)

				return
			}
			runC17(t, rng, rec, tier, caseNo)
		},
	})
}
