package props

import (
	"encoding/binary"
	"errors"
	"fmt"
	"math/rand"
	"net"
	"sort"
	"sync/atomic"
	"testing"
	"time"

	"github.com/pion/turn/v5/verifharness/sim"
	"github.com/pion/turn/v5/verifharness/wire"
)

// Knobs steer the random history generator toward what one property is about.
type Knobs struct {
	Clients          [2]int // min,max UDP clients
	TCPClients       [2]int
	Peers            [2]int
	Steps            [2]int
	V6               int                // percent of worlds with IPv6 listener/clients/peers
	SecondListener   int                // percent: a second UDP listener, a client with the same address on both
	Deny             int                // percent of worlds with a deny policy
	TimeoutSets      [][3]time.Duration // perm, chan, lifetime (0 = default)
	SlowConnectEvery int                // every n-th case: an allocation expires while another client's Connect dials slowly
	Lifetimes        []int64            // requested lifetimes in seconds; -1 = absent
	W                map[string]int     // op weights
	MTUs             []int
	MaxPayload       int
	TCPAllocPct      int
	// TCPRelayEvery: every n-th case runs an RFC 6062 history (0 = never).
	TCPRelayEvery int
	// Impostor: percent of worlds with a second user acting from client c0's transport address.
	Impostor int
}

var defaultTimeouts = [][3]time.Duration{
	{0, 0, 0},
	{30 * time.Second, 2 * time.Minute, 10 * time.Minute},
	{2 * time.Minute, 30 * time.Second, 5 * time.Minute},
	{7 * time.Minute, 20 * time.Minute, 30 * time.Minute},
	{20 * time.Minute, 7 * time.Minute, 45 * time.Minute},
	{5 * time.Minute, 10 * time.Minute, 2 * time.Minute},
	{10 * time.Minute, 10 * time.Minute, 30 * time.Second},
	// operators set some of the three and leave the rest at their defaults (5 min, 10 min, 10 min)
	{40 * time.Second, 0, 0},
	{0, 45 * time.Second, 0},
	{0, 0, 50 * time.Second},
	{2 * time.Minute, 0, 90 * time.Second},
	{0, 3 * time.Minute, 20 * time.Minute},
}

var defaultLifetimes = []int64{-1, -1, 1, 2, 59, 600, 1800, 3599, 3600, 3601, 86400, 1 << 31, 1<<32 - 1}

func pick[T any](r *rand.Rand, xs []T) T { return xs[r.Intn(len(xs))] }

func between(r *rand.Rand, lohi [2]int) int {
	if lohi[1] <= lohi[0] {
		return lohi[0]
	}

	return lohi[0] + r.Intn(lohi[1]-lohi[0]+1)
}

type hist struct {
	wildcardTCP bool
	t           *testing.T
	w           *sim.World
	m           *sim.Model
	rng         *rand.Rand
	rec         *sim.Rec
	k           Knobs
	v6          bool
	clients     []*sim.RawClient
	peers       []*sim.Peer // permitted-able peers
	denied      []*sim.Peer
	strangers   []*sim.Peer // hosts no request ever names, on the port numbers of the peers
	relays      []*net.UDPAddr
	ctr         uint64
	step        int
	usedNums    map[*sim.RawClient][]uint16
	actor       *sim.RawClient
	crossFx     bool
}

func (h *hist) payload(n int) []byte {
	b := make([]byte, n)
	h.rng.Read(b)
	if n >= 8 {
		h.ctr++
		binary.BigEndian.PutUint64(b, h.ctr|0xA5<<56)
	}

	return b
}

func (h *hist) payloadLen() int {
	maxp := h.k.MaxPayload
	if maxp == 0 {
		maxp = 1200
	}
	switch h.rng.Intn(10) {
	case 0:
		return h.rng.Intn(8)
	case 1:
		return 8 + h.rng.Intn(4)
	default:
		return 8 + h.rng.Intn(maxp-8+1)
	}
}

func newHist(t *testing.T, rng *rand.Rand, rec *sim.Rec, k Knobs) *hist {
	h := &hist{t: t, rng: rng, rec: rec, k: k, usedNums: map[*sim.RawClient][]uint16{}}
	h.v6 = rng.Intn(100) < k.V6
	to := pick(rng, k.TimeoutSets)
	cfg := sim.Config{
		Realm: "verif.test", Users: map[string]string{"alice": "pw-a", "bob": "pw-b", "carol": "pw-c"},
		PermTimeout: to[0], ChanTimeout: to[1], Lifetime: to[2],
		UDPListeners: []*net.UDPAddr{{IP: sim.ServerIP4, Port: 3478}},
	}
	if len(k.MTUs) > 0 {
		cfg.InboundMTU = pick(rng, k.MTUs)
	}
	second := rng.Intn(100) < k.SecondListener
	if second {
		cfg.UDPListeners = append(cfg.UDPListeners, &net.UDPAddr{IP: sim.ServerIP4, Port: 3479})
	}
	v6Listener := -1
	if h.v6 {
		v6Listener = len(cfg.UDPListeners)
		cfg.UDPListeners = append(cfg.UDPListeners, &net.UDPAddr{IP: sim.ServerIP6, Port: 3478})
	}
	nTCP := between(rng, k.TCPClients)
	if nTCP > 0 {
		cfg.TCPListeners = []*net.TCPAddr{{IP: sim.ServerIP4, Port: 3478}}
		if rng.Intn(3) == 0 {
			// the usual production binding: the wildcard address; accepted connections then have
			// a concrete local address that differs from the listener's
			cfg.TCPListeners[0].IP = net.IPv4zero.To4()
			h.wildcardTCP = true
		}
	}
	deniedIP4 := net.IPv4(10, 2, 9, 9).To4()
	deniedIP6 := net.ParseIP("fd00:2::99")
	if rng.Intn(100) < k.Deny {
		cfg.DenyPeerIPs = []string{deniedIP4.String(), deniedIP6.String()}
		if rng.Intn(2) == 0 {
			cfg.DenyPerClient = map[string][]string{"10.1.0.1:5000": {"10.2.0.1"}}
		}
	}
	w, err := sim.NewWorld(cfg, rec, rng, true)
	if err != nil {
		t.Fatalf("world: %v", err)
	}
	h.w = w
	h.m = sim.NewModel(w)
	slowDeletes := rng.Intn(4) == 0
	if slowDeletes {
		// the operator's deletion callbacks are slow (a yield storm, they run under the library's
		// locks): entries that expire at the same instant are removed by goroutines that interleave
		w.SetEventDelay("chan-", time.Second)
		w.SetEventDelay("perm-", time.Second)
		rec.Ev("slow-deletion-callbacks")
	}
	users := []string{"alice", "bob", "carol"}
	nc := between(rng, k.Clients)
	for i := 0; i < nc; i++ {
		// clients 2k and 2k+1 share an IP (different ports); clients i and i+2 share a port (different IPs)
		ip := net.IPv4(10, 1, 0, byte(1+i/2)).To4()
		port := 5000 + i%2
		user := users[rng.Intn(len(users))]
		li := 0
		if h.v6 && i%3 == 2 {
			ip = net.ParseIP(fmt.Sprintf("fd00:1::%x", 1+i))
			li = v6Listener
		}
		c, err := w.NewUDPClient(fmt.Sprintf("c%d", i), ip, port, li, user)
		if err != nil {
			t.Fatalf("client: %v", err)
		}
		h.clients = append(h.clients, c)
		if second && i == 0 {
			// Same client transport address cannot be bound twice in simnet; a second socket with the
			// same IP:port is impossible, so the second-listener twin uses the same socket.
			twin := *c
			twin.Name = "c0@L1"
			twin.Listener = 1
			twin.Server = w.ServerUDP[1].Addr()
			twin.Nonce = ""
			twin.Pending = map[[12]byte]uint16{}
			twin.Inbox = nil
			tw := &twin
			w.Clients = append(w.Clients, tw)
			h.clients = append(h.clients, tw)
		}
	}
	// an impostor: another (valid) user's credentials used from the transport address of client c0
	if len(h.clients) > 0 && rng.Intn(100) < k.Impostor {
		c0 := h.clients[0]
		twin := *c0
		twin.Name = "impostor@" + c0.Name
		twin.User = "bob"
		if c0.User == "bob" {
			twin.User = "carol"
		}
		twin.Pass = cfg.Users[twin.User]
		twin.Nonce = ""
		twin.Pending = map[[12]byte]uint16{}
		twin.Inbox = nil
		tw := &twin
		w.Clients = append(w.Clients, tw)
		h.clients = append(h.clients, tw)
	}
	for i := 0; i < nTCP; i++ {
		tip, tport := net.IPv4(10, 1, 1, byte(1+i)).To4(), 6000+i
		if i == 0 && rng.Intn(3) == 0 {
			// the same host and port number as UDP client c0, over TCP: another 5-tuple
			tip, tport = net.IPv4(10, 1, 0, 1).To4(), 5000
			rec.Ev("tcp-client-on-a-udp-clients-address")
		}
		c, err := w.NewTCPClient(fmt.Sprintf("t%d", i), tip, tport, 0, users[rng.Intn(len(users))])
		if err != nil {
			t.Fatalf("tcp client: %v", err)
		}
		h.clients = append(h.clients, c)
	}
	np := between(rng, k.Peers)
	for i := 0; i < np; i++ {
		ip := net.IPv4(10, 2, 0, byte(1+i/2)).To4() // pairs of peers share an IP (different ports)
		if h.v6 && i%3 == 2 {
			ip = net.ParseIP(fmt.Sprintf("fd00:2::%x", 1+i/2))
		}
		p, err := w.NewPeer(fmt.Sprintf("p%d", i), ip, 7000+i)
		if err != nil {
			t.Fatalf("peer: %v", err)
		}
		h.peers = append(h.peers, p)
		// a host nobody ever names in a request, sending from the same port number as this peer
		sip := net.IPv4(10, 2, 7, byte(1+i)).To4()
		if ip.To4() == nil {
			sip = net.ParseIP(fmt.Sprintf("fd00:2:7::%x", 1+i))
		}
		if sp, err := w.NewPeer(fmt.Sprintf("stranger%d", i), sip, 7000+i); err == nil {
			h.strangers = append(h.strangers, sp)
		}
	}
	d4, _ := w.NewPeer("denied4", deniedIP4, 7900)
	h.denied = append(h.denied, d4)
	if h.v6 {
		d6, _ := w.NewPeer("denied6", deniedIP6, 7900)
		h.denied = append(h.denied, d6)
	}
	if slowDeletes {
		h.probeInsideDeletionCallbacks()
	}

	return h
}

// probeInsideDeletionCallbacks: while the operator's permission-deleted / channel-deleted callback
// runs (slowly), the entry it reports has expired; data submitted from inside the callback - a
// Send indication and a peer datagram for the permission, ChannelData for the channel - must not
// be relayed. Nothing is expected for these datagrams: whatever comes out is reported by the next
// audit as an emission no submission explains.
func (h *hist) probeInsideDeletionCallbacks() {
	clients := append([]*sim.RawClient{}, h.clients...)
	peers := append(append([]*sim.Peer{}, h.peers...), h.denied...)
	// a channel binding authorises its peer's exact transport address beyond the permission's
	// expiry, so the datagram toward the client comes from a port of that host no channel is ever
	// bound to
	alt := map[string]*sim.Peer{}
	for _, p := range peers {
		if alt[p.Addr.IP.String()] == nil {
			if a, err := h.w.NewPeer("alt-"+p.Name, p.Addr.IP, 7950); err == nil {
				alt[p.Addr.IP.String()] = a
			}
		}
	}
	var seq atomic.Uint32
	h.w.SetOnEventStart(func(ev sim.LifeEvent) {
		if ev.Kind != "perm-" && ev.Kind != "chan-" {
			return
		}
		var c *sim.RawClient
		for _, k := range clients {
			if k.Addr.String() == ev.Src && k.IsTCP == (ev.Net == "tcp") && k.ServerAddr().String() == ev.Dst && !k.Closed {
				c = k
			}
		}
		if c == nil {
			return
		}
		n := seq.Add(1)
		tag := []byte(fmt.Sprintf("sent-inside-%s-callback-%d", ev.Kind, n))
		if ev.Kind == "chan-" {
			_ = c.SendRaw(wire.EncodeChannelData(ev.Num, tag, true))
			h.rec.Ev("probes-inside-channel-deleted-callback")

			return
		}
		relay, err := net.ResolveUDPAddr("udp", ev.Relay)
		for _, p := range peers {
			if p.Addr.IP.String() != ev.Peer {
				continue
			}
			var tid [12]byte
			binary.BigEndian.PutUint32(tid[:4], 0xDE1E7E00)
			binary.BigEndian.PutUint32(tid[8:], n)
			b := wire.NewBuilder(wire.MethodSend, wire.ClassIndication, tid)
			b.AddXorAddr(wire.AttrXORPeerAddress, p.Addr.IP, p.Addr.Port)
			b.Add(wire.AttrData, tag)
			_ = c.SendRaw(b.Bytes())
			h.rec.Ev("probes-inside-permission-deleted-callback")
		}
		if a := alt[ev.Peer]; a != nil && err == nil {
			_, _ = a.UDP.WriteTo(append([]byte("peer-"), tag...), relay)
		}
	})
}

func (h *hist) anyPeer() *sim.Peer {
	if h.rng.Intn(12) == 0 {
		return pick(h.rng, h.denied)
	}

	return pick(h.rng, h.peers)
}

func (h *hist) peerForFamily(c *sim.RawClient) *sim.Peer {
	a, _ := h.m.Alloc(c)
	for tries := 0; tries < 8; tries++ {
		p := h.anyPeer()
		if a == nil || (p.Addr.IP.To4() != nil) == (a.Fam == 4) || h.rng.Intn(10) == 0 {
			return p
		}
	}

	return h.anyPeer()
}

func (h *hist) lifetime() *uint32 {
	l := pick(h.rng, h.k.Lifetimes)
	if l < 0 {
		return nil
	}

	return sim.U32(uint32(l))
}

func (h *hist) open() []*sim.RawClient {
	var cs []*sim.RawClient
	for _, c := range h.clients {
		if !c.Closed {
			cs = append(cs, c)
		}
	}
	if len(cs) == 0 {
		return h.clients[:1]
	}

	return cs
}

func (h *hist) opAllocate() {
	c := pick(h.rng, h.open())
	h.actor = c
	o := sim.AllocOpts{Lifetime: h.lifetime()}
	if o.Lifetime != nil && *o.Lifetime == 0 && h.rng.Intn(4) != 0 {
		o.Lifetime = nil
	}
	ip, _ := addrIPPortOf(c.Addr)
	if ip.To4() == nil {
		if h.rng.Intn(2) == 0 {
			o.Family = 2
		}
	} else if h.v6 && h.rng.Intn(6) == 0 {
		o.Family = 2
	} else if h.rng.Intn(6) == 0 {
		o.Family = 1
	}
	if h.rng.Intn(100) < h.k.TCPAllocPct {
		o.Transport = 6
	} else if h.rng.Intn(8) == 0 {
		// EVEN-PORT (with or without reserving the next port): the server probes for an even port
		// with throw-away relay sockets before it makes the allocation
		r := h.rng.Intn(2) == 0
		o.EvenPort = &r
	}
	if a, st := h.m.Alloc(c); (a == nil || st == sim.Dead) && h.rng.Intn(5) == 0 {
		// the transaction id with which another 5-tuple of the same user made its live allocation
		for _, oc := range h.clients {
			if oa, ost := h.m.Alloc(oc); oc != c && oc.User == c.User && oa != nil && ost == sim.Live {
				tid := oa.AllocTID
				h.m.NextTID = &tid
				h.rec.FP("allocate/transaction-id-of-another-5-tuple")

				break
			}
		}
	}
	resp := h.m.Allocate(c, o)
	h.m.NextTID = nil
	if resp != nil && resp.Class == wire.ClassSuccess {
		if r, ok := sim.RelayAddrOf(resp); ok {
			h.relays = append(h.relays, r)
		}
	}
}

func addrIPPortOf(a net.Addr) (net.IP, int) {
	switch t := a.(type) {
	case *net.UDPAddr:
		return t.IP, t.Port
	case *net.TCPAddr:
		return t.IP, t.Port
	}

	return nil, 0
}

func (h *hist) withAlloc() *sim.RawClient {
	var cs []*sim.RawClient
	for _, c := range h.open() {
		if a, st := h.m.Alloc(c); a != nil && st != sim.Dead {
			cs = append(cs, c)
		}
	}
	if len(cs) == 0 || h.rng.Intn(15) == 0 {
		return pick(h.rng, h.open())
	}

	return pick(h.rng, cs)
}

func (h *hist) opRefresh() {
	c := h.withAlloc()
	h.actor = c
	l := h.lifetime()
	if l != nil && *l == 0 && h.rng.Intn(3) != 0 {
		l = sim.U32(uint32(1 + h.rng.Intn(1200)))
	}
	if r := h.rng.Intn(12); r < 2 {
		c.RefreshFamily = 1 + r // 1: REQUESTED-ADDRESS-FAMILY of the allocation's own family, 2: the other one
	}
	h.m.Refresh(c, l)
}

func (h *hist) opRefresh0() {
	h.actor = h.withAlloc()
	many := false
	if a, st := h.m.Alloc(h.actor); a != nil && st == sim.Live && !a.TCP && h.rng.Intn(3) == 0 {
		// an allocation that goes with three to five channels (and their permissions) on it:
		// everything goes with it, at once
		seen := map[string]bool{}
		for i, n := 0, 3+h.rng.Intn(3); i < 12 && len(seen) < n; i++ {
			p := h.peerForFamily(h.actor)
			if seen[p.Addr.String()] {
				continue
			}
			seen[p.Addr.String()] = true
			num := uint16(0x4000 + h.rng.Intn(16))
			if r := h.m.ChannelBind(h.actor, num, p.Addr); r != nil && r.Class == wire.ClassSuccess {
				h.usedNums[h.actor] = append(h.usedNums[h.actor], num)
			}
		}
		many = true
	}
	h.m.Refresh(h.actor, sim.U32(0))
	if many {
		// ... and nothing of it is heard of later (the channel timeout passes)
		h.w.Sleep(h.m.ChanTO + time.Second)
		h.m.Audit(nil)
		h.m.CrossCheck()
		h.rec.FP("refresh0/with-many-channels")
		h.actor = nil // (time has passed: the no-cross-effect comparison of this step does not apply)
	}
}

func (h *hist) opCreatePerm() {
	c := h.withAlloc()
	h.actor = c
	c.MapPeersV6 = h.rng.Intn(10) == 0
	if h.rng.Intn(8) == 0 {
		c.ExtraLifetime = sim.U32(uint32(pick(h.rng, []int{0, 1, 5, 30, 3600})))
		h.rec.FP("perm/with-a-lifetime-attribute")
	}
	n := 1
	if h.rng.Intn(4) == 0 {
		n = 2 + h.rng.Intn(2)
	}
	var ps []*net.UDPAddr
	for i := 0; i < n; i++ {
		p := h.peerForFamily(c)
		ps = append(ps, p.Addr)
	}
	h.m.CreatePermission(c, ps...)
}

func (h *hist) chanNumber(c *sim.RawClient) uint16 {
	used := h.usedNums[c]
	switch r := h.rng.Intn(20); {
	case r == 0:
		return pick(h.rng, []uint16{0, 1, 0x3FFF, 0x8000, 0x8001, 0xFFFF, uint16(h.rng.Intn(0x4000)), uint16(0x8000 + h.rng.Intn(0x8000))})
	case r == 1:
		return 0x4000
	case r == 2:
		return 0x7FFF
	case r < 9 && len(used) > 0:
		return pick(h.rng, used)
	case r < 11:
		// a number some other client uses
		for _, oc := range h.clients {
			if oc != c && len(h.usedNums[oc]) > 0 {
				return pick(h.rng, h.usedNums[oc])
			}
		}
	}

	return uint16(0x4000 + h.rng.Intn(16)) // small range => collisions between clients and over time
}

func (h *hist) opChanBind() {
	c := h.withAlloc()
	h.actor = c
	c.MapPeersV6 = h.rng.Intn(7) == 0
	if h.rng.Intn(6) == 0 {
		c.ExtraLifetime = sim.U32(uint32(pick(h.rng, []int{0, 1, 5, 30, 3600})))
		h.rec.FP("chan/with-a-lifetime-attribute")
	}
	num := h.chanNumber(c)
	p := h.peerForFamily(c)
	// a live binding whose host the permission handler refuses by now: its refresh is a
	// ChannelBind like any other and must be refused
	if a, st := h.m.Alloc(c); a != nil && st == sim.Live && h.rng.Intn(2) == 0 {
		for _, ch := range a.Chans {
			if ua, err := net.ResolveUDPAddr("udp", ch.Peer); err == nil && h.m.Denied(c, ua.IP) {
				if cur, cst := a.ChanByNum(ch.Num); cur == ch && cst == sim.Live {
					h.m.ChannelBind(c, ch.Num, ua)
					h.rec.FP("chan/refresh-of-refused-host")

					return
				}
			}
		}
	}
	// prefer re-binding the peer already bound to this number half of the time
	if a, st := h.m.Alloc(c); a != nil && st == sim.Live && h.rng.Intn(2) == 0 {
		if ch, cst := a.ChanByNum(num); ch != nil && cst != sim.Dead {
			if ua, err := net.ResolveUDPAddr("udp", ch.Peer); err == nil {
				resp := h.m.ChannelBind(c, num, ua)
				_ = resp

				return
			}
		}
	}
	resp := h.m.ChannelBind(c, num, p.Addr)
	if resp != nil && resp.Class == wire.ClassSuccess {
		h.usedNums[c] = append(h.usedNums[c], num)
	}
	if h.rng.Intn(3) == 0 {
		// a second binding made at the same instant: the two expire together
		num2, p2 := h.chanNumber(c), h.peerForFamily(c)
		if num2 != num && p2 != p {
			if r := h.m.ChannelBind(c, num2, p2.Addr); r != nil && r.Class == wire.ClassSuccess {
				h.usedNums[c] = append(h.usedNums[c], num2)
			}
			h.rec.FP("chan/two-at-the-same-instant")
		}
	}
}

// relaysToProbe returns relay addresses: live ones, dead ones and a never-used one.
func (h *hist) relayTargets() []*net.UDPAddr {
	out := append([]*net.UDPAddr{}, h.relays...)
	out = append(out, &net.UDPAddr{IP: sim.RelayIP4, Port: 19999})

	return out
}

// inStepControl fires one of the owner's own requests while data is in flight.
func (h *hist) inStepControl(st *sim.Step) {
	c := h.withAlloc()
	a, ast := h.m.Alloc(c)
	if a == nil || ast != sim.Live || c.Closed {
		return
	}
	p := h.peerForFamily(c)
	switch h.rng.Intn(4) {
	case 0:
		st.InStepControl(c, nil, func() { h.m.CreatePermission(c, p.Addr) })
		h.rec.FP("in-step/createpermission")
	case 1:
		num := h.chanNumber(c)
		st.InStepControl(c, map[string]uint16{p.Addr.String(): num}, func() {
			if r := h.m.ChannelBind(c, num, p.Addr); r != nil && r.Class == wire.ClassSuccess {
				h.usedNums[c] = append(h.usedNums[c], num)
			}
		})
		h.rec.FP("in-step/channelbind")
	case 2:
		st.InStepControl(c, nil, func() { h.m.Refresh(c, sim.U32(uint32(1+h.rng.Intn(1200)))) })
		h.rec.FP("in-step/refresh")
	default:
		st.InStepControl(c, nil, func() { h.m.Refresh(c, sim.U32(0)) })
		h.rec.FP("in-step/refresh0")
	}
}

// serverWriteFails: the server's socket fails once (ENOBUFS, say) while relaying a peer's datagram
// to its client. That datagram is lost; the allocation and its relay go on as before - the data
// steps and probes that follow find out.
func (h *hist) serverWriteFails() {
	for _, c := range h.clients {
		a, st := h.m.Alloc(c)
		if a == nil || st != sim.Live || a.TCP || c.IsTCP || c.Closed || c.Listener >= len(h.w.ServerUDP) || a.RelayUDP == nil {
			continue
		}
		for _, p := range h.peers {
			if a.PermState(p.Addr.IP) != sim.Live || (p.Addr.IP.To4() != nil) != (a.Fam == 4) {
				continue
			}
			sock := h.w.ServerUDP[c.Listener]
			failed := false
			to := c.Addr.String()
			sock.SetWriteHook(func(b []byte, dst net.Addr) (int, error, bool) {
				if failed || dst.String() != to {
					return 0, nil, false
				}
				if m, err := wire.ParseSTUN(b); err == nil && !(m.Method == wire.MethodData && m.Class == wire.ClassIndication) {
					return 0, nil, false // (a response: not what this step is about)
				}
				failed = true

				return 0, errors.New("injected: no buffer space available"), true
			})
			_, _ = p.UDP.WriteTo([]byte("lost-in-the-servers-socket-write"), a.RelayUDP)
			h.w.Settle()
			sock.SetWriteHook(nil)
			h.m.Audit(nil)
			if failed {
				h.rec.FP("server-write-to-client-failed-once")
			}

			return
		}
	}
}

func (h *hist) dataStep(n int) {
	if h.rng.Intn(10) == 0 {
		h.serverWriteFails()
	}
	st := h.m.Begin()
	ctrlAt := -1
	if h.rng.Intn(3) == 0 {
		ctrlAt = h.rng.Intn(n + 1)
	}
	for i := 0; i < n; i++ {
		if i == ctrlAt {
			h.inStepControl(st)
		}
		switch h.rng.Intn(3) {
		case 0:
			c := h.withAlloc()
			st.ClientSend(c, h.peerForFamily(c).Addr, h.payload(h.payloadLen()))
		case 1:
			c := h.withAlloc()
			num := h.chanNumber(c)
			if c.IsTCP && !wire.ValidChannel(num) {
				// over a stream an out-of-range number is not a frame at all: the server must drop the
				// connection (exercised by opTCPGarbage, not mixed into data steps)
				num = 0x4000 + num&0x0F
			}
			st.ClientChanData(c, num, h.payload(h.payloadLen()), h.rng.Intn(2) == 0)
		default:
			if len(h.relays) == 0 {
				continue
			}
			p := h.anyPeer()
			if len(h.strangers) > 0 && h.rng.Intn(6) == 0 {
				p = pick(h.rng, h.strangers) // same port number as a peer, another host
			}
			st.PeerSend(p, pick(h.rng, h.relayTargets()), h.payload(h.payloadLen()))
		}
	}
	st.End()
	h.m.CrossCheck()
}

// probe sends one targeted datagram in each direction for every live authorisation of client c
// plus unauthorised variants (other port of a permitted IP, unpermitted peer).
func (h *hist) probeClient(c *sim.RawClient) {
	a, _ := h.m.Alloc(c)
	if a == nil {
		return
	}
	st := h.m.Begin()
	for _, p := range h.peers {
		if _, known := a.Perms[p.Addr.IP.String()]; known {
			st.ClientSend(c, p.Addr, h.payload(16+h.rng.Intn(64)))
			st.PeerSend(p, a.RelayUDP, h.payload(16+h.rng.Intn(64)))
		} else if h.rng.Intn(3) == 0 {
			st.ClientSend(c, p.Addr, h.payload(16))
			st.PeerSend(p, a.RelayUDP, h.payload(16))
		}
	}
	seen := map[uint16]bool{}
	for _, ch := range a.Chans {
		if !seen[ch.Num] {
			seen[ch.Num] = true
			st.ClientChanData(c, ch.Num, h.payload(16+h.rng.Intn(64)), true)
		}
	}
	st.End()
	h.m.CrossCheck()
}

type expiry struct {
	at   time.Time
	c    *sim.RawClient
	what string
}

func (h *hist) upcoming() []expiry {
	now := time.Now()
	var out []expiry
	for _, c := range h.clients {
		a, st := h.m.Alloc(c)
		if a == nil || st == sim.Dead {
			continue
		}
		out = append(out, expiry{a.Exp, c, "alloc"})
		for _, e := range a.Perms {
			if e.After(now) && e.Before(a.Exp) {
				out = append(out, expiry{e, c, "perm"})
			}
		}
		for _, ch := range a.Chans {
			if ch.Exp.After(now) && ch.Exp.Before(a.Exp) {
				out = append(out, expiry{ch.Exp, c, "chan"})
			}
		}
	}
	sort.Slice(out, func(i, j int) bool { return out[i].at.Before(out[j].at) })

	return out
}

// opProbeExpiry jumps to one second before an upcoming expiry, probes, then to one second after
// it and probes again.
func (h *hist) opProbeExpiry() {
	up := h.upcoming()
	if len(up) == 0 {
		return
	}
	e := up[0]
	if len(up) > 1 && h.rng.Intn(3) == 0 {
		e = up[h.rng.Intn(min(len(up), 4))]
	}
	// one second on either side of the expiry, sometimes only 600 ms (still outside the 0.5 s
	// band in which the verdict is open)
	// one second on either side of the expiry, sometimes only 600 ms (still outside the 0.5 s band
	// in which the verdict is open). Requests can be less than a second apart, so expiries are not
	// aligned to whole seconds relative to each other: a probe instant must also keep clear of the
	// open band of every *other* expiry, or this expiry is not probed now.
	clear := func(off time.Duration) bool {
		if time.Until(e.at) < off+time.Second {
			return false
		}
		for _, u := range up {
			if u == e {
				continue
			}
			for _, at := range []time.Time{e.at.Add(-off), e.at.Add(off)} {
				if d := u.at.Sub(at); d > -800*time.Millisecond && d < 800*time.Millisecond {
					return false
				}
			}
		}

		return true
	}
	offs := []time.Duration{time.Second, 600 * time.Millisecond}
	if h.rng.Intn(3) == 0 {
		offs = []time.Duration{600 * time.Millisecond, time.Second}
	}
	off := time.Duration(0)
	for _, o := range offs {
		if clear(o) {
			off = o

			break
		}
	}
	if off == 0 {
		h.rec.Ev("probe-expiry-skipped/crowded")

		return
	}
	before := e.at.Add(-off)
	if d := time.Until(before); d > 0 {
		h.rec.Tracef("-- advance %v to %v before %s expiry of %s", d, off, e.what, e.c.Name)
		h.w.Sleep(d)
	}
	h.m.Audit(nil)
	h.m.CrossCheck()
	h.probeClient(e.c)
	after := e.at.Add(off)
	if d := time.Until(after); d > 0 {
		h.w.Sleep(d)
	}
	h.rec.Tracef("-- now %v after %s expiry of %s", off, e.what, e.c.Name)
	h.m.Audit(nil)
	h.m.CrossCheck()
	h.probeClient(e.c)
	h.rec.FP("probe-expiry/%s", e.what)
}

// opTwinExpiry binds two or three channels (and with them their permissions) at one instant and
// looks at the allocation just after they have expired together.
func (h *hist) opTwinExpiry() {
	c := h.withAlloc()
	if a, st := h.m.Alloc(c); a == nil || st != sim.Live || c.Closed {
		return
	}
	t0 := time.Now()
	want, bound := 2+h.rng.Intn(2), 0
	seen := map[string]bool{}
	for i := 0; i < 12 && bound < want; i++ {
		num, p := uint16(0x4000+h.rng.Intn(16)), h.peerForFamily(c)
		if seen[p.Addr.String()] {
			continue
		}
		seen[p.Addr.String()] = true
		if r := h.m.ChannelBind(c, num, p.Addr); r != nil && r.Class == wire.ClassSuccess {
			h.usedNums[c] = append(h.usedNums[c], num)
			bound++
		}
	}
	if bound < 2 || time.Since(t0) != 0 {
		return
	}
	horizons := []time.Duration{h.m.PermTO, h.m.ChanTO}
	if horizons[0] > horizons[1] {
		horizons[0], horizons[1] = horizons[1], horizons[0]
	}
	for _, d := range horizons {
		if a, st := h.m.Alloc(c); a == nil || st != sim.Live {
			return
		}
		if w := time.Until(t0.Add(d + time.Second)); w > 0 {
			h.w.Sleep(w)
		}
		h.m.Audit(nil)
		h.m.CrossCheck()
		h.probeClient(c)
	}
	h.rec.FP("twin-expiry/bound=%d", bound)
}

func (h *hist) opTime() {
	// now and then the operator's permission handler changes its mind about a peer host: what was
	// granted stays until it expires, but nothing for that host is installed or refreshed any more
	if h.rng.Intn(6) == 0 && len(h.peers) > 0 {
		p := pick(h.rng, h.peers)
		static := false
		for _, ip := range h.w.Cfg.DenyPeerIPs {
			if net.ParseIP(ip).Equal(p.Addr.IP) {
				static = true
			}
		}
		if !static {
			denied := h.rng.Intn(3) != 0
			h.m.SetDenied(p.Addr.IP, denied)
			h.rec.Tracef("permission handler now denies=%v host %s", denied, p.Addr.IP)
			h.rec.FP("late-deny/%v", denied)
		}
	}
	var d time.Duration
	switch h.rng.Intn(6) {
	case 5:
		d = time.Duration(300+h.rng.Intn(650)) * time.Millisecond // less than a second between two requests
	case 0:
		d = time.Duration(1+h.rng.Intn(30)) * time.Second
	case 1:
		d = time.Duration(1+h.rng.Intn(10)) * time.Minute
	case 2:
		d = time.Duration(1+h.rng.Intn(90)) * time.Minute
	default:
		d = time.Duration(1+h.rng.Intn(120)) * time.Second
	}
	// never land inside the MAY window of a model expiry: nudge by 2s if needed
	target := time.Now().Add(d)
	for _, e := range h.upcoming() {
		if diff := target.Sub(e.at); diff > -1500*time.Millisecond && diff < 1500*time.Millisecond {
			d += 3 * time.Second
			target = time.Now().Add(d)
		}
	}
	h.rec.Tracef("-- advance %v", d)
	h.w.Sleep(d)
	h.m.Audit(nil)
	h.m.CrossCheck()
}

func (h *hist) opCloseTCP() {
	for _, c := range h.clients {
		if c.IsTCP && !c.Closed && h.rng.Intn(2) == 0 {
			h.rec.Tracef("%s closes its control connection", c.Name)
			c.Close()
			h.w.Settle()
			h.m.ClientClosed(c)
			h.m.Audit(nil)
			h.m.CrossCheck()
			h.rec.FP("tcp-control-close/wildcard=%v", h.wildcardTCP)
			if ta, ok := c.Addr.(*net.TCPAddr); ok && h.rng.Intn(2) == 0 {
				// a new connection from the same address and port (the host reuses its source port):
				// it has no allocation - what the closed connection had is gone, nothing it sends
				// without allocating is relayed
				old, _ := h.m.Alloc(c)
				nc, err := h.w.NewTCPClient(c.Name+"'", ta.IP, ta.Port, c.Listener-len(h.w.ServerUDP), c.User)
				if err != nil {
					h.rec.Ev("tcp-reconnect-from-the-same-port-refused")

					return
				}
				// (the new connection takes the old one's place: same 5-tuple, same model key)
				for i := range h.clients {
					if h.clients[i] == c {
						h.clients[i] = nc
					}
				}
				stp := h.m.Begin()
				n := 0
				for _, p := range h.peers {
					if old != nil && n < 3 {
						if _, had := old.Perms[p.Addr.IP.String()]; had {
							stp.ClientSend(nc, p.Addr, h.payload(24))
							n++
						}
					}
				}
				if n == 0 {
					stp.ClientSend(nc, h.peers[0].Addr, h.payload(24))
				}
				stp.End()
				h.m.CrossCheck()
				h.rec.FP("tcp-reconnect-from-the-same-port")
			}

			return
		}
	}
}

// opLoneSender: one bound peer is the only sender toward a relay before and after its channel
// binding expires (the permission may outlive it): the encapsulation must follow the binding table
// at each instant, not what was true for the previous datagram of that sender.
func (h *hist) opLoneSender() {
	for _, c := range h.open() {
		a, st := h.m.Alloc(c)
		if a == nil || st != sim.Live || a.TCP || len(a.Chans) == 0 || h.rng.Intn(2) == 0 {
			continue
		}
		ch := a.Chans[h.rng.Intn(len(a.Chans))]
		var sender *sim.Peer
		for _, p := range append(append([]*sim.Peer{}, h.peers...), h.denied...) {
			if p.Addr.String() == ch.Peer {
				sender = p
			}
		}
		if sender == nil || !ch.Exp.After(time.Now().Add(2*time.Second)) {
			continue
		}
		stp := h.m.Begin()
		stp.PeerSend(sender, a.RelayUDP, h.payload(24))
		stp.End()
		if d := time.Until(ch.Exp.Add(time.Second)); d > 0 && ch.Exp.Before(a.Exp.Add(-2*time.Second)) {
			h.w.Sleep(d)
			h.m.Audit(nil)
		}
		stp = h.m.Begin()
		stp.PeerSend(sender, a.RelayUDP, h.payload(24))
		stp.End()
		h.m.CrossCheck()
		h.rec.FP("lone-sender-across-channel-expiry")

		return
	}
}

// opTCPGarbage sends bytes that cannot begin a frame on a TCP control connection: the server
// must stop serving that connection and the allocation made on it goes away (C10/C15).
func (h *hist) opTCPGarbage() {
	for _, c := range h.open() {
		if !c.IsTCP || h.rng.Intn(2) == 0 {
			continue
		}
		st := h.m.Begin()
		bad := pick(h.rng, []uint16{0x0001, 0x3FFF, 0x8000, 0xFFFF})
		st.ClientChanData(c, bad, h.payload(20+h.rng.Intn(100)), true)
		st.End()
		c.Closed = true
		h.m.ClientClosed(c)
		h.m.Audit(nil)
		h.m.CrossCheck()
		h.rec.FP("tcp-garbage-closes")

		return
	}
}

func (h *hist) run() {
	defer h.w.Shutdown()
	ops := []string{}
	for op, wgt := range h.k.W {
		for i := 0; i < wgt; i++ {
			ops = append(ops, op)
		}
	}
	sort.Strings(ops)
	n := between(h.rng, h.k.Steps)
	// every history starts with a few allocations so that the interesting ops have targets
	for i := 0; i < 1+len(h.clients)/2; i++ {
		h.opAllocate()
	}
	for h.step = 0; h.step < n; h.step++ {
		h.rec.SetStep(h.step)
		op := pick(h.rng, ops)
		var before map[string]string
		isReq := op == "allocate" || op == "refresh" || op == "refresh0" || op == "perm" || op == "chan"
		if h.crossFx && isReq {
			before = h.snapAll()
			h.actor = nil
		}
		switch op {
		case "allocate":
			h.opAllocate()
		case "refresh":
			h.m.LoseNextResponse = h.rng.Intn(8) == 0
			h.opRefresh()
			h.m.LoseNextResponse = false
		case "refresh0":
			h.opRefresh0()
		case "perm":
			h.m.LoseNextResponse = h.rng.Intn(8) == 0
			h.opCreatePerm()
			h.m.LoseNextResponse = false
		case "chan":
			h.m.LoseNextResponse = h.rng.Intn(6) == 0
			h.opChanBind()
			h.m.LoseNextResponse = false
		case "data":
			h.dataStep(1 + h.rng.Intn(6))
		case "probe":
			if h.rng.Intn(5) == 0 {
				h.opLoneSender()
			} else {
				h.opProbeExpiry()
			}
		case "time":
			h.opTime()
		case "twins":
			h.opTwinExpiry()
		case "closetcp":
			if h.rng.Intn(3) == 0 {
				h.opTCPGarbage()
			} else {
				h.opCloseTCP()
			}
		}
		if before != nil && h.actor != nil {
			h.diffCheck(before, h.snapAll(), h.actor, op)
		}
		h.m.CrossCheck()
		if len(h.rec.Violations()) > 0 {
			break
		}
	}
	h.rec.SetSample(map[string]any{"clients": len(h.clients), "peers": len(h.peers), "steps": h.step, "v6": h.v6,
		"perm_timeout": h.m.PermTO.String(), "chan_timeout": h.m.ChanTO.String(), "default_lifetime": h.m.DefLife.String()})
}

// snapAll renders every allocation of every manager as a string keyed by listener|client address.
func (h *hist) snapAll() map[string]string {
	out := map[string]string{}
	for li, mgr := range h.w.Srv.VerifManagers() {
		snap, _, ok := mgr.VerifSnapshot()
		if !ok {
			return nil
		}
		for _, s := range snap {
			out[fmt.Sprintf("L%d|%s", li, s.Src)] = fmt.Sprintf("user=%s relay=%s tcp=%v fam=%d perms=%v chans=%v conns=%v", s.UserID, s.Relay, s.TCP, s.Family, s.Permissions, s.Channels, s.TCPConns)
		}
	}

	return out
}

// diffCheck: a request of one 5-tuple may change only that 5-tuple's state (no virtual time
// passes during a request, so nothing else can legitimately change).
func (h *hist) diffCheck(before, after map[string]string, actor *sim.RawClient, op string) {
	if before == nil || after == nil {
		return
	}
	ak := actor.Key()
	for k, v := range before {
		if k == ak {
			continue
		}
		if after[k] != v {
			h.rec.Violate("snap-cross-effect", op, "%s by %s changed the state of another 5-tuple %s: %q -> %q", op, actor.Name, k, v, after[k])
		}
	}
	for k, v := range after {
		if _, ok := before[k]; !ok && k != ak {
			h.rec.Violate("snap-cross-effect", op, "%s by %s created state for another 5-tuple %s: %q", op, actor.Name, k, v)
		}
	}
	h.rec.Ev("cross-effect-checks")
	h.rec.FP("crossfx/%s/others=%d", op, len(before))
}

var baseWeights = map[string]int{"allocate": 3, "refresh": 2, "refresh0": 1, "perm": 5, "chan": 5, "data": 8, "probe": 4, "time": 3, "closetcp": 1}

func weights(over map[string]int) map[string]int {
	out := map[string]int{}
	for k, v := range baseWeights {
		out[k] = v
	}
	for k, v := range over {
		out[k] = v
	}

	return out
}

// runRefreshRetransmitted: the answer to a Refresh is lost (the server's socket write fails), the
// client retransmits the same request one to three seconds later and is told LIFETIME n then:
// the allocation is there one second before that lifetime ends, counted from the answer the
// client got, and gone one second after it.
func runRefreshRetransmitted(t *testing.T, rng *rand.Rand, rec *sim.Rec, tier string, caseNo int) {
	cfg := sim.Config{
		Realm: "verif.test", Users: map[string]string{"alice": "pw-a"},
		UDPListeners: []*net.UDPAddr{{IP: sim.ServerIP4, Port: 3478}},
		Lifetime:     pick(rng, []time.Duration{0, 45 * time.Second, 25 * time.Minute}),
	}
	w, err := sim.NewWorld(cfg, rec, rng, true)
	if err != nil {
		t.Fatal(err)
	}
	defer w.Shutdown()
	m := sim.NewModel(w)
	c, err := w.NewUDPClient("c0", net.IPv4(10, 1, 0, 1).To4(), 5000, 0, "alice")
	if err != nil {
		t.Fatal(err)
	}
	if r := m.Allocate(c, sim.AllocOpts{}); r == nil || r.Class != wire.ClassSuccess {
		rec.Inconclusive("allocate failed")

		return
	}
	w.Sleep(time.Duration(1+rng.Intn(20)) * time.Second)
	n := uint32(pick(rng, []int{10, 30, 59, 600, 3599}))
	tid := w.NewTID()
	b := wire.NewBuilder(wire.MethodRefresh, wire.ClassRequest, tid)
	b.AddU32(wire.AttrLifetime, n)
	c.AddAuth(b)
	raw := b.Bytes()
	sock := w.ServerUDP[0]
	failed := false
	sock.SetWriteHook(func(p []byte, _ net.Addr) (int, error, bool) {
		if msg, err := wire.ParseSTUN(p); err == nil && msg.TID == tid && !failed {
			failed = true

			return 0, errors.New("injected: no buffer space available"), true
		}

		return 0, nil, false
	})
	m.Track(c, tid, wire.MethodRefresh)
	first := c.Exchange(raw, tid)
	sock.SetWriteHook(nil)
	if first != nil || !failed {
		rec.Inconclusive("the first answer was not lost")

		return
	}
	gap := time.Duration(2+rng.Intn(3)) * time.Second
	w.Sleep(gap)
	m.Retransmitted(c, tid)
	second := c.Exchange(raw, tid)
	m.Audit(nil)
	if second == nil || second.Class != wire.ClassSuccess {
		rec.Violate("refresh-unexpected", "retransmitted", "a Refresh retransmitted %v after its first answer was lost in the server's socket was answered %d", gap, codeOfMsg(second))

		return
	}
	lt, _ := second.Lifetime()
	if lt != n {
		rec.Violate("refresh-lifetime-rule", "retransmitted", "retransmitted Refresh(%d) answered LIFETIME %d", n, lt)
	}
	exists := func() bool {
		for _, mgr := range w.Srv.VerifManagers() {
			snap, _, _ := mgr.VerifSnapshot()
			if len(snap) > 0 {
				return true
			}
		}

		return false
	}
	w.Sleep(time.Duration(lt)*time.Second - time.Second)
	if !exists() {
		rec.Violate("alloc-expiry-early", "refresh-retransmitted", "the client was told LIFETIME %d by the answer to its retransmitted Refresh (%v after the first transmission); the allocation was gone 1 s before that lifetime ended", lt, gap)
	}
	w.Sleep(2 * time.Second)
	if exists() {
		rec.Violate("alloc-expiry-late", "refresh-retransmitted", "the allocation is still there 1 s after the LIFETIME %d of the last Refresh answer ended", lt)
	}
	rec.FP("refresh-retransmitted/gap=%v/lifetime=%d", gap, n)
	rec.SetSample(map[string]any{"kind": "refresh-retransmitted", "gap": gap.String(), "lifetime": n})
}

func histProp(cases map[string]int, k Knobs) PropDef {
	return PropDef{
		Bubble: true,
		Cases:  func(tier string) int { return cases[tier] },
		Run: func(t *testing.T, rng *rand.Rand, rec *sim.Rec, tier string, caseNo int) {
			if k.TCPRelayEvery > 0 && caseNo%k.TCPRelayEvery == k.TCPRelayEvery-1 {
				// the statement also covers TCP allocations (connect targets / inbound connections)
				runC16(t, rng, rec, tier, caseNo)

				return
			}
			if k.SlowConnectEvery > 0 && caseNo%k.SlowConnectEvery == k.SlowConnectEvery-2 {
				runSlowConnect(t, rng, rec, tier, caseNo)

				return
			}
			if k.SlowConnectEvery > 0 && caseNo%k.SlowConnectEvery == k.SlowConnectEvery-3 {
				runRefreshRetransmitted(t, rng, rec, tier, caseNo)

				return
			}
			newHist(t, rng, rec, k).run()
		},
	}
}

func init() {
	register("C01", histProp(map[string]int{"quick": 1500, "thorough": 150000}, Knobs{
		Clients: [2]int{1, 4}, TCPClients: [2]int{0, 1}, Peers: [2]int{2, 6}, Steps: [2]int{15, 40}, V6: 35, Deny: 60,
		TimeoutSets: defaultTimeouts, Lifetimes: defaultLifetimes, W: weights(map[string]int{"data": 10}), TCPAllocPct: 5, TCPRelayEvery: 12, Impostor: 35,
	}))
	register("C02", histProp(map[string]int{"quick": 1500, "thorough": 150000}, Knobs{
		Clients: [2]int{1, 4}, TCPClients: [2]int{0, 1}, Peers: [2]int{3, 6}, Steps: [2]int{15, 40}, V6: 35, Deny: 30,
		TimeoutSets: defaultTimeouts, Lifetimes: defaultLifetimes, W: weights(map[string]int{"data": 10, "probe": 6}), TCPAllocPct: 5, TCPRelayEvery: 10,
	}))
	register("C06", histProp(map[string]int{"quick": 1200, "thorough": 80000}, Knobs{
		Clients: [2]int{1, 3}, TCPClients: [2]int{0, 1}, Peers: [2]int{2, 3}, Steps: [2]int{12, 30}, V6: 15,
		TimeoutSets: [][3]time.Duration{{0, 0, 0}, {2 * time.Hour, 2 * time.Hour, 30 * time.Second}, {2 * time.Hour, 3 * time.Hour, 10 * time.Minute}, {90 * time.Minute, 2 * time.Hour, 45 * time.Minute}, {3 * time.Hour, 3 * time.Hour, 2 * time.Hour}, {0, 0, 45 * time.Second}, {0, 0, 25 * time.Minute}},
		Lifetimes:   defaultLifetimes, W: weights(map[string]int{"allocate": 5, "refresh": 8, "refresh0": 2, "probe": 10, "perm": 3, "chan": 2, "data": 3}), TCPAllocPct: 10,
		SlowConnectEvery: 30,
	}))
	register("C07", histProp(map[string]int{"quick": 1200, "thorough": 80000}, Knobs{
		Clients: [2]int{1, 2}, Peers: [2]int{2, 5}, Steps: [2]int{15, 35}, V6: 15,
		TimeoutSets: [][3]time.Duration{{0, 0, 4 * time.Hour}, {30 * time.Second, 2 * time.Minute, 4 * time.Hour}, {2 * time.Minute, 30 * time.Second, 4 * time.Hour}, {7 * time.Minute, 20 * time.Minute, 4 * time.Hour}, {20 * time.Minute, 7 * time.Minute, 4 * time.Hour}, {40 * time.Second, 0, 4 * time.Hour}, {0, 45 * time.Second, 4 * time.Hour}},
		Lifetimes:   []int64{-1, 3599, 3599, 90, 400}, W: weights(map[string]int{"allocate": 1, "refresh": 4, "refresh0": 0, "perm": 8, "chan": 8, "probe": 12, "data": 3, "time": 2, "twins": 2}),
	}))
}
