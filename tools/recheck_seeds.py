#!/usr/bin/env python3
"""recheck_seeds.py <lane> <lanes> — re-run every archived seeded change against the first check its
meta.json names (quick tier, scratch copy of /repo under /tmp, removed afterwards) and report the
ones that are no longer caught. Results: .build/recheck-<lane>.jsonl"""
import sys, os, json, glob, subprocess, tempfile, shutil
lane, lanes = int(sys.argv[1]), int(sys.argv[2])
seeds = sorted(glob.glob('/verif/seeded/*/meta.json'))
if os.environ.get('ONLY'):
    seeds = [m for m in seeds if ((json.load(open(m)).get('caught_by_checks') or [json.load(open(m))['property']])[0]) in os.environ['ONLY'].split(',')]
out = open(f'/verif/.build/recheck-{lane}.jsonl', 'w')
for i, mf in enumerate(seeds):
    if i % lanes != lane:
        continue
    meta = json.load(open(mf))
    d = os.path.dirname(mf)
    checks = meta.get('caught_by_checks') or [meta['property']]
    only = os.environ.get('ONLY')
    if only and checks[0] not in only.split(','):
        continue
    tmp = tempfile.mkdtemp(prefix='vre.', dir='/tmp')
    try:
        subprocess.run(['rsync', '-a', '--exclude', '.git', '/repo/', tmp + '/'], check=True)
        p = subprocess.run(['patch', '-p1', '-s'], stdin=open(os.path.join(d, 'patch.diff')), cwd=tmp, capture_output=True, text=True)
        if p.returncode != 0:
            out.write(json.dumps({'seed': meta['seed'], 'status': 'patch-failed'}) + '\n'); out.flush(); continue
        caught = None
        for c in checks[:2]:
            env = dict(os.environ, VERIF_REPO=tmp, VERIF_SCRATCH_TAG=os.path.basename(tmp), VERIF_SEED=os.environ.get('VERIF_SEED', '1'))
            r = subprocess.run(['./check', c, 'quick'], cwd='/verif', env=env, capture_output=True, text=True, timeout=3600)
            if r.returncode == 1:
                caught = c
                break
        out.write(json.dumps({'seed': meta['seed'], 'status': 'caught' if caught else 'MISSED', 'by': caught, 'tried': checks[:2]}) + '\n'); out.flush()
    finally:
        shutil.rmtree(tmp, ignore_errors=True)
        shutil.rmtree('/verif/.build/scratch-' + os.path.basename(tmp), ignore_errors=True)
