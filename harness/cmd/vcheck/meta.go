package main

import (
	"strings"
	"time"
)

type propMeta struct {
	Level            string
	Rule             string
	Assumptions      []string
	NonTrivial       func(fp string) bool
	CrashIsViolation bool
	RaceIsViolation  bool
	MaxWorkers       int
	Watchdog         map[string]time.Duration
	Exhaustive       func(tier string, events map[string]int) bool
}

var commonAssumptions = []string{
	"the network, relay sockets and time are simulated (simnet + testing/synctest virtual clock); real kernels/NICs are not exercised",
	"pion/turn is compiled from /repo's working tree by go1.26.8 with -race and -tags verif (hooks are read-only observers)",
	"outcomes within 0.5 s of a model expiry instant are treated as undetermined (MAY) and never counted as non-trivial",
	"runtime monitoring: the property held on the executions listed here, nothing is proved about executions not produced",
}

func notPrefix(prefixes ...string) func(string) bool {
	return func(fp string) bool {
		for _, p := range prefixes {
			if strings.HasPrefix(fp, p) {
				return false
			}
		}

		return true
	}
}

const histRule = "random multi-client/multi-peer TURN histories generated from PRNG(VERIF_SEED, case) in virtual time against a real turn.Server; " +
	"every data-plane submission gets a three-valued verdict from an independent reference model and every server emission is matched against them at the next quiescent point; " +
	"server timeouts come from full and from partial configurations (only one or two of PermissionTimeout / ChannelBindTimeout / AllocationLifetime set); one UDP Allocate in eight carries EVEN-PORT; one Refresh in six carries REQUESTED-ADDRESS-FAMILY (own family: must succeed; other family: either answer, applied as reported); a third of the TCP listeners are bound to the wildcard address; now and then the operator's permission handler starts to refuse (or re-admits) a peer host, after which live bindings of that host are refreshed deliberately; allocation callbacks call Server.AllocationCount; expiry probes stand 1 s or 600 ms from the instant (never within 0.8 s of another expiry), time steps may be sub-second; in a quarter of the histories the deletion callbacks are slow (yield storms under the library's locks) and channels are also bound two or three at one instant so that they expire together; in a third of the histories with a TCP client it sits on the host and port number of UDP client c0; while a slow permission-/channel-deleted callback runs, a Send indication, a datagram from an unbound port of that peer host and ChannelData on that number are submitted from inside it and must not be relayed; one Refresh/CreatePermission in eight and one ChannelBind in six of a UDP client has its answer fail in the server's socket write and is retransmitted with the same transaction id; before one data step in ten the server's socket fails once while relaying a peer's datagram to its client (the relay must go on); no permission-/channel callback may arrive later than the allocation-deleted callback of its 5-tuple; every peer has a stranger (a host no request ever names) sending from its port number; one Refresh 0 in three first binds three to five channels and is followed by one channel timeout of silence; after every other close of a TCP control connection a new connection comes from the same address and port and sends without allocating (nothing may be relayed); one ChannelBind in six and one CreatePermission in eight carries a LIFETIME attribute (which means nothing there); one Allocate in five on a free 5-tuple repeats the transaction id with which another 5-tuple of the same user made its live allocation; " +
	"a fingerprint is (operation, model reason class, transport, family/parameter class); non-trivial = "

var metaTable = map[string]propMeta{
	"C01": {Level: "exploration", Assumptions: commonAssumptions,
		Rule:       histRule + "data-plane or request fingerprints with a determinate (MUST) verdict other than 'no allocation at all'",
		NonTrivial: notPrefix("send/noalloc", "chandata/noalloc", "peer/norelay", "allocate/", "refresh/", "probe-expiry", "tcp-control")},
	"C02": {Level: "exploration", Assumptions: commonAssumptions,
		Rule: histRule + "peer->relay fingerprints (sender class x authorisation state x transport) with a MUST verdict, other than 'no such relay'",
		NonTrivial: func(fp string) bool {
			return (strings.HasPrefix(fp, "peer/") && !strings.HasPrefix(fp, "peer/norelay")) || strings.HasPrefix(fp, "inbound/")
		}},
	"C06": {Level: "exploration", Assumptions: commonAssumptions,
		Rule: histRule + "allocate/refresh fingerprints by lifetime class and outcome, expiry probes, and data-plane verdicts that depend on allocation liveness; every 30th case: another client's Connect is dialling a peer that takes 20 s (or 34 s: the dialled connection must be closed again when nobody binds it) while an allocation reaches its lifetime - it must end on time, stop relaying, the server must keep answering, the Connect completes; every 30th case: the answer to a Refresh is lost in the server's socket write, the same request is retransmitted 2-4 s later and answered LIFETIME n: the allocation is there 1 s before n seconds after that answer and gone 1 s after",
		NonTrivial: func(fp string) bool {
			return strings.HasPrefix(fp, "allocate/") || strings.HasPrefix(fp, "refresh/") || strings.HasPrefix(fp, "probe-expiry/alloc") || strings.Contains(fp, "alloc-dead")
		}},
	"C07": {Level: "exploration", Assumptions: commonAssumptions,
		Rule: histRule + "allocation lifetimes of 90 s / 400 s / 3599 s with frequent refreshes (a permission or channel must survive its allocation being refreshed), permission/channel install and refresh fingerprints, expiry probes of permissions and channels, and data-plane verdicts that depend on their liveness",
		NonTrivial: func(fp string) bool {
			return strings.HasPrefix(fp, "createperm/") || strings.HasPrefix(fp, "chanbind/") || strings.HasPrefix(fp, "probe-expiry/") || strings.Contains(fp, "perm-") || strings.Contains(fp, "chan-")
		}},
}

func init() {
	metaTable["C05"] = propMeta{Level: "exploration", Assumptions: commonAssumptions,
		Rule: "one authorised topology per case (client over UDP or a randomly segmented stream, inbound MTU in {default,512,1200,9000,70000}, one channel-bound peer, one permission-only peer, one other port of the bound IP); ; the real-client bursts run over UDP and (every other case) over a TCP control connection, where ChannelData must be padded on the wire; a few cases per run use operating-system loopback sockets: a real Server behind one UDP listener, clients on different loopback addresses (the second on the first one's source port), another client speaking last before each relayed datagram, which must come out at its owner and nowhere else; every fourth sweep case relays over IPv6; the real-client bursts include datagrams from a never-written-to port of the permitted host (Data indications only); half of the real-client cases run over UDP, a third of those lose the success response to the first ChannelBind (the server uses the channel for 200 ms before the client has seen it confirmed); over TCP every other case stalls the client's reading for 5 s against 4 KiB of flow-control window while the peer keeps sending; the UDP cases with a lost ChannelBind response write their first burst from four goroutines at once (multiset comparison); a third of the UDP cases put the server on a wildcard socket whose datagrams leave from another address than the one the client was configured with; every other TCP case issues one write of 65536-131073 bytes (nothing of it may reach anybody, the stream stays in step); a quarter of the datagrams toward the client are 1560-1600 bytes long (the largest the relay passes on: more than 1600 once framed); two times in three the client has also written to a second host, and the Data indications of unbound ports of both hosts queue up at the client before the application reads them" +
			"for each payload length four datagrams (Send, ChannelData, peer->relay via channel, peer->relay via indication) with contents from 6 classes (random, zeros, 0xFF, STUN-like, magic-cookie-prefixed, ChannelData-like) are submitted and the multiset of emissions is compared byte-for-byte with the submissions, attribution included; " +
			"thorough enumerates every length 0..1700 for each (transport, MTU) pair, quick samples boundary lengths; a fingerprint is (transport, length, content class); non-trivial = all of them (each carries four MUST/MAY-whole verdicts)",
		NonTrivial: func(fp string) bool { return strings.HasPrefix(fp, "len/") },
		Exhaustive: func(tier string, ev map[string]int) bool {
			return tier == "thorough" && ev["sweep-length-covered"] >= 1701*10
		},
	}
}

func init() {
	metaTable["C08"] = propMeta{Level: "exploration", Assumptions: commonAssumptions,
		Rule: "sweep cases offer each channel-number value once to ChannelBind against a standing state of two bound channels (thorough: all 65536 values; quick: range boundaries +-2 and random values) and probe the new binding in both directions; " +
			"history cases are random bind/re-bind/conflict/expiry/re-use sequences over a 16-number range on 1-4 clients; after every step the server's binding table (hook) is checked for uniqueness of numbers and peers and range, conflicts must be answered 400, repeats must succeed, and every ChannelData reaching a client must carry the number bound to its real source; " +
			"non-trivial = distinct (sweep range class x outcome) and (chanbind situation x response code) fingerprints, plus channel-related data-plane verdict classes",
		NonTrivial: func(fp string) bool {
			return strings.HasPrefix(fp, "sweep/") || strings.HasPrefix(fp, "chanbind/") || strings.HasPrefix(fp, "chandata/chan-") || strings.HasPrefix(fp, "peer/chan-")
		},
		Exhaustive: func(tier string, ev map[string]int) bool {
			return tier == "thorough" && ev["sweep-number-covered"] >= 65536
		},
	}
}

func init() {
	metaTable["C04"] = propMeta{Level: "exploration", Assumptions: append(append([]string{}, commonAssumptions...), "linearizability is checked with porcupine v1.3.0 on histories of at most ~50 operations; a checker timeout is counted as unknown, never as a verdict"),
		Rule: "4 of 5 cases: random histories with 3-8 clients sharing IPs/users/peers/channel numbers, half of the worlds with the same client address on two listeners; every emission is attributed to the submitting 5-tuple by the conservation monitor and a snapshot-diff monitor asserts that a request changes only the requester's allocation; ; a few cases per run use operating-system loopback sockets: a real Server behind one UDP listener, clients on different loopback addresses (the second on the first one's source port), another client speaking last before each relayed datagram, which must come out at its owner and nowhere else" +
			"1 of 5 cases: 6-12 TCP clients (one server goroutine each) issue Allocate/Refresh(0)/Refresh concurrently while AllocationCount is polled, and the recorded history is checked for linearizability against a sequential set model; " +
			"every 50th case: two real clients with RFC 6062 allocations behind one of the bundled relay address generators dial out one after the other - each peer sees the connection coming from that client's own relayed address; " +
			"non-trivial = distinct cross-effect fingerprints (operation x number of other allocations present), cross-client data-plane reason classes, and burst fingerprints (clients x whether operations really overlapped)",
		NonTrivial: func(fp string) bool {
			return strings.HasPrefix(fp, "crossfx/") || strings.HasPrefix(fp, "burst/") || strings.Contains(fp, "otherclient") || strings.HasPrefix(fp, "allocate/on-live")
		},
	}
}

func init() {
	metaTable["C19"] = propMeta{Level: "exploration", Assumptions: commonAssumptions,
		Rule: "per case a server with a listener of one kind (IPv4, IPv6, 0.0.0.0, [::]; strict or listener-derived family) plus a TCP listener, clients on IPv4 / IPv6 / IPv4-mapped source addresses and a quota-refused user run a random sequence of: Binding; 11 Allocate error paths; plain Allocate + reachability probe of the advertised relayed address + byte-identical retransmission (after 0..31 s) + a different Allocate on the live 5-tuple; identical transaction ids from two clients in one instant; EVEN-PORT/RESERVATION-TOKEN; ; every 50th case runs a real Server with the bundled port-range generator on operating-system loopback sockets, the range narrower than the number of raw clients: relayed addresses of live allocations must be distinct and inside the range, and a peer's datagram to each must come out at its owner (absence of that datagram is not a verdict: wall-clock); one user has an event-fed quota of one allocation (retransmission and second Allocate at quota); two clients share the source port on different hosts; an IPv4 client of a dual-stack [::] listener; EVEN-PORT also for an RFC 6062 relay; an authenticated Allocate that is never answered is reported; in the real-socket cases clients sit on different loopback addresses and another client speaks last before each relayed datagram (misdelivery is a verdict, absence is not); one retransmission in three follows a Refresh; Allocate with the all-zero transaction id on a live 5-tuple; one second Allocate in three on a live 5-tuple is signed by another user of the same socket; one UDP Allocate in six has its success response fail in the server's socket write: the retransmission must get that success; one reachability probe in four is repeated after the server's socket has failed once to pass a datagram on to the client; a lost reachability probe is a verdict of this check (relay-unreachable); after every other Binding step a response or indication of a random method (with no / an unknown required / an unknown optional / a USERNAME attribute) is sent to the server, which must not answer it; every third real-socket case: one client reserves a port with EVEN-PORT, two others present the RESERVATION-TOKEN one after the other (never the same relayed address for both; bundled none/static generators); one same-transaction-id step in three is two Allocates of one user from different 5-tuples (each gets its own allocation and addresses)" +
			"a monitor on every datagram the server writes checks transaction id, destination, method and answer count; state digests (hook snapshot + AllocationCount + open relay sockets + generator call count) are compared before/after every failed or repeated request; " +
			"non-trivial = distinct (situation x parameters x response code) fingerprints",
		NonTrivial: func(fp string) bool { return true },
	}
}

func init() {
	metaTable["C03"] = propMeta{Level: "exploration", Assumptions: append(append([]string{}, commonAssumptions...),
		"mutated-nonce cases are only run where a chance HMAC match is negligible (>= 8 HMAC bytes); validly signed future-dated nonces cannot be produced without the server key"),
		Rule: "5 of 6 cases: public server with a standing allocation+permission+channel of one user and an allocation of another; each round draws (method in Allocate/Refresh/CreatePermission/ChannelBind/Connect) x (state: own allocation / no allocation) x (16 credential defects) and asserts: not success, state digest (hook snapshot+count+open sockets) unchanged, relay behaviour unchanged (conservation monitor), 401/438 challenges immediately usable; sound requests serve as positive control; every 23rd case runs a server without AuthHandler; ; defect class guessable-key: MESSAGE-INTEGRITY computed with a key anybody can compute (empty key, 16 zero bytes, MD5(\"::\")) for unknown, known and empty user names; defective Allocate requests also go to the owner's live 5-tuple, two times in three repeating the transaction id of the Allocate that made it; every 20th case mints challenges on 3-5 listeners for many clients at once and uses each nonce immediately; one case in five uses an auth handler that returns no user ids; every 20th case the operator replaces the user's password / removes the account while the user holds an allocation (only the key returned now authenticates); a response whose method or transaction id does not answer any open request of its recipient is a violation here too; one case in three runs the three clients over TCP control connections; short nonces are also re-dated (minute count moved by -1/-25/-59/+1 with the MAC kept, and an expired nonce moved to now): all must be refused; defect key-of-another-realm (the request presents one realm and is signed with the user's key for the configured one; the operator's handler derives keys from the realm it is asked about); in one case in four the configured realm has capitals or blanks and every 401 challenge must announce it letter for letter; the other user whose valid credentials are tried on the owner's 5-tuple is bob or an account that differs from the owner's in capitals only (Alice, ALICE)" +
			"1 of 6 cases: internal/server.HandleRequest with NewNonceHash or NewShortNonceHash(n), n cycling 2..32: fresh accepted, other-instance rejected, 12 mutations rejected (n>=8), ages 30/59 min accepted and 62 min/3 h/25 h rejected in virtual time; " +
			"non-trivial = distinct (method,state,defect,response code) and (nonce impl, situation, code) fingerprints",
		NonTrivial: func(fp string) bool { return true },
	}
}

func init() {
	metaTable["C11"] = propMeta{Level: "exploration", CrashIsViolation: true,
		Assumptions: []string{
			"oracle = independent reference codec (package wire) written from the RFC 5766/6062/6156 layouts",
			"in-process calls of internal/proto codecs compiled from /repo's working tree with -race -tags verif",
			"contents of payloads/values other than the enumerated short strings are PRNG samples",
		},
		Rule: "enumerated sub-domains: all 65536 channel numbers x payload lengths {0..5,7,8} (+1500, 65535 for every 64th/8th number); every payload length 0..4159 (quick) / 0..65535 (thorough) x 3 numbers; raw buffers for header classes x declared-length x (actual-declared) in {-5,-1,0,1,2,3,7}; per attribute: typed round trips incl. full REQUESTED-TRANSPORT domain, all raw values of length 0..2 and random raw values of each length 3..64; every decoded ChannelData value is encoded again as it stands (Data aliases Raw) and then re-used for three other payloads without Reset (stale Length); for payloads of 64 KiB and more only the channel number on the wire is judged; " +
			"non-trivial fingerprint = (sub-domain slice) or (number class x declared/actual relation) or attribute name",
		NonTrivial: func(fp string) bool { return true },
		Exhaustive: func(tier string, ev map[string]int) bool {
			return ev["chan-number-covered"] >= 65536 && ev["attr-2byte-prefix-covered"] >= 256*11 && (tier != "thorough" || ev["chan-length-covered"] >= 65536)
		},
	}
}

func init() {
	metaTable["C10"] = propMeta{Level: "exploration", CrashIsViolation: true,
		Assumptions: []string{
			"oracle = independent reference framer (first two bits 00 -> STUN 20+length, 01 -> ChannelData 4+length padded to 4, else invalid)",
			"the stream is delivered through a scripted net.Conn that returns exactly the prescribed chunks; caller buffers are larger than any frame (70000 bytes)",
			"un-frameable bytes may be reported as an error immediately or only once 20 bytes have arrived - both satisfy 'error rather than data'",
		},
		Rule: "8 of 10 cases: a random sequence of 1-6 frames (STUN bodies aligned/unaligned, ChannelData payloads 0..1500 incl. 0-8 bytes and cookie-prefixed, numbers at range edges) optionally followed by an incomplete frame or un-frameable bytes, fed whole, byte-at-a-time, with every single cut and (thorough: every, quick: 1/12 of the) pair of cuts when the stream is <= 200 bytes, and 25 random multi-cut segmentations; each ReadFrom result is compared with the reference frame list, promptness is judged on the number of Reads consumed; ; a third of the random segmentations have one or two reads that time out without consuming anything (the caller reads again); every stream ends with STUNConn.Close, also mid-frame; tails include complete ChannelData messages whose number lies in 0x8000-0xFFFF; two concurrent BindConnection calls on one allocation whose replies arrive interleaved inside the 20-byte header; every fifth stream case reads with a caller buffer of 1600/1500/576/128/24 bytes: a frame that does not fit is lost (or ends the stream with an error) but the frames behind it arrive intact, promptness is judged on the segments touched; a sixth of the random segmentations have one or two reads that return (0, nil); after every tail of bytes that cannot begin a frame, the same stream is continued with two more frames in later segments: the error must be reported before the last segment is read and nothing of what follows may come out as data" +
			"1 of 10: length fields 0xFFE0..0xFFFF for both frame kinds incl. header-only prefixes; 1 of 10: client BindConnection over success/error replies cut at every position with trailing application bytes; " +
			"non-trivial = distinct (frame count, tail kind, small/large) / (kind, extreme length) / (bind outcome, trailing bytes) fingerprints",
		NonTrivial: func(fp string) bool { return true },
		Exhaustive: func(tier string, ev map[string]int) bool { return false },
	}
}

func init() {
	metaTable["C09"] = propMeta{Level: "exploration", CrashIsViolation: true, Assumptions: append(append([]string{}, commonAssumptions...),
		"inputs are PRNG samples and structured mutations, not all byte strings; TLS listeners are not driven (the TLS record layer sits below the framing under test)",
		"'never blocks indefinitely' is decided as: the virtual-time bubble becomes quiescent after each input (or the child is killed by the wall-clock watchdog and reported as hang with a goroutine dump)"),
		Watchdog: map[string]time.Duration{"quick": 6 * time.Minute, "thorough": 60 * time.Minute},
		Rule: "server cases: 200 hostile inputs per case (random, every 2-bit prefix x length-field extreme, ChannelData shapes, well-formed messages of every method/class signed or unsigned, signed-then-mutated, malformed-then-signed) delivered as UDP datagrams or as a TCP stream under random segmentation from a party that holds valid credentials, with a liveness probe after every 25 inputs (Binding from attacker and bystander, authenticated Refresh, relay both ways through a bystander's permission and channel, bystander snapshot unchanged, no mutex held); ; 3 of 40 cases: a real client against a scripted server that answers every Allocate / CreatePermission / ChannelBind with 438 and a fresh nonce for ever: each API call must give up after a bounded number of requests; 2 of 40 cases: a real client over a TCP control connection is fed garbage / cookie-less STUN / valid-then-garbage / truncated-then-EOF / out-of-range channel frames; stream inputs include maximum-length ChannelData and STUN frames (larger than the client's read buffer); 1 of 40 cases wraps the listener in TLS (crypto/tls over the simulated stream): parties that connect and send nothing, a few bytes, a record header, the start of a ClientHello or garbage linger while an honest party's Binding over TLS must still be answered; client state 'stun-only' (no TURN server configured); 1 of 40 cases: a scripted server whose Allocate and Refresh successes carry LIFETIME 0 / 1 / 2 / 2^31 / 2^32-1: the client survives, sends at most 100 Refresh requests in 10 s and completes a follow-up transaction; lifetimes now also 30/59/60/61/119/120/600/3600 (2 of 40 cases); one liveness probe in three loses its first transmission and completes through a retransmission; one input in twelve is a well-formed request under a valid MESSAGE-INTEGRITY whose NONCE the sender made up (empty, one or two characters, not base36, 128/763 characters, the server's own nonce cut, extended, lower-cased or with one character changed)" +
			"client cases: datagrams handed to Client.HandleInbound in several client states with a blocked-call detector, the documented (handled, error) table as classifier and a follow-up transaction; " +
			"a crash with pion/turn frames, a busy loop (log-call budget) or a hang is a violation; non-trivial = distinct (transport, input class, length bucket) and (client state, input class) fingerprints",
		NonTrivial: func(fp string) bool { return true },
	}
}

func init() {
	metaTable["C12"] = propMeta{Level: "fault_enumeration", Assumptions: []string{
		"real turn.Client inside a testing/synctest bubble against a scripted server on a zero-latency in-memory network; instants are virtual and exact",
		"the loss of a transmission is modelled at the server (it arrives and is ignored), so all transmissions are observable",
		"responses are never placed exactly on a retransmission instant (ties are undetermined); +-1 ms offsets are used instead",
		"go1.26.8 -race -tags verif build of /repo's working tree",
	},
		Rule: "fault enumeration over the 7 transmissions: every one of the 2^7 subsets of lost transmissions (quick: one response-delay policy and RTO per subset drawn from the PRNG; thorough: x 5 delay policies {0, half gap, next timer-1ms, next timer+1ms, after the schedule} x 7 RTOs), plus sampled cases of foreign-id/duplicate/late/echoed responses, 2-8 concurrent transactions with permuted answers, Client.Close after each transmission index, a write error on each transmission index, and a response delivered from inside the client's own WriteTo; ; plus (1 of 8 sampled cases) a response injected while retransmission k is being written under the client's transaction lock, the write then failing (2 of 3) or succeeding: exactly-once completion at the k-th schedule instant, no second result, lock probes, and a follow-up transaction that itself needs a retransmission; one case in three addresses its transactions to a host other than the configured TURN/STUN server; after a fire-and-forget call has returned the caller builds its next request in the same message value; Client.Close during the write of transmission k (k = 0 is the caller's own first write), the write then failing or succeeding: the call returns once with an error, Close returns; noise and concurrent cases use transaction ids that differ from an open one in a single bit or byte; in a quarter of the cases the scripted answers are error responses (codes 300-699): they complete a transaction like any response; one sampled case in nine runs the whole turn.Client (Listen, Allocate with its 401 round, WriteTo to 1-4 peers, a Binding request, Close) on a network that delivers every response a second time 20-400 ms later while the Allocate success is held back longer than that: Allocate and the Binding request succeed with what the server answered to them, no two different requests on the wire carry the same transaction id, the table is empty afterwards" +
			"oracle: arrival offsets must equal the arithmetic schedule (RTO doubling, 1.6 s cap), count and return instant exact, identity tag of the first matching response, empty transaction table (hook) afterwards; non-trivial = distinct (situation, parameters, RTO) fingerprints",
		NonTrivial: func(fp string) bool { return true },
		Exhaustive: func(tier string, ev map[string]int) bool { return ev["loss-subset-covered"] >= 128 },
	}
}

func init() {
	metaTable["C13"] = propMeta{Level: "exploration", Assumptions: []string{
		"real turn.Client and its relayed PacketConn inside a virtual-time bubble against a scripted TURN server on a zero-latency in-memory network",
		"happens-before is taken from the server's wire log: a response counts as delivered when it is handed to the client's socket",
		"server-side expiry of permissions is not modelled here (the statement is about the client's ordering obligations); go1.26.8 -race -tags verif build",
	},
		Rule: "per case 1-12 peers (every 17th case 64-263, one thorough case 16384), several sharing an IP; a random sequence of sequential and concurrent WriteTo, inbound Data indications / ChannelData on known and unknown channels (some payloads starting with the magic cookie), read-deadline probes, virtual-time jumps across the permission/binding refresh timers, 1100-datagram bursts without a reader, Close; server reactions to CreatePermission/ChannelBind drawn from {success, 400, 403, 438 with fresh nonce (1-4 in a row), silence}; every 7th case: a TCP allocation receives 5-40 ConnectionAttempt indications nobody accepts, followed by a liveness transaction; ; every 20th case: first-writer stampede (6 goroutines released together make the first WriteTo to each of 150/600 new peers); deadline setters are re-armed after a consumed timeout and moved before expiry, each call under a virtual-time watch; before Close a reader is blocked in ReadFrom, one time in three the socket toward the server fails from then on; half of the UDP cases allocate a second time on the same client; every 30th case is the real-server end-to-end case of C05 (UDP and TCP control connection); one Close in three races with a Client.CreatePermission answered 300 ms late and an inbound datagram; the stampede case (every 20th) ends with five writes to a link-local IPv6 peer named with its zone: one binding, one channel number; every other UDP case an empty datagram reaches the client's socket right after Allocate (from the server's address or a stranger's); half of the op-5 steps let two strangers on different hosts speak in turn and answer each at the very address value ReadFrom reported; every 7th case refuses every ChannelBind with 403 while writes go on for more than a binding refresh interval (no ChannelData on an unconfirmed number); every 5th case the peers are IPv6 hosts of one prefix; one liveness probe in three needs a retransmission; some steps call the public Client.CreatePermission for a peer (the scripted server may refuse or stay silent) and write to that peer next" +
			"oracle: ordering over the wire log (no Send/ChannelData before the matching success was delivered, payload tag names the peer it was written for), uniqueness/range of channel numbers on the wire and in the hooked binding table, FIFO equality of ReadFrom results with what was relayed, deadlines at exact virtual instants; non-trivial = distinct operation/outcome fingerprints",
		NonTrivial: func(fp string) bool { return true },
	}
}

func init() {
	metaTable["C14"] = propMeta{Level: "exploration", Assumptions: append(append([]string{}, commonAssumptions...),
		"'indefinitely' is restated as bounded: every probe is delivered for 3 h (quick) / up to 48 h (thorough) of virtual time; no finite run decides an unbounded duration",
		"the fault plan drops at most the first two request copies and responses to the first three copies of a transaction, so every transaction keeps a request and a response; data probes are never dropped"),
		Rule: "real turn.Client <-> real turn.Server over the simulated network for 3 h (48 h for every 25th thorough case) of virtual time; 1-8 peers; traffic pattern in {continuous, bursts, idle 7 min, idle 40 min, idle 3 h, mixed}; server timeouts from 6 configurations compatible with the client's refresh cadence; 2 of 3 runs with loss/duplication/reordering of control transactions; at every probe instant one tagged datagram per direction and peer must arrive with the right source/attribution and AllocationCount must be 1; after Close it must be 0; ; every 7th case is the same promise for an RFC 6062 relay (client over TCP, AllocateTCP): 3 virtual hours of DialTCP / AcceptTCP probes with echo in both directions (the peer is dialled first so that its permission is one the client tracks), AllocationCount == 1 at every probe, 0 after Close; every 4th UDP run requests an IPv6 relay over the IPv4 path; every 5th run the application stops reading for 15 minutes while a peer floods 1500 datagrams; every 10th run uses the tightest compatible timeouts through the hourly nonce rollover; one run in two starts with a write to a host the permission handler refuses; every probe round includes a datagram from a never-written-to port of a permitted host; every 10th run sets PermissionRefreshInterval to 30 s against a 70 s server timeout; a third of the lossy runs additionally let one transaction in eight through only on its last (7th) transmission, 12.6 s after the first; every third probe round an empty datagram from a stranger reaches the client's socket first; every other run ends with a second Allocate on the same client and four probe rounds to a new peer over up to 20 minutes; two configurations set only a short AllocationLifetime (90 s, 3 min); half of the second allocations are followed by another Close of the first socket" +
			"non-trivial = distinct (pattern, peers, lossy, timeout configuration) runs",
		NonTrivial: func(fp string) bool { return true },
	}
}

func init() {
	metaTable["C16"] = propMeta{Level: "exploration", Assumptions: append(append([]string{}, commonAssumptions...),
		"TCP between client/peer and server is a simulated reliable byte stream with PRNG-chosen read segmentation (except the 1-in-100 loopback case, which uses the kernel's TCP)",
		"a client that pipelines application data behind ConnectionBind before its success response is outside RFC 6062 and not generated"),
		Rule: "1-3 TCP allocations on TCP control connections; random sequences of Connect (listening peer / nobody listening / duplicate), inbound peer connections from permitted and unpermitted IPs, ConnectionBind on fresh data connections (right, wrong id, wrong user, repeated; at <=29 s and >=31 s), byte streams of 0..64 KiB both ways under random segmentation, closes from either side, jumps to 29 s / 31 s after creation; after duplicate Connect, ConnectionBind and close steps the manager locks must be free (hook) and an authenticated Refresh must be answered; ; the real-client cases draw the relay sockets from the harness' ledger generator or from pion/turn's own Static / PortRange / None generators (over the simulated transport.Net) and compare the address the peer sees with the relayed address; peers send a greeting before the client has bound the data connection (it must be the first bytes read); every 25th case: another client's allocation reaches its lifetime while a Connect dials a peer that takes 20 s; unpermitted inbound connections preferably come from hosts the allocation connected to; bound pairs stay in use for 10-21 minutes with the allocation refreshed; peers that refused connections start listening later; Connect on a second control connection of the same user that holds no allocation; in half of the slow-Connect cases the Connect's own allocation expires during the dial" +
			"one pipe step in three stalls the receiving side for 7/12/40 s behind a 4 KiB window while 20-200 kB are sent to it: everything arrives afterwards, the pair stays open; " +
			"every other raw case hands the server bare net.Conn values (no ReadFrom/WriteTo: the relay's copy loops use their own buffers); every other real-client case a second client has allocated and dialled out through the same generator before; " +
			"one case in a hundred uses operating-system TCP sockets on loopback in real time: real server with the Static or None generator, real client over a TCP control connection, DialTCP to a peer that reads through a 16 KiB receive buffer with 0-2 ms pauses; the client writes 64 KiB / 1 MiB / 3 MiB and closes at once: the peer reads every byte, unchanged, then a clean end of stream (wall-clock waits of 60-90 s are watchdogs: inconclusive when they fire); " +
			"oracle: model of peer connections (id, peer, age, bound) + byte-for-byte stream comparison at quiescent points; non-trivial = distinct (operation, situation, response code) fingerprints",
		NonTrivial: func(fp string) bool { return true },
	}
}

func init() {
	metaTable["C15"] = propMeta{Level: "fault_enumeration", Assumptions: append(append([]string{}, commonAssumptions...),
		"teardown exactly on a timer instant (tie) is excluded here; C18 explores ties for crashes and races only",
		"extra Close calls on an already closed simulated socket are counted but not judged (closing twice is harmless for net.Conn); lifecycle events must be exactly-once"),
		Rule: "fault enumeration over (history prefix x teardown cause x slow callback): a random base history of 3-12 steps (UDP/TCP allocations on UDP and TCP listeners, permissions, channels, data) is followed by one teardown cause from {expiry, Refresh 0, control-connection close, relay read error, relay accept error, relay write error, Server.Close}, in 6 of 8 cases while one of the 6 created/deleted callbacks sleeps 1-5 virtual seconds, then re-allocation, Server.Close and two more virtual hours; ; teardown cause relay-closed-underneath (the relay socket/listener is closed under the server); every 40th case an allocation expires while its own Connect is still dialling and the dialled connection must be closed within 60 s; Server.Close during a slow allocation-created callback; one Allocate in five of the base histories asks for LIFETIME 0; every other Server.Close happens while permitted peers keep sending to the relayed addresses" +
			"after every step: relay-socket ledger vs model, created/deleted event pairing per allocation/permission/channel and against the hooked state, armed-timer hook on closed allocations, goroutine census by function vs live allocations/listeners/control connections, AllocationCount; after Server.Close: nothing open, no library goroutine, no event/log line/datagram for two hours; non-trivial = distinct (cause, slow callback) pairs",
		NonTrivial: func(fp string) bool { return strings.HasPrefix(fp, "teardown/") },
	}
}

func init() {
	metaTable["C17"] = propMeta{Level: "exploration", Assumptions: []string{
		"generators and handlers read time.Now inside a testing/synctest bubble; the boundary is the Unix second stamped in the username (valid while now <= expiry)",
		"oracle = own HMAC-SHA1 / MD5 computation; go1.26.8 -race build of /repo's working tree",
	},
		Rule: "9 of 10 cases: (generator/handler pair in {long-term, TURN REST}) x secret x user name x realm x duration in {-1h,-1s,0,1s,5s,1min,1d} at a PRNG-chosen clock instant; the handler is called at every second of [expiry-5 s, expiry+5 s] plus +1 h and +400 d, each time checking ok == (now <= expiry), key == MD5(username:realm:HMAC password), user id, MESSAGE-INTEGRITY of a message signed with the issued / a mutated / another-secret / another-username password, 6 single-character username mutations, 9 malformed timestamps and the cross-format pairing; ; every 5th case additionally calls one handler value from 8 goroutines x 1500 calls (distinct valid users) and compares every returned key with the caller's own reference; end-to-end cases draw realms with upper case, non-ASCII letters and percent signs and user names with colons and spaces; handler calls carry a random request method; durations with a sub-second part; the end-to-end case re-uses a credential after its expiry on a server that accepted it before; durations up to the year-2100 horizon and beyond 32-bit seconds; user names up to 500+ bytes; a third of the cases use secrets of 19/20/21/63/64/65/127/128/129/1000 bytes (around the digest and block sizes of HMAC-SHA1); end-to-end user names include no-break, thin, narrow and ideographic spaces and accented letters; the server's realm may be empty; the client is configured with the server's realm, with none, or with another one (the challenge decides)" +
			"1 of 10: Allocate with a real client through a real server 2 s before and just after expiry; non-trivial = distinct (pair, duration, validity, offset) fingerprints",
		NonTrivial: func(fp string) bool { return true },
	}
}

func init() {
	metaTable["C20"] = propMeta{Level: "exploration", CrashIsViolation: true, Assumptions: []string{
		"9 of 10 cases run the generators over a simulated transport.Net that refuses to bind a UDP or TCP port already in use and knows no socket options; every 10th case uses operating-system loopback sockets (Linux semantics of SO_REUSEADDR/SO_REUSEPORT; that is where known finding K2 - TCP relay listeners share ports - is observed on every run)",
		"the random source is scripted (always 0, always n-1, n/2, fixed sequences, PRNG); go1.26.8 -race build of /repo's working tree",
	},
		Rule: "per case one generator (port-range / static / pass-through) on IPv4 or IPv6 with (MinPort,MaxPort) drawn from boundary values {1,2,1023,1024,32767,32768,49152,65534,65535}, random pairs, single-port and tiny ranges, MaxRetries in {1,2,10,default}; 10-40 steps of allocate (UDP or TCP, with no / a free / an occupied requested port), close, and outsiders occupying ports of the range; every (conn, advertised address, error) is checked: advertised IP and port, range membership, requested port honoured, no port handed out twice, errors only when binding was impossible, Intn argument = range size, clean failure when the whole range is bound; ; every 10th case runs a generator over operating-system loopback sockets (udp4/tcp4/udp6/tcp6): after one allocation is live, asking for its port again (or, single-port range, for any port) must not produce a second socket on it - socket options such as SO_REUSEPORT only mean something there" +
			"every 10th case puts the port-range generator (range of 1-7 ports) behind a running server: plain, EVEN-PORT (with and without the reserve bit) and TCP Allocates must be given the configured relay IP, a port inside the range (even when EVEN-PORT was asked for) and never a port a live allocation of the same transport holds; a refusal while every port of the range is free is a violation (also for the bare generator, ranges up to 4096 ports), every other such case gives the TCP listener a generator of its own (another relay address and range) that its clients' allocations must come from; non-trivial = distinct (generator, network, requested?, outcome, single-port?, max=65535?) fingerprints",
		NonTrivial: func(fp string) bool { return true },
	}
}

func init() {
	metaTable["C18"] = propMeta{Level: "exploration", CrashIsViolation: true, RaceIsViolation: true, MaxWorkers: 8,
		Watchdog: map[string]time.Duration{"quick": 8 * time.Minute, "thorough": 90 * time.Minute},
		Assumptions: []string{
			"the Go race detector only reports races on executions that happen; reports vary from run to run, so stress cases are repeated with different PRNG streams",
			"in the virtual-time bubble a harness callback may only sleep where the library holds no mutex (a goroutine waiting for a mutex is not durably blocked for testing/synctest and would freeze the clock); callbacks invoked under a lock yield the processor 300 times instead; real-time stress cases have no such restriction",
			"'all control-flow paths of every function that takes a mutex' is covered dynamically only: lock probes (TryLock hooks) run after every step of every workload; paths no workload reaches are not judged",
			"go1.26.8 -race -tags verif build of /repo's working tree; every other property's check also runs under -race and reports race counts in its evidence",
		},
		Rule: "1 of 7 cases: real-time stress for 0.5 s (thorough 1.5 s) - 6-15 UDP and 2-7 TCP scripted clients issue Allocate/Refresh/Refresh 0/CreatePermission/ChannelBind/Send/ChannelData in tight loops against lifetimes of 20-200 ms and permission/channel timeouts of 5-50 ms, 4 peers flood every relay, AllocationCount is polled, lifecycle callbacks are randomly slow, Server.Close races with traffic in half of the cases; 1 of 7: concurrent Allocate/Refresh bursts on a TCP listener with linearizability check; 5 of 7: forced schedules in virtual time - one of 7 yield points (permission-created / allocation-deleted callback, auth handler, permission handler, relay generator, listener socket write, or an exact tie) is slow across the allocation / permission / channel expiry while the triggering request is in flight and traffic keeps arriving; ; 1 of 9 cases: an RFC 6062 allocation (or two) with 2-4 permitted peers is torn down by Refresh 0 / control-connection close / expiry / Server.Close while its permission-deleted callbacks are slow and every peer connects to every relayed address during each of those callbacks (relay accept path vs teardown path on the allocation and manager locks); lock probes and a bystander's Refresh afterwards; forced schedule tie-bind: a ChannelBind that must create the permission of a new peer (slow permission-created callback) lands on the allocation's expiry instant; client cases include Close during a (first or repeated) transmission's socket write; every 18th case (real time): TCPAllocation.Close of the real client against four peers that keep connecting to its relayed address (ConnectionAttempt delivery vs Close), six rounds with re-allocation; every 27th case is the slow-Connect case (a dial that takes 20 s while another allocation expires and a bystander keeps working); the TCP allocation case sets two deadlines on the accepting side per round (one expiring while Accept waits, one set to now from another goroutine after Accept was re-entered): each must make Accept return" +
			"oracles: race detector reports, process survival, hang watchdog, manager lock probes, bystander liveness, cross-delivery tags, goroutines left blocked; non-trivial = distinct (kind, yield point, timer) fingerprints",
		NonTrivial: func(fp string) bool { return true },
	}
}
