// Package sim runs a real pion/turn server (and optionally real clients) on top of simnet and
// provides scripted actors, an independent reference model of TURN and the monitors that
// compare what the real code emits with what the model allows.
package sim

import (
	"fmt"
	"math/rand"
	"net"
	"runtime"
	"strings"
	"sync"
	"testing/synctest"
	"time"

	"github.com/pion/logging"
	"github.com/pion/turn/v5"
	"github.com/pion/turn/v5/verifharness/simnet"
)

// ---------------------------------------------------------------- logger

// LogLine is one captured log call.
type LogLine struct {
	At     time.Time
	Level  string
	Format string
	Text   string
}

// LogSink captures everything the library logs. The logger is also one of the yield points
// the harness uses to stretch windows between critical sections (OnLog).
type LogSink struct {
	mu     sync.Mutex
	Counts map[string]int // "L:format" -> count
	Lines  []LogLine      // level >= Info, capped
	Total  int
	// OnLog, when set, is called (outside the sink's lock) for every log call.
	OnLog     func(level, format string)
	KeepDebug bool
	// Budget, when > 0, is the maximum number of log calls of one case: a busy loop in the library
	// logs on every turn, so exceeding the budget panics with the spinning goroutine's stack.
	Budget int
}

// NewLogSink creates a sink.
func NewLogSink() *LogSink { return &LogSink{Counts: map[string]int{}} }

func (s *LogSink) log(level, format string, args ...any) {
	s.mu.Lock()
	s.Total++
	s.Counts[level+":"+format]++
	if (level != "D" && level != "T") || s.KeepDebug {
		if len(s.Lines) < 2000 {
			s.Lines = append(s.Lines, LogLine{At: time.Now(), Level: level, Format: format, Text: fmt.Sprintf(format, args...)})
		}
	}
	cb := s.OnLog
	over := s.Budget > 0 && s.Total > s.Budget
	s.mu.Unlock()
	if over {
		panic(fmt.Sprintf("verif: log-call budget exceeded (%d calls) - the library is busy-looping; last format %q", s.Total, format))
	}
	if cb != nil {
		cb(level, format)
	}
}

// Count returns how many times a format string containing sub was logged.
func (s *LogSink) Count(sub string) int {
	s.mu.Lock()
	defer s.mu.Unlock()
	n := 0
	for k, v := range s.Counts {
		if strings.Contains(k, sub) {
			n += v
		}
	}

	return n
}

// TotalCalls returns the number of log calls so far.
func (s *LogSink) TotalCalls() int {
	s.mu.Lock()
	defer s.mu.Unlock()

	return s.Total
}

type simLogger struct{ s *LogSink }

func (l simLogger) Trace(msg string)          { l.s.log("T", "%s", msg) }
func (l simLogger) Tracef(f string, a ...any) { l.s.log("T", f, a...) }
func (l simLogger) Debug(msg string)          { l.s.log("D", "%s", msg) }
func (l simLogger) Debugf(f string, a ...any) { l.s.log("D", f, a...) }
func (l simLogger) Info(msg string)           { l.s.log("I", "%s", msg) }
func (l simLogger) Infof(f string, a ...any)  { l.s.log("I", f, a...) }
func (l simLogger) Warn(msg string)           { l.s.log("W", "%s", msg) }
func (l simLogger) Warnf(f string, a ...any)  { l.s.log("W", f, a...) }
func (l simLogger) Error(msg string)          { l.s.log("E", "%s", msg) }
func (l simLogger) Errorf(f string, a ...any) { l.s.log("E", f, a...) }

// NewLogger implements logging.LoggerFactory.
func (s *LogSink) NewLogger(string) logging.LeveledLogger { return simLogger{s} }

// ---------------------------------------------------------------- lifecycle events

// LifeEvent is one EventHandler callback.
type LifeEvent struct {
	At    time.Time
	Kind  string // alloc+ alloc- perm+ perm- chan+ chan- auth error
	Net   string // network of Src ("udp", "tcp"): a UDP and a TCP client may share host and port number
	Src   string
	Dst   string
	User  string
	Relay string
	Peer  string
	Num   uint16
	Text  string
	OK    bool
}

// ---------------------------------------------------------------- relay generator

// Resource is one socket/listener/connection handed to the server by the relay generator.
type Resource struct {
	Kind string // "udp" "listener" "conn"
	Addr string // relay address (ip:port) - for conn: local address
	Peer string // for conn: remote
	User string
	At   time.Time
	UDP  *simnet.UDPConn
	L    *simnet.Listener
	C    *simnet.Conn
}

// Open reports whether the resource is still open.
func (r *Resource) Open() bool {
	switch r.Kind {
	case "udp":
		return !r.UDP.Closed()
	case "listener":
		return !r.L.Closed()
	default:
		return !r.C.Closed()
	}
}

// RelayGen is the harness' RelayAddressGenerator.
type RelayGen struct {
	W   *World
	IP4 net.IP
	IP6 net.IP
	mu  sync.Mutex
	Res []*Resource
	// FailNext[kind] > 0 makes the next calls of that kind fail.
	FailNext map[string]int
	Calls    map[string]int
	// NextPort, when non-zero, is used (once) as the port of the next relay socket when none is requested.
	NextPort int
	// Delay is slept inside each generator call (virtual time) - a yield point.
	Delay time.Duration
	// DelayKind is slept inside generator calls of one kind ("udp", "listener", "conn") only.
	DelayKind map[string]time.Duration
	// CloseNoticeDelay: relay UDP sockets report their own Close to a blocked reader this late.
	CloseNoticeDelay time.Duration
}

// Validate implements turn.RelayAddressGenerator.
func (g *RelayGen) Validate() error { return nil }

func (g *RelayGen) pre(kind string) error {
	g.mu.Lock()
	g.Calls[kind]++
	fail := g.FailNext[kind] > 0
	if fail {
		g.FailNext[kind]--
	}
	d := g.Delay + g.DelayKind[kind]
	g.mu.Unlock()
	if d > 0 {
		time.Sleep(d)
	}
	if fail {
		return simnet.ErrInjected
	}

	return nil
}

func (g *RelayGen) ipFor(network string) net.IP {
	if strings.HasSuffix(network, "6") {
		return g.IP6
	}

	return g.IP4
}

func (g *RelayGen) port(requested int) int {
	if requested != 0 {
		return requested
	}
	g.mu.Lock()
	defer g.mu.Unlock()
	p := g.NextPort
	g.NextPort = 0

	return p
}

// AllocatePacketConn implements turn.RelayAddressGenerator.
func (g *RelayGen) AllocatePacketConn(conf turn.AllocateListenerConfig) (net.PacketConn, net.Addr, error) {
	if err := g.pre("udp"); err != nil {
		return nil, nil, err
	}
	c, err := g.W.Net.ListenUDP(g.ipFor(conf.Network), g.port(conf.RequestedPort))
	if err != nil {
		return nil, nil, err
	}
	c.CloseNoticeDelay = g.CloseNoticeDelay
	g.mu.Lock()
	g.Res = append(g.Res, &Resource{Kind: "udp", Addr: c.Addr().String(), User: conf.UserID, At: time.Now(), UDP: c})
	g.mu.Unlock()
	g.W.markServerSock(c)

	return c, c.LocalAddr(), nil
}

// AllocateListener implements turn.RelayAddressGenerator.
func (g *RelayGen) AllocateListener(conf turn.AllocateListenerConfig) (net.Listener, net.Addr, error) {
	if err := g.pre("listener"); err != nil {
		return nil, nil, err
	}
	l, err := g.W.Net.ListenTCP(g.ipFor(conf.Network), g.port(conf.RequestedPort))
	if err != nil {
		return nil, nil, err
	}
	g.mu.Lock()
	g.Res = append(g.Res, &Resource{Kind: "listener", Addr: l.TCPAddr().String(), User: conf.UserID, At: time.Now(), L: l})
	g.mu.Unlock()
	if g.W.Cfg.PlainConns {
		return plainListener{l}, l.Addr(), nil
	}

	return l, l.Addr(), nil
}

// AllocateConn implements turn.RelayAddressGenerator.
func (g *RelayGen) AllocateConn(conf turn.AllocateConnConfig) (net.Conn, error) {
	if err := g.pre("conn"); err != nil {
		return nil, err
	}
	la, ok := conf.LocalAddr.(*net.TCPAddr)
	if !ok {
		return nil, fmt.Errorf("relaygen: local addr %T", conf.LocalAddr)
	}
	ra, ok := conf.RemoteAddr.(*net.TCPAddr)
	if !ok {
		return nil, fmt.Errorf("relaygen: remote addr %T", conf.RemoteAddr)
	}
	c, err := g.W.Net.DialTCP(la.IP, la.Port, ra)
	if err != nil {
		return nil, err
	}
	g.mu.Lock()
	g.Res = append(g.Res, &Resource{Kind: "conn", Addr: la.String(), Peer: ra.String(), User: conf.UserID, At: time.Now(), C: c})
	g.mu.Unlock()
	if g.W.Cfg.PlainConns {
		return plainConn{c}, nil
	}

	return c, nil
}

// plainConn / plainListener hide everything but the net.Conn / net.Listener methods of the
// simulated sockets (no io.ReaderFrom, no io.WriterTo), the way a *tls.Conn or any wrapping
// transport does: io.Copy then works through its own buffer.
type plainConn struct{ net.Conn }

type plainListener struct{ net.Listener }

func (l plainListener) Accept() (net.Conn, error) {
	c, err := l.Listener.Accept()
	if err != nil {
		return nil, err
	}

	return plainConn{c}, nil
}

// Resources returns a copy of the ledger.
func (g *RelayGen) Resources() []*Resource {
	g.mu.Lock()
	defer g.mu.Unlock()

	return append([]*Resource{}, g.Res...)
}

// SetDelayKind makes generator calls of one kind slow.
func (g *RelayGen) SetDelayKind(kind string, d time.Duration) {
	g.mu.Lock()
	if g.DelayKind == nil {
		g.DelayKind = map[string]time.Duration{}
	}
	g.DelayKind[kind] = d
	g.mu.Unlock()
}

// CallCount returns the number of generator calls of a kind.
func (g *RelayGen) CallCount(kind string) int {
	g.mu.Lock()
	defer g.mu.Unlock()

	return g.Calls[kind]
}

// ---------------------------------------------------------------- world

// Config configures the simulated server.
type Config struct {
	Realm        string
	Users        map[string]string // user -> password
	PermTimeout  time.Duration     // 0 = library default
	ChanTimeout  time.Duration
	Lifetime     time.Duration
	InboundMTU   int
	Strict       bool
	NoAuth       bool
	UDPListeners []*net.UDPAddr
	TCPListeners []*net.TCPAddr
	// MakeGen, when set, supplies the relay address generator (e.g. one of pion/turn's bundled
	// generators over a simnet.VNet) instead of the harness' ledger generator.
	MakeGen func(n *simnet.Net) turn.RelayAddressGenerator
	// MakeGenTCP, when set, supplies a generator of their own to the TCP listeners.
	MakeGenTCP func(n *simnet.Net) turn.RelayAddressGenerator
	// PlainConns: TCP connections reach the server (control/data connections, relay-side
	// connections) as bare net.Conn values without ReadFrom/WriteTo.
	PlainConns bool
	// DenyPeerIPs are refused by the permission handler for every client.
	DenyPeerIPs []string
	// DenyPerClient refuses peer IPs for specific client addresses ("ip:port" -> peer IPs).
	DenyPerClient map[string][]string
	// EmptyUserID makes the auth handler return "" as the user id of every user.
	EmptyUserID bool
	// QuotaDenyUsers are refused by the quota handler.
	QuotaDenyUsers []string
	// QuotaPerUser limits the number of live allocations of a user (quota handler fed by events).
	QuotaPerUser map[string]int
	RelayIP4     net.IP
	RelayIP6     net.IP
	// NoEvents leaves the EventHandler empty.
	NoEvents bool
}

// Default addresses.
var (
	ServerIP4 = net.IPv4(10, 0, 0, 1).To4()
	ServerIP6 = net.ParseIP("fd00::1")
	RelayIP4  = net.IPv4(10, 0, 0, 2).To4()
	RelayIP6  = net.ParseIP("fd00::2")
)

// World is one simulated deployment.
type World struct {
	Cfg    Config
	Net    *simnet.Net
	Srv    *turn.Server
	Gen    *RelayGen
	Log    *LogSink
	Rec    *Rec
	Rng    *rand.Rand
	Bubble bool

	ServerUDP []*simnet.UDPConn
	ServerTCP []*simnet.Listener

	mu          sync.Mutex
	events      []LifeEvent
	serverSocks map[*simnet.UDPConn]bool
	// EventDelay[kind] is slept inside that lifecycle callback (virtual time yield point).
	EventDelay map[string]time.Duration
	// NoCountInCallback turns off the AllocationCount call made from allocation callbacks.
	NoCountInCallback bool
	lateDeny          map[string]bool
	newPass           map[string]string // passwords the operator has changed since start ("" = account removed)
	// EventYield: kinds whose slow callback yields instead of sleeping (SetEventYield).
	EventYield map[string]bool
	// OnEvent is called inside each lifecycle callback after recording.
	OnEvent func(ev LifeEvent)
	// OnEventStart is called inside each lifecycle callback before it turns slow (EventDelay).
	OnEventStart func(ev LifeEvent)
	// PermHook/AuthHook are called inside the handlers (yield points).
	PermHook          func()
	AuthHook          func()
	callbacksInFlight int
	connAttempts      []ConnAttempt

	Clients []*RawClient
	Peers   []*Peer
	closed  bool
}

func (w *World) markServerSock(c *simnet.UDPConn) {
	w.mu.Lock()
	w.serverSocks[c] = true
	w.mu.Unlock()
}

// IsServerSock reports whether c belongs to the server (listener or relay socket).
func (w *World) IsServerSock(c *simnet.UDPConn) bool {
	w.mu.Lock()
	defer w.mu.Unlock()

	return w.serverSocks[c]
}

func (w *World) event(ev LifeEvent) {
	ev.At = time.Now()
	w.mu.Lock()
	w.events = append(w.events, ev)
	d := w.EventDelay[ev.Kind]
	yield := w.EventYield[ev.Kind]
	cb := w.OnEvent
	cb0 := w.OnEventStart
	w.callbacksInFlight++
	w.mu.Unlock()
	if cb0 != nil {
		cb0(ev)
	}
	if (ev.Kind == "alloc+" || ev.Kind == "alloc-") && w.Srv != nil && !w.NoCountInCallback {
		// applications watch their server drain from these callbacks (Server.AllocationCount is the
		// documented way): the call must return
		_ = w.Srv.AllocationCount()
	}
	if d > 0 {
		// In the virtual-time bubble a callback may only sleep where the library holds no mutex:
		// a goroutine waiting for that mutex is not durably blocked, so the virtual clock would
		// never advance and the sleep never end. perm-/chan-/chan+ run under allocation (and, during
		// Close, manager) locks: there the callback yields the processor many times instead, which
		// lets every other goroutine run while it is "slow" without needing time to pass.
		if w.Bubble && (ev.Kind == "perm-" || ev.Kind == "chan-" || ev.Kind == "chan+" || yield) {
			for i := 0; i < 300; i++ {
				runtime.Gosched()
			}
		} else {
			time.Sleep(d)
		}
	}
	if cb != nil {
		cb(ev)
	}
	w.mu.Lock()
	w.callbacksInFlight--
	w.mu.Unlock()
}

// SetOnEventStart installs (or clears) the OnEventStart callback.
func (w *World) SetOnEventStart(f func(ev LifeEvent)) {
	w.mu.Lock()
	w.OnEventStart = f
	w.mu.Unlock()
}

// SetPassword changes what the operator's auth handler answers for a user from now on ("" removes
// the account).
func (w *World) SetPassword(user, pass string) {
	w.mu.Lock()
	if w.newPass == nil {
		w.newPass = map[string]string{}
	}
	w.newPass[user] = pass
	w.mu.Unlock()
}

// SetLateDeny makes the operator's permission handler refuse (or admit again) a peer host from
// now on; what was granted before stays as it is until it expires.
func (w *World) SetLateDeny(ip net.IP, denied bool) {
	w.mu.Lock()
	if w.lateDeny == nil {
		w.lateDeny = map[string]bool{}
	}
	w.lateDeny[ip.String()] = denied
	w.mu.Unlock()
}

// SetEventYield makes the slow callback of a kind yield the processor instead of sleeping (for
// callbacks that a scenario reaches with a library mutex held, see event()).
func (w *World) SetEventYield(kind string, on bool) {
	w.mu.Lock()
	if w.EventYield == nil {
		w.EventYield = map[string]bool{}
	}
	w.EventYield[kind] = on
	w.mu.Unlock()
}

// SetEventDelay makes the lifecycle callback of the given kind sleep d (virtual time).
func (w *World) SetEventDelay(kind string, d time.Duration) {
	w.mu.Lock()
	w.EventDelay[kind] = d
	w.mu.Unlock()
}

// CallbacksInFlight reports whether a lifecycle callback is executing right now.
func (w *World) CallbacksInFlight() int {
	w.mu.Lock()
	defer w.mu.Unlock()

	return w.callbacksInFlight
}

// Events returns a copy of the lifecycle event log.
func (w *World) Events() []LifeEvent {
	w.mu.Lock()
	defer w.mu.Unlock()

	return append([]LifeEvent{}, w.events...)
}

func netOf(a net.Addr) string {
	if a == nil {
		return ""
	}

	return a.Network()
}

func addrStr(a net.Addr) string {
	if a == nil {
		return ""
	}

	return a.String()
}

// NewWorld builds the network and starts a real turn.Server on it.
func NewWorld(cfg Config, rec *Rec, rng *rand.Rand, bubble bool) (*World, error) {
	w := &World{
		Cfg: cfg, Net: simnet.New(), Log: NewLogSink(), Rec: rec, Rng: rng, Bubble: bubble,
		serverSocks: map[*simnet.UDPConn]bool{}, EventDelay: map[string]time.Duration{},
	}
	w.Net.LogSends = true
	if cfg.RelayIP4 == nil {
		cfg.RelayIP4 = RelayIP4
	}
	if cfg.RelayIP6 == nil {
		cfg.RelayIP6 = RelayIP6
	}
	w.Cfg = cfg
	w.Gen = &RelayGen{W: w, IP4: cfg.RelayIP4, IP6: cfg.RelayIP6, FailNext: map[string]int{}, Calls: map[string]int{}}

	deny := map[string]bool{}
	for _, ip := range cfg.DenyPeerIPs {
		deny[net.ParseIP(ip).String()] = true
	}
	permHandler := func(clientAddr net.Addr, peerIP net.IP) bool {
		if w.PermHook != nil {
			w.PermHook()
		}
		if deny[peerIP.String()] {
			return false
		}
		w.mu.Lock()
		late := w.lateDeny[peerIP.String()]
		w.mu.Unlock()
		if late {
			return false
		}
		for _, ip := range cfg.DenyPerClient[clientAddr.String()] {
			if net.ParseIP(ip).Equal(peerIP) {
				return false
			}
		}

		return true
	}

	sc := turn.ServerConfig{
		Realm:               cfg.Realm,
		LoggerFactory:       w.Log,
		ChannelBindTimeout:  cfg.ChanTimeout,
		PermissionTimeout:   cfg.PermTimeout,
		AllocationLifetime:  cfg.Lifetime,
		StrictAddressFamily: cfg.Strict,
		InboundMTU:          cfg.InboundMTU,
	}
	if !cfg.NoAuth {
		sc.AuthHandler = func(ra *turn.RequestAttributes) (string, []byte, bool) {
			if w.AuthHook != nil {
				w.AuthHook()
			}
			w.mu.Lock()
			pw, ok := cfg.Users[ra.Username]
			if np, changed := w.newPass[ra.Username]; changed {
				pw, ok = np, np != ""
			}
			w.mu.Unlock()
			if !ok {
				return "", nil, false
			}

			if cfg.EmptyUserID {
				// an operator whose handler does not hand out user ids: every allocation is owned by ""
				return "", turn.GenerateAuthKey(ra.Username, ra.Realm, pw), true
			}

			return ra.Username, turn.GenerateAuthKey(ra.Username, ra.Realm, pw), true
		}
	}
	if len(cfg.QuotaDenyUsers) > 0 || len(cfg.QuotaPerUser) > 0 {
		sc.QuotaHandler = func(username, _ string, _ net.Addr) bool {
			for _, u := range cfg.QuotaDenyUsers {
				if u == username {
					return false
				}
			}
			if max, ok := cfg.QuotaPerUser[username]; ok {
				// an operator-style quota: live allocations of the user, counted from the lifecycle events
				live := 0
				w.mu.Lock()
				for _, ev := range w.events {
					if ev.User == username {
						switch ev.Kind {
						case "alloc+":
							live++
						case "alloc-":
							live--
						}
					}
				}
				w.mu.Unlock()

				return live < max
			}

			return true
		}
	}
	if !cfg.NoEvents {
		sc.EventHandler = turn.EventHandler{
			OnAuth: func(src, dst net.Addr, _ string, user, _ string, method string, verdict bool) {
				w.event(LifeEvent{Kind: "auth", Net: netOf(src), Src: addrStr(src), Dst: addrStr(dst), User: user, Text: method, OK: verdict})
			},
			OnAllocationCreated: func(src, dst net.Addr, _ string, user, _ string, relay net.Addr, _ int) {
				w.event(LifeEvent{Kind: "alloc+", Net: netOf(src), Src: addrStr(src), Dst: addrStr(dst), User: user, Relay: addrStr(relay)})
			},
			OnAllocationDeleted: func(src, dst net.Addr, _ string, user, _ string) {
				w.event(LifeEvent{Kind: "alloc-", Net: netOf(src), Src: addrStr(src), Dst: addrStr(dst), User: user})
			},
			OnAllocationError: func(src, dst net.Addr, _ string, msg string) {
				w.event(LifeEvent{Kind: "error", Net: netOf(src), Src: addrStr(src), Dst: addrStr(dst), Text: msg})
			},
			OnPermissionCreated: func(src, dst net.Addr, _ string, user, _ string, relay net.Addr, peer net.IP) {
				w.event(LifeEvent{Kind: "perm+", Net: netOf(src), Src: addrStr(src), Dst: addrStr(dst), User: user, Relay: addrStr(relay), Peer: peer.String()})
			},
			OnPermissionDeleted: func(src, dst net.Addr, _ string, user, _ string, relay net.Addr, peer net.IP) {
				w.event(LifeEvent{Kind: "perm-", Net: netOf(src), Src: addrStr(src), Dst: addrStr(dst), User: user, Relay: addrStr(relay), Peer: peer.String()})
			},
			OnChannelCreated: func(src, dst net.Addr, _ string, user, _ string, relay, peer net.Addr, num uint16) {
				w.event(LifeEvent{Kind: "chan+", Net: netOf(src), Src: addrStr(src), Dst: addrStr(dst), User: user, Relay: addrStr(relay), Peer: addrStr(peer), Num: num})
			},
			OnChannelDeleted: func(src, dst net.Addr, _ string, user, _ string, relay, peer net.Addr, num uint16) {
				w.event(LifeEvent{Kind: "chan-", Net: netOf(src), Src: addrStr(src), Dst: addrStr(dst), User: user, Relay: addrStr(relay), Peer: addrStr(peer), Num: num})
			},
		}
	}

	var gen turn.RelayAddressGenerator = w.Gen
	if cfg.MakeGen != nil {
		gen = cfg.MakeGen(w.Net)
	}
	for _, a := range cfg.UDPListeners {
		c, err := w.Net.ListenUDP(a.IP, a.Port)
		if err != nil {
			return nil, err
		}
		w.ServerUDP = append(w.ServerUDP, c)
		w.serverSocks[c] = true
		sc.PacketConnConfigs = append(sc.PacketConnConfigs, turn.PacketConnConfig{
			PacketConn: c, RelayAddressGenerator: gen, PermissionHandler: permHandler,
		})
	}
	for _, a := range cfg.TCPListeners {
		l, err := w.Net.ListenTCP(a.IP, a.Port)
		if err != nil {
			return nil, err
		}
		w.ServerTCP = append(w.ServerTCP, l)
		var nl net.Listener = l
		if cfg.PlainConns {
			nl = plainListener{l}
		}
		lgen := gen
		if cfg.MakeGenTCP != nil {
			lgen = cfg.MakeGenTCP(w.Net)
		}
		sc.ListenerConfigs = append(sc.ListenerConfigs, turn.ListenerConfig{
			Listener: nl, RelayAddressGenerator: lgen, PermissionHandler: permHandler,
		})
	}
	srv, err := turn.NewServer(sc)
	if err != nil {
		return nil, err
	}
	w.Srv = srv

	return w, nil
}

// Settle waits until the library has finished reacting to everything delivered so far.
func (w *World) Settle() {
	if w.Bubble {
		synctest.Wait()

		return
	}
	time.Sleep(3 * time.Millisecond)
}

// Sleep advances (virtual) time and settles.
func (w *World) Sleep(d time.Duration) {
	if d > 0 {
		time.Sleep(d)
	}
	w.Settle()
}

// Shutdown closes the server and every simulated socket so that all goroutines can exit.
func (w *World) Shutdown() {
	if w.closed || w.Rec.Poisoned() {
		return
	}
	w.closed = true
	if w.Srv != nil {
		_ = w.Srv.Close()
	}
	w.Settle()
	w.Net.CloseAll()
	w.Settle()
}
