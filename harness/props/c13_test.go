package props

import (
	"bytes"
	"errors"
	"fmt"
	"math/rand"
	"net"
	"os"
	"strings"
	"sync"
	"testing"
	"time"

	"github.com/pion/turn/v5/internal/client"
	"github.com/pion/turn/v5/verifharness/sim"
	"github.com/pion/turn/v5/verifharness/simnet"
	"github.com/pion/turn/v5/verifharness/wire"
)

// C13: the client's relayed socket honours the PacketConn contract over TURN.
// A real turn.Client (Allocate -> relayed net.PacketConn) talks to a scripted TURN server whose
// reaction to every CreatePermission / ChannelBind the case draws from {success, 400, 403,
// 438+fresh nonce, silence}. The oracle works on the ordered wire log at the server (responses
// are stamped when handed to the client's socket) and on the values the API returns.

func init() {
	sim.RegisterKind("send-before-permission", "C13")
	sim.RegisterKind("chandata-before-bind", "C13")
	sim.RegisterKind("chandata-wrong-peer", "C13")
	sim.RegisterKind("channel-number-range", "C13")
	sim.RegisterKind("channel-number-shared", "C13")
	sim.RegisterKind("binding-table-inconsistent", "C13")
	sim.RegisterKind("readfrom-wrong", "C13")
	sim.RegisterKind("readfrom-lost", "C13")
	sim.RegisterKind("readfrom-deadline", "C13")
	sim.RegisterKind("readfrom-after-close", "C13")
	sim.RegisterKind("client-api", "C13")
	sim.RegisterKind("inbound-blocked", "C13", "C09")
	sim.RegisterKind("payload-altered-by-client", "C13")
}

type turnScript struct {
	permDelay time.Duration // CreatePermission successes are answered this much later
	mu        sync.Mutex
	rng       *rand.Rand
	relay     *net.UDPAddr
	nonceCtr  int
	nonce     string
	permW     [5]int // weights: success, 400, 403, 438, silence
	bindW     [5]int
	maxStale  int
	staleRun  int
	noSilence bool
	// dropBindings: that many Binding requests are not answered (lost)
	dropBindings int
	// dup > 0: every response is delivered a second time that much later (a duplicating network);
	// allocDelay holds the Allocate success back (so that the duplicate of the 401 overtakes it)
	dup, allocDelay time.Duration
}

// send delivers a response (and, on a duplicating network, its late twin).
func (ts *turnScript) send(s *sim.ScriptedServer, to *net.UDPAddr, raw []byte, d time.Duration) {
	s.Send(to, raw, d)
	if ts.dup > 0 {
		s.Send(to, raw, d+ts.dup)
	}
}

func (ts *turnScript) draw(w [5]int) int {
	tot := 0
	for _, x := range w {
		tot += x
	}
	r := ts.rng.Intn(tot)
	for i, x := range w {
		if r < x {
			return i
		}
		r -= x
	}

	return 0
}

func errResp(method uint16, tid [12]byte, code int, nonce string) []byte {
	b := wire.NewBuilder(method, wire.ClassError, tid)
	b.Add(wire.AttrErrorCode, append([]byte{0, 0, byte(code / 100), byte(code % 100)}, []byte("scripted")...))
	if nonce != "" {
		b.Add(wire.AttrNonce, []byte(nonce))
		b.Add(wire.AttrRealm, []byte("verif.test"))
	}

	return b.Bytes()
}

// handler implements a minimal TURN server with scripted outcomes.
func (ts *turnScript) handler(s *sim.ScriptedServer, from *net.UDPAddr, ev sim.SrvEvent) {
	if ev.Msg == nil || ev.Msg.Class != wire.ClassRequest {
		return
	}
	ts.mu.Lock()
	defer ts.mu.Unlock()
	m := ev.Msg
	_, hasMI := m.Get(wire.AttrMessageIntegrity)
	switch m.Method {
	case wire.MethodBinding:
		if ts.dropBindings > 0 {
			ts.dropBindings--

			return
		}
		b := wire.NewBuilder(wire.MethodBinding, wire.ClassSuccess, m.TID)
		b.AddXorAddr(wire.AttrXORMappedAddress, from.IP, from.Port)
		ts.send(s, from, b.Bytes(), 0)
	case wire.MethodAllocate:
		if !hasMI {
			ts.send(s, from, errResp(m.Method, m.TID, 401, ts.nonce), 0)

			return
		}
		b := wire.NewBuilder(wire.MethodAllocate, wire.ClassSuccess, m.TID)
		b.AddXorAddr(wire.AttrXORRelayedAddress, ts.relay.IP, ts.relay.Port)
		b.AddU32(wire.AttrLifetime, 600)
		b.AddXorAddr(wire.AttrXORMappedAddress, from.IP, from.Port)
		ts.send(s, from, b.Bytes(), ts.allocDelay)
	case wire.MethodRefresh:
		b := wire.NewBuilder(wire.MethodRefresh, wire.ClassSuccess, m.TID)
		lt, _ := m.Lifetime()
		b.AddU32(wire.AttrLifetime, lt)
		ts.send(s, from, b.Bytes(), 0)
	case wire.MethodCreatePermission, wire.MethodChannelBind:
		w := ts.permW
		if m.Method == wire.MethodChannelBind {
			w = ts.bindW
		}
		kind := ts.draw(w)
		if kind == 4 && ts.noSilence {
			kind = 0
		}
		if kind == 3 {
			if ts.staleRun >= ts.maxStale {
				kind = 0
			} else {
				ts.staleRun++
			}
		}
		if kind != 3 {
			ts.staleRun = 0
		}
		switch kind {
		case 0:
			d := time.Duration(0)
			if m.Method == wire.MethodCreatePermission {
				d = ts.permDelay
			}
			ts.send(s, from, wire.NewBuilder(m.Method, wire.ClassSuccess, m.TID).Bytes(), d)
		case 1:
			ts.send(s, from, errResp(m.Method, m.TID, 400, ""), 0)
		case 2:
			ts.send(s, from, errResp(m.Method, m.TID, 403, ""), 0)
		case 3:
			ts.nonceCtr++
			ts.nonce = fmt.Sprintf("nonce-%d", ts.nonceCtr)
			ts.send(s, from, errResp(m.Method, m.TID, 438, ts.nonce), 0)
		case 4: // silence: the client retransmits and eventually gives up
		}
	}
}

type c13 struct {
	t    *testing.T
	rng  *rand.Rand
	rec  *sim.Rec
	net  *simnet.Net
	srv  *sim.ScriptedServer
	rc   *sim.RealClient
	ts   *turnScript
	conn net.PacketConn
	// expected read queue (FIFO) of what the server relayed and the client must hand to ReadFrom
	queue          []relayed
	peers          []*net.UDPAddr
	deadlineBroken bool
}

type relayed struct {
	payload []byte
	from    string
}

func (x *c13) close() {
	if x.rec.Poisoned() {
		return // a leaked client mutex: every teardown call would block on it
	}
	if x.conn != nil {
		_ = x.conn.Close()
	}
	time.Sleep(20 * time.Second) // lets the Refresh(0) transaction finish
	x.rc.Client.Close()
	_ = x.rc.Conn.Close()
	x.srv.Close()
	x.net.CloseAll()
}

func c13Payload(peerIdx, seq int, n int, rng *rand.Rand) []byte {
	b := []byte(fmt.Sprintf("to:%05d#%06d|", peerIdx, seq))
	for len(b) < n {
		b = append(b, byte(rng.Intn(256)))
	}

	return b
}

// checkWireLog validates the ordering properties over the server's log.
func (x *c13) checkWireLog() {
	permOK := map[string]bool{} // peer IP -> a CreatePermission success covering it was delivered
	permReq := map[[12]byte][]string{}
	bindReq := map[[12]byte][2]string{} // tid -> [number, peer]
	bound := map[uint16]string{}        // confirmed number -> peer
	numOf := map[string]uint16{}        // requested peer -> number (every ChannelBind request)
	peerOf := map[uint16]string{}
	for _, ev := range x.srv.Log() {
		switch {
		case ev.Dir == "in" && ev.Msg != nil && ev.Msg.Class == wire.ClassRequest && ev.Msg.Method == wire.MethodCreatePermission:
			var ips []string
			for _, v := range ev.Msg.GetAll(wire.AttrXORPeerAddress) {
				if ip, _, err := wire.DecodeXorAddr(v, ev.Msg.TID); err == nil {
					ips = append(ips, ip.String())
				}
			}
			permReq[ev.Msg.TID] = ips
		case ev.Dir == "in" && ev.Msg != nil && ev.Msg.Class == wire.ClassRequest && ev.Msg.Method == wire.MethodChannelBind:
			ip, port, _ := ev.Msg.XorAddr(wire.AttrXORPeerAddress)
			peer := (&net.UDPAddr{IP: ip, Port: port}).String()
			v, _ := ev.Msg.Get(wire.AttrChannelNumber)
			if len(v) != 4 {
				continue
			}
			num := uint16(v[0])<<8 | uint16(v[1])
			bindReq[ev.Msg.TID] = [2]string{fmt.Sprint(num), peer}
			if !wire.ValidChannel(num) {
				x.rec.Violate("channel-number-range", rangeClassOf(num), "client requested ChannelBind with out-of-range number 0x%04x for %s", num, peer)
			}
			if p, ok := peerOf[num]; ok && p != peer {
				x.rec.Violate("channel-number-shared", "number", "client asked to bind channel 0x%04x to %s although it uses that number for %s", num, peer, p)
			}
			if n, ok := numOf[peer]; ok && n != num {
				x.rec.Violate("channel-number-shared", "peer", "client asked to bind peer %s to 0x%04x although it uses 0x%04x for it", peer, num, n)
			}
			peerOf[num], numOf[peer] = peer, num
		case ev.Dir == "out" && ev.Msg != nil && ev.Msg.Class == wire.ClassSuccess && ev.Msg.Method == wire.MethodCreatePermission:
			for _, ip := range permReq[ev.Msg.TID] {
				permOK[ip] = true
			}
		case ev.Dir == "out" && ev.Msg != nil && ev.Msg.Class == wire.ClassSuccess && ev.Msg.Method == wire.MethodChannelBind:
			if br, ok := bindReq[ev.Msg.TID]; ok {
				var n uint16
				fmt.Sscan(br[0], &n)
				bound[n] = br[1]
			}
		case ev.Dir == "in" && ev.Msg != nil && ev.Msg.Class == wire.ClassIndication && ev.Msg.Method == wire.MethodSend:
			ip, port, _ := ev.Msg.XorAddr(wire.AttrXORPeerAddress)
			data, _ := ev.Msg.Get(wire.AttrData)
			x.rec.Ev("wire/send-indication")
			if !permOK[ip.String()] {
				x.rec.Violate("send-before-permission", "send", "Send indication toward %s:%d reached the server before any CreatePermission success for that IP was delivered to the client", ip, port)
			}
			x.checkPayloadTarget(data, (&net.UDPAddr{IP: ip, Port: port}).String(), "Send indication")
		case ev.Dir == "in" && ev.IsChan:
			x.rec.Ev("wire/channeldata")
			peer, ok := bound[ev.Chan]
			if !ok {
				x.rec.Violate("chandata-before-bind", "unconfirmed", "ChannelData on 0x%04x reached the server before a ChannelBind success for that number was delivered to the client", ev.Chan)

				continue
			}
			ua, _ := net.ResolveUDPAddr("udp", peer)
			if ua != nil && !permOK[ua.IP.String()] {
				x.rec.Violate("send-before-permission", "chandata", "ChannelData toward %s before any CreatePermission success for that IP", peer)
			}
			x.checkPayloadTarget(ev.Payload, peer, fmt.Sprintf("ChannelData 0x%04x", ev.Chan))
		}
	}
}

// checkPayloadTarget: payloads written by the scenario name their destination peer.
func (x *c13) checkPayloadTarget(data []byte, peer string, what string) {
	var idx, seq int
	if n, _ := fmt.Sscanf(string(data), "to:%05d#%06d|", &idx, &seq); n != 2 {
		x.rec.Violate("payload-altered-by-client", "untagged", "%s toward %s carries a payload the application never wrote: %x", what, peer, head(data))

		return
	}
	if idx < 0 || idx >= len(x.peers) || x.peers[idx].String() != peer {
		kind := "chandata-wrong-peer"
		x.rec.Violate(kind, "mismatch", "%s delivered the payload written for peer #%d (%v) toward %s", what, idx, x.peerStr(idx), peer)
	}
}

func (x *c13) peerStr(i int) string {
	if i >= 0 && i < len(x.peers) {
		return x.peers[i].String()
	}

	return "?"
}

// inbound: the scripted server relays a datagram from peer to the client.
func (x *c13) inboundInd(peer *net.UDPAddr, payload []byte) {
	b := wire.NewBuilder(wire.MethodData, wire.ClassIndication, [12]byte{9, 9, 9, byte(x.rng.Intn(256)), byte(x.rng.Intn(256))})
	b.AddXorAddr(wire.AttrXORPeerAddress, peer.IP, peer.Port)
	b.Add(wire.AttrData, payload)
	x.srv.Send(x.rc.Conn.Addr(), b.Bytes(), 0)
	if len(x.queue) < 1024 {
		x.queue = append(x.queue, relayed{payload: payload, from: peer.String()})
	} else {
		x.rec.Ev("inbound/overflow-dropped")
	}
}

func (x *c13) runUDP(tier string, caseNo int) {
	rng := x.rng
	npeers := 1 + rng.Intn(12)
	if caseNo%17 == 0 {
		npeers = 64 + rng.Intn(200)
	}
	if tier == "thorough" && caseNo == 0 {
		npeers = 16384
	}
	v6peers := caseNo%5 == 3
	if v6peers {
		x.rec.FP("peers-are-ipv6-hosts-of-one-prefix")
	}
	for i := 0; i < npeers; i++ {
		ip := net.IPv4(10, 2, byte(i>>8), byte(1+i%250)).To4()
		if v6peers {
			// hosts of one IPv6 prefix (their addresses share the leading groups)
			ip = net.ParseIP(fmt.Sprintf("2001:db8:2::%x", 1+i))
		}
		if i%3 == 1 && i > 0 {
			ip = x.peers[i-1].IP // another port of the previous peer's IP
		}
		x.peers = append(x.peers, &net.UDPAddr{IP: ip, Port: 7000 + i})
	}
	conn, err := x.rc.Client.Allocate()
	if err != nil {
		x.rec.Inconclusive("allocate against scripted server failed: %v", err)

		return
	}
	x.conn = conn
	if caseNo%2 == 0 {
		// an empty datagram reaches the client's socket (from the server's address or from a
		// stranger): the socket goes on working - every later step depends on the client still
		// reading what the server sends
		from := x.srv.Addr
		if caseNo%4 == 0 {
			from = &net.UDPAddr{IP: net.IPv4(10, 9, 9, 9).To4(), Port: 9}
		}
		x.rc.Conn.Inject(nil, from)
		x.rec.FP("empty-datagram-to-the-client-socket/stranger=%v", caseNo%4 == 0)
	}
	seq := 0
	var wmu sync.Mutex
	write := func(i int) error {
		wmu.Lock()
		seq++
		s := seq
		wmu.Unlock()
		prng := rand.New(rand.NewSource(int64(s))) // goroutines must not share the case PRNG
		_, err := conn.WriteTo(c13Payload(i, s, 16+prng.Intn(40), prng), x.peers[i])

		return err
	}
	steps := 10 + rng.Intn(25)
	if npeers > 1000 {
		steps = 3
	}
	for st := 0; st < steps && len(x.rec.Violations()) == 0; st++ {
		x.rec.SetStep(st)
		op := rng.Intn(9)
		if x.ts.bindW[2] == 1 && x.ts.bindW[0] == 0 && rng.Intn(2) == 0 {
			// refused for ever: writes spread over more than the binding refresh interval (5 min),
			// then a few in a row
			i := rng.Intn(npeers)
			_ = write(i)
			time.Sleep(pick(rng, []time.Duration{5*time.Minute + 20*time.Second, 11 * time.Minute}))
			for k := 0; k < 4; k++ {
				_ = write(i)
				time.Sleep(time.Duration(rng.Intn(40)) * time.Millisecond)
			}
			x.rec.FP("writeto/bind-refused-for-ever")

			continue
		}
		if x.ts.bindW[4] == 1 && x.ts.bindW[0] == 0 && rng.Intn(2) == 0 {
			// blackout: alternate writes and waits long enough for whole transactions to time out
			_ = write(rng.Intn(npeers))
			time.Sleep(pick(rng, []time.Duration{7 * time.Second, 31 * time.Second}))
			_ = write(rng.Intn(npeers))
			x.rec.FP("writeto/bind-blackout")

			continue
		}
		switch {
		case op < 3: // a few writes (sequential)
			for k := 0; k < 1+rng.Intn(4); k++ {
				i := rng.Intn(npeers)
				err := write(i)
				x.rec.FP("writeto/err=%v", errClass(err))
			}
		case op == 3: // concurrent writers to the same and to different peers
			// While one writer waits for CreatePermission holding the per-peer mutex, the others block on
			// that mutex, which the virtual clock does not regard as durable blocking: a silent server
			// would freeze virtual time. Concurrent steps therefore get immediate (possibly negative) answers.
			x.ts.mu.Lock()
			x.ts.noSilence = true
			x.ts.mu.Unlock()
			var wg sync.WaitGroup
			same := rng.Intn(npeers)
			targets := []int{same, same, rng.Intn(npeers), rng.Intn(npeers)}
			for _, i := range targets {
				wg.Add(1)
				go func(i int) { defer wg.Done(); _ = write(i) }(i)
			}
			wg.Wait()
			x.ts.mu.Lock()
			x.ts.noSilence = false
			x.ts.mu.Unlock()
			x.rec.FP("writeto/concurrent")
		case op == 4: // inbound traffic, then read it back
			n := 1 + rng.Intn(5)
			for k := 0; k < n; k++ {
				p := x.peers[rng.Intn(npeers)]
				payload := []byte(fmt.Sprintf("from:%s#%d|", p, rng.Int63()))
				if rng.Intn(4) == 0 {
					payload = append([]byte{0x21, 0x12, 0xA4, 0x42}, payload...) // begins with the magic cookie
				}
				if rng.Intn(2) == 0 {
					x.inboundInd(p, payload)
				} else if bs, _, ok := x.hookBindings(); ok && len(bs) > 0 {
					// ChannelData on a number the client has in its table
					b := bs[rng.Intn(len(bs))]
					x.srv.Send(x.rc.Conn.Addr(), wire.EncodeChannelData(b.Number, payload, rng.Intn(2) == 0), 0)
					if len(x.queue) < 1024 {
						x.queue = append(x.queue, relayed{payload: payload, from: b.Addr})
					}
				} else {
					x.inboundInd(p, payload)
				}
			}
			x.settle()
			x.drainAndCompare()
			x.rec.FP("inbound/read-back")
		case op == 5 && rng.Intn(2) == 0:
			// two strangers on different hosts speak one after the other, and the application answers
			// each at the address ReadFrom reported - the very value it was handed, as applications do
			x.drainAndCompare()
			buf := make([]byte, 2000)
			for k := 0; k < 2 && len(x.rec.Violations()) == 0; k++ {
				host := &net.UDPAddr{IP: net.IPv4(10, 3, byte(st+1), byte(1+k)).To4(), Port: 9000}
				idx := len(x.peers)
				x.peers = append(x.peers, host)
				hello := []byte(fmt.Sprintf("from:%s#hello-%d|", host, rng.Int63()))
				x.inboundInd(host, hello)
				x.settle()
				if !x.setDeadline("SetReadDeadline", time.Now().Add(50*time.Millisecond)) {
					return
				}
				n, from, err := conn.ReadFrom(buf)
				x.queue = nil
				if err != nil || !bytes.Equal(buf[:n], hello) || from.String() != host.String() {
					x.rec.Violate("readfrom-wrong", "mismatch", "ReadFrom returned %q from %v (%v), the server relayed %q from %s", head(buf[:n]), from, err, head(hello), host)

					break
				}
				x.setDeadline("SetReadDeadline", time.Time{})
				wmu.Lock()
				seq++
				sq := seq
				wmu.Unlock()
				prng := rand.New(rand.NewSource(int64(sq)))
				if _, err := conn.WriteTo(c13Payload(idx, sq, 16+prng.Intn(40), prng), from); err != nil {
					x.rec.FP("writeto/reply/err=%v", errClass(err))
				}
				x.settle()
			}
			x.rec.FP("reply-to-the-address-readfrom-reported")
		case op == 5: // ChannelData on a channel the client does not know: must not surface
			x.srv.Send(x.rc.Conn.Addr(), wire.EncodeChannelData(uint16(0x7000+rng.Intn(0xFFF)), []byte("unknown-channel"), true), 0)
			x.settle()
			x.drainAndCompare()
			x.rec.FP("inbound/unknown-channel")
		case op == 6: // read deadlines with an empty queue: set, time out, set again (re-arm), clear
			x.drainAndCompare()
			setDeadline := x.setDeadline
			rounds := 1 + rng.Intn(3)
			for r := 0; r < rounds; r++ {
				d := time.Duration(1+rng.Intn(5000)) * time.Millisecond
				t0 := time.Now()
				if !setDeadline(pick(rng, []string{"SetReadDeadline", "SetReadDeadline", "SetDeadline"}), t0.Add(d)) {
					return
				}
				if rng.Intn(4) == 0 {
					// move the deadline before it expires
					d = d + time.Duration(1+rng.Intn(2000))*time.Millisecond
					if !setDeadline("SetReadDeadline", t0.Add(d)) {
						return
					}
				}
				buf := make([]byte, 2000)
				_, _, err := conn.ReadFrom(buf)
				el := time.Since(t0)
				var ne net.Error
				if err == nil || !errors.As(err, &ne) || !ne.Timeout() {
					x.rec.Violate("readfrom-deadline", "no-timeout", "ReadFrom on an empty queue with a %v deadline returned err=%v", d, err)
				} else if el != d {
					x.rec.Violate("readfrom-deadline", "instant", "ReadFrom deadline %v fired after %v (round %d)", d, el, r)
				}
			}
			if !setDeadline("SetReadDeadline", time.Time{}) {
				return
			}
			x.rec.FP("deadline/rounds=%d", rounds)
		case op == 7: // time passes: permission refresh (2 min) and binding refresh/check timers run
			d := pick(rng, []time.Duration{time.Second, 31 * time.Second, 121 * time.Second, 6 * time.Minute})
			time.Sleep(d)
			x.rec.FP("time/%s", d)
		case op == 8: // burst larger than the read queue without a reader
			if rng.Intn(4) == 0 {
				p := x.peers[rng.Intn(npeers)]
				for k := 0; k < 1100; k++ {
					x.inboundInd(p, []byte(fmt.Sprintf("burst-%d", k)))
				}
				x.settle()
				x.liveness("after-burst")
				x.drainAndCompare()
				x.rec.FP("inbound/burst-1100")
			} else {
				// the application asks for a permission itself (Client.CreatePermission, the public
				// call) - the server may refuse - and writes to that peer afterwards: the refusal
				// authorises nothing
				i := rng.Intn(npeers)
				err := x.rc.Client.CreatePermission(x.peers[i])
				x.rec.FP("explicit-createpermission/err=%v", errClass(err))
				x.settle()
				werr := write(i)
				x.rec.FP("explicit-createpermission/then-writeto/err=%v", errClass(werr))
			}
		}
		x.settle()
		x.checkHookTable()
	}
	x.settle()
	x.checkWireLog()
	x.drainAndCompare()
	// Close releases a reader that is blocked in ReadFrom - also when the socket toward the server
	// has failed by then and the farewell Refresh cannot be written
	x.setDeadline("SetReadDeadline", time.Time{})
	released := make(chan error, 1)
	go func() {
		b := make([]byte, 100)
		for {
			// (a datagram that still comes in before Close is handed over as usual)
			if _, _, err := conn.ReadFrom(b); err != nil {
				released <- err

				return
			}
		}
	}()
	time.Sleep(time.Millisecond)
	// the application asks for one more permission (answered 300 ms later) while it closes the
	// socket and a datagram comes in: Close returns, the request ends one way or the other
	apiDone := make(chan error, 1)
	apiRace := rng.Intn(3) == 0
	if apiRace {
		x.ts.mu.Lock()
		x.ts.permW, x.ts.permDelay, x.ts.noSilence = [5]int{1, 0, 0, 0, 0}, 300*time.Millisecond, true
		x.ts.mu.Unlock()
		go func() {
			apiDone <- x.rc.Client.CreatePermission(&net.UDPAddr{IP: net.IPv4(10, 4, 0, 1).To4(), Port: 9100})
		}()
		time.Sleep(10 * time.Millisecond)
		x.inboundInd(x.peers[0], []byte("arrives-while-closing"))
	}
	deadSocket := rng.Intn(3) == 0 && !apiRace
	if deadSocket {
		x.rc.Conn.SetWriteHook(func([]byte, net.Addr) (int, error, bool) { return 0, errors.New("injected: socket is gone"), true })
	}
	_ = conn.Close()
	select {
	case <-released:
	case <-time.After(30 * time.Second):
		x.rec.Violate("readfrom-after-close", "blocked-reader", "a ReadFrom blocked before Close was still blocked 30 s after Close (socket toward the server failing: %v)", deadSocket)
	}
	x.rc.Conn.SetWriteHook(nil)
	x.rec.FP("close/releases-reader/dead-socket=%v", deadSocket)
	if apiRace {
		select {
		case <-apiDone:
		case <-time.After(5 * time.Second):
			x.rec.Violate("inbound-blocked", "createpermission-vs-close", "Client.CreatePermission, answered by the server after 300 ms, had not returned 5 s later (the relayed socket was being closed and a datagram came in meanwhile)")
		}
		x.ts.mu.Lock()
		x.ts.permDelay = 0
		x.ts.mu.Unlock()
		x.rec.FP("close/while-createpermission-in-flight")
	}
	buf := make([]byte, 100)
	if !x.setDeadline("SetReadDeadline", time.Now().Add(time.Second)) {
		return
	}
	gotErr := false
	for k := 0; k < 4 && !gotErr; k++ {
		// (what was queued before Close may still be handed over)
		_, _, err := conn.ReadFrom(buf)
		gotErr = err != nil
	}
	if !gotErr {
		x.rec.Violate("readfrom-after-close", "nil-error", "ReadFrom keeps returning data and no error after Close")
	}
	if _, err := conn.WriteTo([]byte("to:00000#000000|late"), x.peers[0]); err == nil {
		x.rec.Violate("readfrom-after-close", "write", "WriteTo returned no error after Close")
	}
	x.conn = nil
	x.rec.SetSample(map[string]any{"kind": "udp", "peers": npeers, "steps": steps, "perm_weights": x.ts.permW, "bind_weights": x.ts.bindW, "wire_events": len(x.srv.Log())})
	if rng.Intn(2) == 0 && len(x.rec.Violations()) == 0 {
		x.secondAllocation()
	}
}

// secondAllocation: the same client allocates again after its first relayed socket was closed. The
// new socket numbers its channels from the start, for other peers: inbound ChannelData must be
// attributed by the new socket's bindings, nothing of the first allocation may shine through.
func (x *c13) secondAllocation() {
	x.ts.mu.Lock()
	x.ts.permW, x.ts.bindW, x.ts.noSilence = [5]int{1, 0, 0, 0, 0}, [5]int{1, 0, 0, 0, 0}, true
	x.ts.mu.Unlock()
	conn, err := x.rc.Client.Allocate()
	if err != nil {
		x.rec.Violate("client-api", "second-allocate", "Allocate after Close of the first relayed socket failed: %v", err)

		return
	}
	x.conn = conn
	x.queue = nil
	defer func() { _ = conn.Close(); x.conn = nil }()
	// peers the first allocation never talked to
	fresh := []*net.UDPAddr{{IP: net.IPv4(10, 3, 0, 1).To4(), Port: 9001}, {IP: net.IPv4(10, 3, 0, 2).To4(), Port: 9002}}
	for i, p := range fresh {
		if _, err := conn.WriteTo([]byte(fmt.Sprintf("second-%d", i)), p); err != nil {
			return
		}
	}
	time.Sleep(2 * time.Second) // bindings confirmed
	bs, _, ok := x.hookBindings()
	if !ok || len(bs) == 0 {
		return
	}
	for _, b := range bs {
		payload := []byte(fmt.Sprintf("via-0x%04x-from-%s", b.Number, b.Addr))
		x.srv.Send(x.rc.Conn.Addr(), wire.EncodeChannelData(b.Number, payload, true), 0)
		x.queue = append(x.queue, relayed{payload: payload, from: b.Addr})
	}
	x.settle()
	x.drainAndCompare()
	x.rec.FP("second-allocation/channels=%d", len(bs))
}

func errClass(err error) string {
	switch {
	case err == nil:
		return "nil"
	default:
		s := err.Error()
		if len(s) > 24 {
			s = s[:24]
		}

		return s
	}
}

func (x *c13) settle() { time.Sleep(time.Millisecond) }

// setDeadline calls a deadline setter of the relayed socket under a (virtual-time) watch: it
// must return at once whatever happened to the previous deadline. false = it blocked (reported).
func (x *c13) setDeadline(what string, t time.Time) bool {
	if x.deadlineBroken {
		return false
	}
	conn := x.conn
	done := make(chan struct{})
	go func() {
		if what == "SetDeadline" {
			_ = conn.SetDeadline(t)
		} else {
			_ = conn.SetReadDeadline(t)
		}
		close(done)
	}()
	select {
	case <-done:
		return true
	case <-time.After(10 * time.Second):
		x.deadlineBroken = true
		x.rec.Violate("readfrom-deadline", "setter-blocked", "%s did not return (10 s of virtual time) when called after an earlier deadline had expired or been moved", what)

		return false
	}
}

type bindingView struct {
	Number uint16
	Addr   string
	OK     bool
}

func (x *c13) hookBindings() ([]bindingView, bool, bool) {
	uc, ok := x.conn.(*client.UDPConn)
	if !ok || uc == nil {
		return nil, false, false
	}
	raw, consistent, ok := uc.VerifBindings()
	if !ok {
		return nil, false, false
	}
	out := make([]bindingView, 0, len(raw))
	for _, b := range raw {
		out = append(out, bindingView{Number: b.Number, Addr: b.Addr, OK: b.OK})
	}

	return out, consistent, true
}

func (x *c13) checkHookTable() {
	bs, consistent, ok := x.hookBindings()
	if !ok {
		return
	}
	if !consistent {
		x.rec.Violate("binding-table-inconsistent", "maps", "the client's number->peer and peer->number maps disagree")
	}
	seenN := map[uint16]bool{}
	seenA := map[string]bool{}
	for _, b := range bs {
		if !wire.ValidChannel(b.Number) {
			x.rec.Violate("channel-number-range", "table", "binding table holds out-of-range number 0x%04x", b.Number)
		}
		if seenN[b.Number] || seenA[b.Addr] {
			x.rec.Violate("channel-number-shared", "table", "binding table holds a duplicate number or peer (0x%04x, %s)", b.Number, b.Addr)
		}
		seenN[b.Number], seenA[b.Addr] = true, true
	}
	x.rec.Ev("binding-table-checks")
}

// drainAndCompare reads everything queued and compares with what the server relayed, in order.
func (x *c13) drainAndCompare() {
	if x.conn == nil {
		return
	}
	buf := make([]byte, 70000)
	for len(x.queue) > 0 {
		if !x.setDeadline("SetReadDeadline", time.Now().Add(50*time.Millisecond)) {
			return
		}
		n, from, err := x.conn.ReadFrom(buf)
		if err != nil {
			x.rec.Violate("readfrom-lost", "missing", "ReadFrom returned %v while %d relayed datagrams were still owed (next: %q from %s)", err, len(x.queue), head(x.queue[0].payload), x.queue[0].from)
			x.queue = nil

			break
		}
		want := x.queue[0]
		x.queue = x.queue[1:]
		if !bytes.Equal(buf[:n], want.payload) || from.String() != want.from {
			x.rec.Violate("readfrom-wrong", "mismatch", "ReadFrom returned %q from %s, the server relayed %q from %s", head(buf[:n]), from, head(want.payload), want.from)
			x.queue = nil

			break
		}
		x.rec.Ev("readfrom-matched")
	}
	// nothing else may be queued
	if !x.setDeadline("SetReadDeadline", time.Now().Add(10*time.Millisecond)) {
		return
	}
	if n, from, err := x.conn.ReadFrom(buf); err == nil {
		x.rec.Violate("readfrom-wrong", "extra", "ReadFrom returned %q from %s that the server never relayed", head(buf[:n]), from)
	}
	x.setDeadline("SetReadDeadline", time.Time{})
}

// liveness: the client's inbound path still works (a Binding transaction completes).
func (x *c13) liveness(when string) {
	if x.rng.Intn(3) == 0 {
		// the first transmission of the probe is lost: it completes through a retransmission
		x.ts.mu.Lock()
		x.ts.dropBindings = 1
		x.ts.mu.Unlock()
		x.rec.Ev("liveness-probes-that-need-a-retransmission")
	}
	done := make(chan error, 1)
	go func() {
		_, err := x.rc.Client.SendBindingRequestTo(x.srv.Addr)
		done <- err
	}()
	select {
	case err := <-done:
		if err != nil {
			x.rec.Violate("inbound-blocked", when, "client transaction failed %s: %v (the inbound path is stuck)", when, err)
		}
	case <-time.After(60 * time.Second):
		x.rec.Violate("inbound-blocked", when, "client transaction did not complete %s", when)
	}
	x.rec.Ev("liveness-transactions")
}

// runStampede: several goroutines make the very first WriteTo to the same new peer at the same
// moment, for a long row of new peers (all on one already-permitted IP, so that nothing
// serialises the writers before they reach the binding table). Every peer must end up with
// exactly one channel number.
func (x *c13) runStampede(tier string) {
	conn, err := x.rc.Client.Allocate()
	if err != nil {
		x.rec.Inconclusive("allocate against scripted server failed: %v", err)

		return
	}
	x.conn = conn
	x.ts.mu.Lock()
	x.ts.noSilence = true
	x.ts.mu.Unlock()
	ip := net.IPv4(10, 2, 0, 1).To4()
	x.peers = append(x.peers, &net.UDPAddr{IP: ip, Port: 7000})
	if _, err := conn.WriteTo(c13Payload(0, 0, 20, rand.New(rand.NewSource(1))), x.peers[0]); err != nil {
		x.rec.Inconclusive("first write failed: %v", err)

		return
	}
	npeers := 150
	if tier == "thorough" {
		npeers = 600
	}
	const writers = 6
	for k := 1; k <= npeers; k++ {
		x.peers = append(x.peers, &net.UDPAddr{IP: ip, Port: 7000 + k})
	}
	for k := 1; k <= npeers && len(x.rec.Violations()) == 0; k++ {
		start := make(chan struct{})
		var wg sync.WaitGroup
		for g := 0; g < writers; g++ {
			wg.Add(1)
			go func(g int) {
				defer wg.Done()
				prng := rand.New(rand.NewSource(int64(k*100 + g)))
				payload := c13Payload(k, k*100+g, 20, prng)
				<-start
				_, _ = conn.WriteTo(payload, x.peers[k])
			}(g)
		}
		close(start)
		wg.Wait()
		if k%25 == 0 {
			x.settle()
			x.checkHookTable()
		}
	}
	x.settle()
	x.checkHookTable()
	x.checkWireLog()
	// a link-local IPv6 peer named with its zone: one binding however often it is written to
	zoned := &net.UDPAddr{IP: net.ParseIP("fe80::1234"), Port: 5000, Zone: "eth0"}
	for i := 0; i < 5; i++ {
		_, _ = conn.WriteTo([]byte(fmt.Sprintf("zoned-%d", i)), zoned)
		time.Sleep(300 * time.Millisecond)
	}
	x.settle()
	if bs, _, ok := x.hookBindings(); ok {
		n := 0
		for _, b := range bs {
			if strings.Contains(b.Addr, "fe80::1234") {
				n++
			}
		}
		if n != 1 {
			x.rec.Violate("channel-number-shared", "zoned-peer", "after 5 writes to %s the binding table holds %d bindings for it", zoned, n)
		}
	}
	binds := map[uint16]bool{}
	for _, ev := range x.srv.Log() {
		if ev.Dir == "in" && ev.Msg != nil && ev.Msg.Method == wire.MethodChannelBind {
			if ip, _, ok := ev.Msg.XorAddr(wire.AttrXORPeerAddress); ok && ip.Equal(zoned.IP) {
				if v, ok := ev.Msg.Get(wire.AttrChannelNumber); ok && len(v) >= 2 {
					binds[uint16(v[0])<<8|uint16(v[1])] = true
				}
			}
		}
	}
	if len(binds) > 1 {
		x.rec.Violate("channel-number-shared", "zoned-peer/wire", "the client asked for %d different channel numbers for the one peer %s", len(binds), zoned)
	}
	x.rec.FP("writeto/zoned-peer")
	x.rec.EvN("stampede-peers", npeers)
	x.rec.FP("writeto/stampede")
	_ = conn.Close()
	x.conn = nil
	x.rec.SetSample(map[string]any{"kind": "first-writer-stampede", "peers": npeers, "writers": writers})
}

func runC13(t *testing.T, rng *rand.Rand, rec *sim.Rec, tier string, caseNo int) {
	n := simnet.New()
	srv, err := sim.NewScriptedServer(n, sim.ServerIP4, 3478)
	if err != nil {
		t.Fatal(err)
	}
	ts := &turnScript{rng: rand.New(rand.NewSource(rng.Int63())), relay: &net.UDPAddr{IP: sim.RelayIP4, Port: 50000}, nonce: "nonce-0", maxStale: 1 + rng.Intn(4)}
	switch rng.Intn(4) {
	case 0:
		ts.permW, ts.bindW = [5]int{1, 0, 0, 0, 0}, [5]int{1, 0, 0, 0, 0}
	case 1:
		ts.permW, ts.bindW = [5]int{6, 0, 2, 3, 1}, [5]int{8, 0, 1, 3, 1}
	case 2:
		ts.permW, ts.bindW = [5]int{8, 1, 1, 2, 0}, [5]int{6, 0, 2, 2, 2}
	default:
		ts.permW, ts.bindW = [5]int{10, 0, 0, 4, 0}, [5]int{10, 0, 0, 4, 0}
	}
	if caseNo%7 == 4 {
		// every ChannelBind is refused (403 Forbidden), for ever: however long the socket is in
		// use and whatever the client retries, no ChannelData may appear on a number the server
		// never confirmed
		ts.permW, ts.bindW = [5]int{1, 0, 0, 0, 0}, [5]int{0, 0, 1, 0, 0}
	}
	if caseNo%7 == 5 {
		// ChannelBind blackout: the server never answers a ChannelBind. Whatever the client retries,
		// it must keep using Send indications - no ChannelData may ever appear.
		ts.permW, ts.bindW = [5]int{1, 0, 0, 0, 0}, [5]int{0, 0, 0, 0, 1}
	}
	srv.SetHandler(ts.handler)
	logs := sim.NewLogSink()
	rc, err := sim.NewRealClient(n, net.IPv4(10, 1, 0, 1).To4(), 5000, "10.0.0.1:3478", "alice", "pw-a", "verif.test", 100*time.Millisecond, logs, nil)
	if err != nil {
		t.Fatal(err)
	}
	if err := rc.Client.Listen(); err != nil {
		t.Fatal(err)
	}
	x := &c13{t: t, rng: rng, rec: rec, net: n, srv: srv, rc: rc, ts: ts}
	defer x.close()
	if caseNo%7 == 6 {
		x.runTCPAttempts()

		return
	}
	if caseNo%20 == 9 {
		x.ts.permW, x.ts.bindW = [5]int{1, 0, 0, 0, 0}, [5]int{1, 0, 0, 0, 0}
		x.runStampede(tier)

		return
	}
	x.runUDP(tier, caseNo)
	if os.Getenv("VERIF_CASE") != "" {
		for _, ev := range srv.Log() {
			switch {
			case ev.Msg != nil:
				rec.Tracef("%s %s method=%x class=%d code=%d", ev.At.Format("15:04:05.000"), ev.Dir, ev.Msg.Method, ev.Msg.Class, ev.Msg.ErrorCode())
			case ev.IsChan:
				rec.Tracef("%s %s chan=0x%04x len=%d", ev.At.Format("15:04:05.000"), ev.Dir, ev.Chan, len(ev.Payload))
			}
		}
	}
}

// runTCPAttempts: a TCP allocation receives more ConnectionAttempt indications than anybody accepts.
func (x *c13) runTCPAttempts() {
	alloc, err := x.rc.Client.AllocateTCP()
	if err != nil {
		x.rec.Inconclusive("AllocateTCP failed: %v", err)

		return
	}
	n := pick(x.rng, []int{5, 9, 10, 11, 12, 40})
	for i := 0; i < n; i++ {
		b := wire.NewBuilder(wire.MethodConnectionAttempt, wire.ClassIndication, [12]byte{7, 7, byte(i)})
		b.AddXorAddr(wire.AttrXORPeerAddress, net.IPv4(10, 2, 0, byte(1+i)).To4(), 9000+i)
		b.AddU32(wire.AttrConnectionID, uint32(1000+i))
		x.srv.Send(x.rc.Conn.Addr(), b.Bytes(), 0)
	}
	x.settle()
	x.liveness(fmt.Sprintf("after-%d-connection-attempts", n))
	x.rec.FP("tcp/unaccepted-attempts=%d", n)
	x.rec.SetSample(map[string]any{"kind": "tcp-connection-attempts", "n": n})
	_ = alloc.Close()
}

func init() {
	register("C13", PropDef{
		Bubble: true,
		Cases: func(tier string) int {
			if tier == "thorough" {
				return 30000
			}

			return 600
		},
		Run: func(t *testing.T, rng *rand.Rand, rec *sim.Rec, tier string, caseNo int) {
			if caseNo%30 == 17 {
				// the same socket against the real server, over UDP and over a TCP control
				// connection: bursts both ways, Data indications from an unbound port
				runC05E2E(t, rng, rec, tier, caseNo/30)

				return
			}
			runC13(t, rng, rec, tier, caseNo)
		},
	})
}
