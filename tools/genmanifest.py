#!/usr/bin/env python3
"""Regenerates /verif/MANIFEST.json from the table below (kept next to the checks so the two stay in step)."""
import json, subprocess

props = [json.loads(l)['id'] for l in open('/verif/properties.jsonl')]
hooks = subprocess.check_output(['git', '-C', '/repo', 'log', '--format=%h %s']).decode().splitlines()
hook_commits = [l.split()[0] for l in hooks if l.split(' ', 1)[1].startswith('verif:')]

SIM = ("real turn.Server on an in-memory network under the testing/synctest virtual clock; simulated sockets, no real kernel; "
       "go1.26.8 -race -tags verif build of /repo's working tree; oracle = independent reference model written from RFC 5766/6062/6156 and the statement; "
       "outcomes within 0.5 s of an expiry instant are MAY")

checks = {
 'C01': dict(cat='exploration', ref='6/C01', tech='runtime monitoring: reference-model conservation monitor over recorded relay emissions + state-snapshot assertions, under -race',
   text='Every datagram leaving any relay socket in thousands of random multi-client histories (virtual hours, probes 1 s before/after every expiry, deny policies, IPv4/IPv6) is matched against a three-valued verdict of an independent TURN model; unauthorised, misrouted, duplicate or spontaneous emissions and refused/wrong-family entries in the server state are violations. Held-on-K-executions evidence, not proof.'),
 'C02': dict(cat='exploration', ref='6/C02', tech='runtime monitoring: reference-model conservation monitor over every message reaching any client, under -race',
   text='Peers and strangers send to every relayed address ever handed out (live, expired, never used) from permitted/unpermitted IPs and ports; every Data indication / ChannelData reaching any client must be justified by a live permission or channel of exactly the owning allocation; drops must be silent.'),
 'C04': dict(cat='exploration', ref='6/C04', tech='runtime monitoring: cross-attribution conservation monitor + snapshot-diff assertion + porcupine linearizability check of recorded concurrent histories',
   text='Multi-client histories (shared IPs, users, peers, channel numbers, same client address on two listeners) with every emission attributed to the submitting 5-tuple and a snapshot-diff assertion that a request only changes the requester\'s allocation; plus concurrent Allocate/Refresh/AllocationCount bursts on a TCP listener checked for linearizability against a sequential set model.'),
 'C05': dict(cat='exploration', ref='6/C05', tech='runtime monitoring: byte-exact multiset comparison of submitted vs emitted datagrams with attribution, length sweep',
   text='Byte-exact, exactly-once, truthful-attribution comparison of submissions and emissions in both directions and both encapsulations over UDP and randomly segmented stream transports, 5 inbound-MTU settings, 6 content classes; thorough enumerates every payload length 0..1700, quick samples boundary lengths; oversize datagrams may vanish but may not arrive altered.'),
 'C06': dict(cat='exploration', ref='6/C06', tech='runtime monitoring: virtual-time probes at expiry +-1 s against a reference model, lifetime-rule assertion on every response, state-snapshot and AllocationCount assertions',
   text='Requested lifetimes {absent,0,1,...,2^32-1} x configured defaults x refresh sequences; the allocation must be observably alive 1 s before and gone 1 s after (reported LIFETIME counted from the last success), Refresh 0 removes it at once, the granted value follows the <1h rule, and permissions/channels/relay socket go with it.'),
 'C07': dict(cat='exploration', ref='6/C07', tech='runtime monitoring: virtual-time probes at expiry +-1 s in both directions against a reference model + state-snapshot assertions',
   text='Permission/channel timeout configurations (incl. channel<permission and >) x mixed CreatePermission/ChannelBind refresh sequences; each entry must authorise 1 s before its model expiry and not 1 s after, every refresh restarts the full timeout, freed numbers/peers can be re-bound.'),
 'C08': dict(cat='exploration', ref='6/C08', tech='runtime monitoring: invariant assertion on the hooked binding table after every step + response-code oracle + channel-number check on every ChannelData emitted',
   text='All 65536 channel numbers (thorough) / boundaries+random (quick) offered to ChannelBind, plus conflict/expiry/re-use histories over a 16-number range; bijection and range asserted on the server\'s binding table after each step, conflicts must get 400, repeats succeed, emitted ChannelData numbers must be the bound ones.'),
 'C19': dict(cat='exploration', ref='6/C19', tech='runtime monitoring: online monitor on every server-written datagram (tid, destination, method, count) + before/after state digests + reachability probes',
   text='Every response in every workload is checked for transaction id, destination, method and answer count; a dedicated generator drives Binding from IPv4/IPv6/IPv4-mapped sources, 11 Allocate error paths, quota refusal, identical tids from two clients, retransmitted and conflicting Allocate (state digest unchanged, generator not called), EVEN-PORT/RESERVATION-TOKEN, strict vs listener-derived family on 4 listener kinds, and a reachability probe of each advertised relayed address.'),
 'C03': dict(cat='exploration', ref='6/C03', tech='runtime monitoring: credential-validity oracle held by the harness + before/after state digests + conservation monitor on subsequent relay behaviour, virtual time for nonce ageing',
   text='Method x state x 16 credential defects against the public server (short nonce) with assertions: never success, state digest and relay behaviour unchanged, 401/438 challenges immediately usable, sound requests succeed (positive control), no-AuthHandler server accepts nothing; plus the nonce life cycle (fresh, foreign instance, 12 mutations, ages 30/59 min accepted, 62 min..25 h rejected) through internal/server.HandleRequest for NewNonceHash and NewShortNonceHash(2..32).'),
 'C09': dict(cat='exploration', ref='6/C09', tech='runtime monitoring: hostile-input workloads with process-survival, quiescence, log-call spin budget, blocked-call detector, classification oracle and liveness probes',
   text='120k hostile inputs per quick run (random, header extremes, ChannelData shapes, every method/class signed/unsigned, signed-then-mutated, malformed-then-signed) to UDP and randomly segmented TCP listeners from a credentialed attacker, with liveness probes (Binding, authenticated Refresh, relay both ways, bystander snapshot, no lock held) every 25 inputs; client side: the same input families through the socket and through Client.HandleInbound in 4 client states with a blocked-call detector, the documented (handled,error) table as classifier and a follow-up transaction. Crash with pion/turn frames, busy loop or hang = violation.'),
 'C10': dict(cat='exploration', ref='6/C10', tech='runtime monitoring: per-call comparison of STUNConn.ReadFrom with an independent reference framer over a scripted net.Conn (bytes, order, Read-count promptness), cut enumeration',
   text='Random frame sequences (incl. 0-8 byte ChannelData, cookie-prefixed payloads, unaligned STUN bodies, incomplete/un-frameable tails) fed whole, byte-at-a-time, with every single cut and (thorough: every) pair of cuts for streams <= 200 bytes and random multi-cuts; length fields 0xFFE0..0xFFFF; BindConnection replies cut at every position with trailing application bytes. Each returned (n, bytes, err) and the number of Reads consumed is compared with the reference.'),
 'C11': dict(cat='exploration', ref='6/C11', tech='runtime monitoring: differential comparison of every codec call with an independent reference codec over enumerated sub-domains',
   text='All 65536 channel numbers x small lengths, every payload length (quick <= 4159, thorough <= 65535), raw buffers over header class x declared/actual relation, and for each of 11 attributes typed round trips plus all raw values of length 0..2 and random raw values of every length 3..64, each compared with a reference codec written from the RFC layouts; panics are violations.'),
 'C12': dict(cat='fault_enumeration', ref='6/C12', tech='runtime monitoring: fault enumeration over lost transmissions with an arithmetic timetable oracle in virtual time, response identity tags, transaction-table hook',
   text='All 2^7 subsets of lost transmissions (thorough x 5 response-delay policies x 7 RTOs), foreign-id/duplicate/late/echoed responses, 2-8 concurrent transactions with permuted answers, Close after each transmission, write error on each transmission, response delivered during the first write; arrival offsets, count, return instant and returned response are compared exactly with the RTO-doubling/1.6 s-cap schedule and the table must be empty afterwards. The whole turn.Client is also run on a network that delivers every response twice (late twins overtaking the Allocate success): calls return what the server answered to them, different requests never share a transaction id on the wire.'),
 'C13': dict(cat='exploration', ref='6/C13', tech='runtime monitoring: happens-before checker over the scripted server\'s wire log + FIFO comparison of ReadFrom results + binding-table hook assertions, virtual time',
   text='Real client and relayed PacketConn against a scripted TURN server whose reactions to CreatePermission/ChannelBind are drawn from {success,400,403,438 xN,silence}: no Send/ChannelData before the matching success was delivered, payload tags name the peer they were written for, channel numbers unique and in range on the wire and in the hooked table (also under concurrent writers), ReadFrom returns exactly what was relayed in order (incl. cookie-prefixed payloads, unknown channels, 1100-datagram bursts without reader), deadlines fire at exact virtual instants, Close fails later calls, unaccepted ConnectionAttempt floods do not stall the inbound path; explicit Client.CreatePermission calls that the server refuses authorise nothing.'),
 'C14': dict(cat='exploration', ref='6/C14', tech='runtime monitoring: bounded-liveness probes (tagged datagrams both ways) over virtual hours with a fault plan on control transactions, AllocationCount assertions',
   text='Bounded restatement: a real client against a real server keeps relaying for 3 h (thorough: up to 48 h) of virtual time across allocation/permission/channel/nonce horizons under 8 traffic patterns (incl. dense probing around the hourly nonce rollover and idle periods up to 3 h), 6 server timeout configurations and loss/duplication/reordering of control transactions; every probe must arrive with the right source/attribution, AllocationCount is 1 while open and 0 after Close. One known finding (Close inside the stale-nonce window) is listed in KNOWN_FINDINGS.json.'),
 'C15': dict(cat='fault_enumeration', ref='6/C15', tech='runtime monitoring: fault injection (teardown cause x history prefix x slow callback) with resource-ledger, event-pairing, armed-timer hook and goroutine-census monitors at quiescent points',
   text='After random base histories one teardown cause (expiry, Refresh 0, control-connection close, relay read/accept/write error, Server.Close) is injected, optionally during a slow lifecycle callback; at every quiescent point the relay-socket ledger, created/deleted event pairing, hooked server state, armed timers on closed allocations, goroutines by function and AllocationCount must agree with the model; after Server.Close nothing may remain or happen for two virtual hours.'),
 'C16': dict(cat='exploration', ref='6/C16', tech='runtime monitoring: model of peer connections + byte-stream equality at quiescent points + lock probes and liveness requests after each step',
   text='RFC 6062 histories on simulated TCP: Connect (listening / absent / duplicate peer), inbound connections from permitted and unpermitted IPs, ConnectionBind (right, wrong id, wrong user, repeated; <=29 s and >=31 s), 0..64 KiB streams both ways under random segmentation, closes from either side; ids unique and backed by real peer connections, bind once/owner only/in time, bytes equal in order, 446 on duplicates with manager locks free and the server still answering; one case in a hundred on operating-system TCP sockets (slow peer, client closes right after writing up to 3 MiB: every byte arrives, then a clean end of stream).'),
 'C17': dict(cat='exploration', ref='6/C17', tech='runtime monitoring: handler calls at every second around expiry under a virtual clock compared with own HMAC/MD5 computation; mutation of credentials; end-to-end Allocate',
   text='Both generator/handler pairs x secrets x users x realms x durations (incl. 0 and negative): ok == (now <= expiry) at every second of [expiry-5 s, expiry+5 s] and far instants, key == MD5(username:realm:password), integrity of messages signed with issued / mutated / foreign-secret / foreign-username passwords, single-character username mutations, malformed timestamps, cross-format pairing; plus Allocate through a real server/client just before and after expiry.'),
 'C18': dict(cat='exploration', ref='6/C18', tech='Go race detector over real-time stress and virtual-time forced schedules; panic/hang detection by child-process supervision; TryLock probes on hooked mutexes; porcupine on concurrent histories',
   text='Real-time stress (tiny lifetimes so timers race with handlers, API calls, slow callbacks and Server.Close) and virtual-time forced schedules (a lock-free yield point sleeps across an allocation/permission/channel expiry while its request is in flight, incl. exact ties) under the race detector, with process-survival, hang watchdog, lock probes, bystander liveness and cross-delivery tags; concurrent TCP-listener bursts checked for linearizability. Lock release on all paths is checked dynamically (probes after every step of every workload), not statically.'),
 'C20': dict(cat='exploration', ref='6/C20', tech='runtime monitoring: inspection of every (conn, advertised address, error) returned by the bundled generators over a simulated transport.Net with a scripted random source and a bind ledger',
   text='Port-range, static and pass-through generators on IPv4/IPv6 with boundary and random (MinPort,MaxPort) incl. single-port and MaxPort=65535, scripted random sources (0, n-1, n/2, sequences), MaxRetries, requested ports free/occupied, outsiders occupying range ports, fill/drain sequences: advertised IP/port, range membership, requested port, no port handed out twice, errors only when binding is impossible, clean failure on a full range.'),
}

na_reason = {}

m = {
 "version": 1,
 "setup_cmd": "cd /verif && ./setup.sh",
 "hooks": {
  "guard": "verif",
  "enable": "Go build tag: go1.26.8 test -c -race -tags verif (three new files in /repo: verif_hooks.go, internal/allocation/verif_hooks.go, internal/client/verif_hooks.go; read-only observers)",
  "baseline_off_cmd": "cd /repo && GOPROXY=off go test -mod=mod -json -vet=off -count=1 -timeout 25m ./...",
  "source_commits": hook_commits,
  "add_only": True,
 },
 "engines": [
  {"name": "turnsim", "path": "/verif/harness", "serves_properties": sorted(checks.keys()),
   "kind_free_text": "runtime monitoring: real pion/turn server and clients on an in-memory network (simnet) inside a testing/synctest virtual-time bubble, scripted raw clients/peers, independent TURN reference model with three-valued verdicts, conservation/ordering/exactly-once monitors over recorded emissions, hooked state assertions at quiescent points, porcupine for recorded concurrent histories, Go race detector on every run; driver bin/vcheck (child process per worker, crash/hang classification, evidence)"},
 ],
 "checks": [],
 "notes": "All checks are runtime monitors over executions of the real code; exit 0 = held on everything explored, 1 = VIOLATION line(s), 2 = inconclusive. KNOWN_FINDINGS.json lists genuine defects (all repaired by fix: commits so far).",
 "not_applicable": [],
}
for p in props:
    if p in checks:
        c = checks[p]
        m["checks"].append({
            "property_id": p,
            "quick_cmd": f"./check {p} quick",
            "thorough_cmd": f"./check {p} thorough",
            "evidence_file": f"/verif/evidence/{p}.json",
            "replay_cmd_template": f"./check {p} --replay {{path}}",
            "engine": "turnsim",
            "level_claimed": {"category": c['cat'], "text": c['text'], "design_ref": "DESIGN.md section " + c['ref']},
            "level_note": c.get('note', SIM),
            "technique": c['tech'],
        })
    else:
        m["not_applicable"].append({"property_id": p, "reason": na_reason.get(p, "check not built yet (work in progress; planned in DESIGN.md section 6)")})
json.dump(m, open('/verif/MANIFEST.json', 'w'), indent=1)
print("checks:", len(m["checks"]), "n/a:", len(m["not_applicable"]))
