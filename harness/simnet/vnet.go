package simnet

import (
	"context"
	"fmt"
	"net"
	"strconv"
	"strings"
	"sync"

	"github.com/pion/transport/v4"
)

// VNet adapts Net to pion's transport.Net for one host (HostIP is used for wildcard binds and
// as the source of ephemeral dials). Only the methods pion/turn uses are implemented; the rest
// panic through the nil embedded interface, which makes an unexpected dependency visible.
type VNet struct {
	transport.Net // nil: unimplemented methods panic
	N             *Net
	HostIP4       net.IP
	HostIP6       net.IP

	mu sync.Mutex
	// Ledger of everything handed out through this adapter.
	PacketConns []*UDPConn
	Listeners   []*Listener
	Dialed      []*Conn
	// ListenAttempts records every bind attempt ("udp4 1.2.3.4:5" -> ok/err).
	ListenAttempts []string
	// DialHook may refuse or observe dials.
	DialHook func(network string, local net.Addr, remote string) error
}

func familyOK(network string, ip net.IP) bool {
	switch {
	case strings.HasSuffix(network, "4"):
		return ip.To4() != nil
	case strings.HasSuffix(network, "6"):
		return ip.To4() == nil
	default:
		return true
	}
}

func (v *VNet) resolve(network, address string) (net.IP, int, error) {
	host, portStr, err := net.SplitHostPort(address)
	if err != nil {
		return nil, 0, err
	}
	port, err := strconv.Atoi(portStr)
	if err != nil || port < 0 || port > 65535 {
		return nil, 0, errPortInvalid
	}
	var ip net.IP
	if host == "" {
		if strings.HasSuffix(network, "6") {
			ip = net.IPv6unspecified
		} else {
			ip = net.IPv4zero
		}
	} else {
		ip = net.ParseIP(host)
		if ip == nil {
			return nil, 0, fmt.Errorf("simnet: cannot resolve %q", host)
		}
	}
	if !familyOK(network, ip) {
		return nil, 0, errBadNetwork
	}

	return ip, port, nil
}

func (v *VNet) concrete(ip net.IP) net.IP {
	if ip.IsUnspecified() {
		if ip.To4() != nil && v.HostIP4 != nil {
			return v.HostIP4
		}
		if ip.To4() == nil && v.HostIP6 != nil {
			return v.HostIP6
		}
	}

	return ip
}

// ListenPacket implements transport.Net.
func (v *VNet) ListenPacket(network, address string) (net.PacketConn, error) {
	ip, port, err := v.resolve(network, address)
	if err != nil {
		return nil, err
	}
	c, err := v.N.ListenUDP(v.concrete(ip), port)
	v.mu.Lock()
	v.ListenAttempts = append(v.ListenAttempts, fmt.Sprintf("%s %s err=%v", network, address, err))
	if err == nil {
		v.PacketConns = append(v.PacketConns, c)
	}
	v.mu.Unlock()
	if err != nil {
		return nil, err
	}

	return c, nil
}

// ResolveUDPAddr implements transport.Net.
func (v *VNet) ResolveUDPAddr(network, address string) (*net.UDPAddr, error) {
	ip, port, err := v.resolve(network, address)
	if err != nil {
		return nil, err
	}

	return &net.UDPAddr{IP: ip, Port: port}, nil
}

// ResolveTCPAddr implements transport.Net.
func (v *VNet) ResolveTCPAddr(network, address string) (*net.TCPAddr, error) {
	ip, port, err := v.resolve(network, address)
	if err != nil {
		return nil, err
	}

	return &net.TCPAddr{IP: ip, Port: port}, nil
}

// DialTCP implements transport.Net.
func (v *VNet) DialTCP(network string, laddr, raddr *net.TCPAddr) (transport.TCPConn, error) {
	lip, lport := v.HostIP4, 0
	if raddr.IP.To4() == nil && v.HostIP6 != nil {
		lip = v.HostIP6
	}
	if laddr != nil {
		lip, lport = laddr.IP, laddr.Port
	}
	if v.DialHook != nil {
		if err := v.DialHook(network, laddr, raddr.String()); err != nil {
			return nil, err
		}
	}
	c, err := v.N.DialTCP(lip, lport, raddr)
	if err != nil {
		return nil, err
	}
	v.mu.Lock()
	v.Dialed = append(v.Dialed, c)
	v.mu.Unlock()

	return c, nil
}

type vListenConfig struct{ v *VNet }

func (l vListenConfig) Listen(_ context.Context, network, address string) (net.Listener, error) {
	ip, port, err := l.v.resolve(network, address)
	if err != nil {
		return nil, err
	}
	ln, err := l.v.N.ListenTCP(l.v.concrete(ip), port)
	l.v.mu.Lock()
	l.v.ListenAttempts = append(l.v.ListenAttempts, fmt.Sprintf("%s %s err=%v", network, address, err))
	if err == nil {
		l.v.Listeners = append(l.v.Listeners, ln)
	}
	l.v.mu.Unlock()
	if err != nil {
		return nil, err
	}

	return ln, nil
}

func (l vListenConfig) ListenPacket(_ context.Context, network, address string) (net.PacketConn, error) {
	return l.v.ListenPacket(network, address)
}

// CreateListenConfig implements transport.Net.
func (v *VNet) CreateListenConfig(*net.ListenConfig) transport.ListenConfig {
	return vListenConfig{v}
}

type vDialer struct {
	v *VNet
	d *net.Dialer
}

func (d vDialer) Dial(network, address string) (net.Conn, error) {
	raddr, err := d.v.ResolveTCPAddr(network, address)
	if err != nil {
		return nil, err
	}
	var laddr *net.TCPAddr
	if d.d != nil && d.d.LocalAddr != nil {
		if t, ok := d.d.LocalAddr.(*net.TCPAddr); ok {
			laddr = t
		}
	}

	return d.v.DialTCP(network, laddr, raddr)
}

// CreateDialer implements transport.Net.
func (v *VNet) CreateDialer(d *net.Dialer) transport.Dialer { return vDialer{v, d} }
