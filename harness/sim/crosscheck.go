package sim

import (
	"fmt"
	"net"
	"time"

	"github.com/pion/turn/v5/verifharness/wire"
)

// CrossCheck compares the server's internal state (build-tag hook) with the model wherever the
// model is certain, checks structural invariants of the state itself, the reported allocation
// count, and that no mutex is held at this quiescent point.
func (m *Model) CrossCheck() {
	w := m.W
	if w.CallbacksInFlight() > 0 {
		return
	}
	mgrs := w.Srv.VerifManagers()
	total := 0
	seenModel := map[*MAlloc]bool{}
	for li, mgr := range mgrs {
		if held := mgr.VerifLocksHeld(); len(held) > 0 {
			m.Rec.Violate("lock-held", held[0][:min(len(held[0]), 24)], "mutex held at a quiescent point: %v", held)

			continue
		}
		snap, _, ok := mgr.VerifSnapshot()
		if !ok {
			m.Rec.Violate("lock-held", "snapshot", "snapshot could not take the manager locks at a quiescent point")

			continue
		}
		m.Rec.Ev("crosscheck")
		total += len(snap)
		for _, s := range snap {
			var ma *MAlloc
			for _, a := range m.Allocs {
				if a.C.Listener == li && a.C.Addr.String() == s.Src {
					ma = a
				}
			}
			st := Dead
			if ma != nil {
				st = ma.State()
				seenModel[ma] = true
			}
			if st == Dead {
				m.Rec.Violate("snap-alloc-ghost", "ghost", "server holds an allocation for %s (user %s relay %s) that the model says does not exist", s.Src, s.UserID, s.Relay)

				continue
			}
			wantUser := ma.User
			if m.W.Cfg.EmptyUserID {
				wantUser = "" // the operator's auth handler hands out no user ids
			}
			if s.UserID != wantUser || s.Relay != ma.Relay {
				m.Rec.Violate("snap-alloc-mismatch", "user-or-relay", "allocation %s: server has user=%s relay=%s, model user=%s relay=%s", s.Src, s.UserID, s.Relay, ma.User, ma.Relay)
			}
			if st == Maybe {
				continue
			}
			// permissions
			have := map[string]bool{}
			for _, ip := range s.Permissions {
				have[ip] = true
				pip := net.ParseIP(ip)
				pst := ma.PermState(pip)
				if famOf(pip) != ma.Fam {
					m.Rec.Violate("snap-family", "perm", "allocation %s (family %d) holds a permission for %s", s.Src, ma.Fam, ip)
				}
				// (a host the handler started to refuse later keeps what it was granted before, until
				// that expires: the model knows it as live)
				if m.Denied(ma.C, pip) && pst == Dead {
					m.Rec.Violate("snap-denied", "perm", "allocation %s holds a permission for refused peer %s", s.Src, ip)
				}
				if pst == Dead {
					m.Rec.Violate("snap-perm-ghost", "ghost", "allocation %s holds a permission for %s that the model says is absent/expired", s.Src, ip)
				}
			}
			for ip := range ma.Perms {
				if ma.PermState(net.ParseIP(ip)) == Live && !have[ip] {
					m.Rec.Violate("snap-perm-missing", "missing", "allocation %s lacks the permission for %s that the model says is live", s.Src, ip)
				}
			}
			// channels
			nums := map[uint16]string{}
			peers := map[string]uint16{}
			for _, ch := range s.Channels {
				if !wire.ValidChannel(ch.Number) {
					m.Rec.Violate("snap-chan-range", rangeClass(ch.Number), "allocation %s has bound out-of-range channel 0x%04x", s.Src, ch.Number)
				}
				if p, dup := nums[ch.Number]; dup {
					m.Rec.Violate("snap-chan-bijection", "number", "allocation %s: channel 0x%04x bound to both %s and %s", s.Src, ch.Number, p, ch.Peer)
				}
				if n, dup := peers[ch.Peer]; dup {
					m.Rec.Violate("snap-chan-bijection", "peer", "allocation %s: peer %s bound to both 0x%04x and 0x%04x", s.Src, ch.Peer, n, ch.Number)
				}
				nums[ch.Number] = ch.Peer
				peers[ch.Peer] = ch.Number
				mc, cst := ma.ChanByNum(ch.Number)
				if cst == Dead || (mc != nil && mc.Peer != ch.Peer && cst == Live) {
					m.Rec.Violate("snap-chan-ghost", "ghost", "allocation %s has channel 0x%04x->%s; model: %s", s.Src, ch.Number, ch.Peer, describeChan(mc, cst))
				}
				if ua, err := net.ResolveUDPAddr("udp", ch.Peer); err == nil {
					if famOf(ua.IP) != ma.Fam {
						m.Rec.Violate("snap-family", "chan", "allocation %s (family %d) holds a channel to %s", s.Src, ma.Fam, ch.Peer)
					}
					if m.Denied(ma.C, ua.IP) && cst == Dead {
						m.Rec.Violate("snap-denied", "chan", "allocation %s holds a channel to refused peer %s", s.Src, ch.Peer)
					}
				}
			}
			for _, mc := range ma.Chans {
				if _, cst := ma.ChanByNum(mc.Num); cst == Live {
					if cur, _ := ma.ChanByNum(mc.Num); cur == mc && nums[mc.Num] != mc.Peer {
						m.Rec.Violate("snap-chan-missing", "missing", "allocation %s lacks channel 0x%04x->%s that the model says is live", s.Src, mc.Num, mc.Peer)
					}
				}
			}
		}
	}
	for _, a := range m.Allocs {
		if a.State() == Live && !seenModel[a] {
			m.Rec.Violate("snap-alloc-missing", "missing", "model says %s holds a live allocation (relay %s, expires %s) but the server has none", a.C.Name, a.Relay, a.Exp.Format("15:04:05"))
		}
	}
	m.lateEvents()
	live, maybe := m.LiveCount()
	cnt := w.Srv.AllocationCount()
	if cnt != total {
		m.Rec.Violate("count-mismatch", "count-vs-state", "AllocationCount()=%d but the managers hold %d allocations", cnt, total)
	}
	if cnt < live || cnt > live+maybe {
		m.Rec.Violate("count-mismatch", "count-vs-model", "AllocationCount()=%d, model says %d live (+%d at an expiry instant)", cnt, live, maybe)
	}
}

func describeChan(c *MChan, st Tri) string {
	if c == nil {
		return "unbound"
	}

	return fmt.Sprintf("0x%04x->%s %s", c.Num, c.Peer, st)
}

// lateEvents: once the operator has been told that an allocation is gone, nothing of it is left
// to report - a permission- or channel-deleted callback that arrives at a later (virtual) time
// for the same 5-tuple, with no new allocation in between, belongs to state that outlived its
// allocation. Events are consumed incrementally.
func (m *Model) lateEvents() {
	evs := m.W.Events()
	if m.allocGoneAt == nil {
		m.allocGoneAt = map[string]time.Time{}
	}
	for ; m.evSeen < len(evs); m.evSeen++ {
		ev := evs[m.evSeen]
		k := ev.Net + "/" + ev.Src + ">" + ev.Dst
		switch ev.Kind {
		case "alloc+":
			delete(m.allocGoneAt, k)
		case "alloc-":
			m.allocGoneAt[k] = ev.At
		case "perm-", "chan-", "perm+", "chan+":
			if gone, ok := m.allocGoneAt[k]; ok && ev.At.After(gone) {
				m.Rec.Violate("event-after-allocation-deleted", ev.Kind, "%s callback for %s (peer %s) at %s, %v after the allocation-deleted callback of that 5-tuple", ev.Kind, k, ev.Peer, ev.At.Format("15:04:05"), ev.At.Sub(gone))
			}
		}
	}
}
