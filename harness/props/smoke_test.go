package props

import (
	"math/rand"
	"net"
	"testing"
	"testing/synctest"
	"time"

	"github.com/pion/turn/v5/verifharness/sim"
	"github.com/pion/turn/v5/verifharness/wire"
)

func TestSmoke(t *testing.T) {
	synctest.Test(t, func(t *testing.T) {
		rec := sim.NewRec("C00")
		w, err := sim.NewWorld(sim.Config{
			Realm: "r", Users: map[string]string{"u": "p"},
			UDPListeners: []*net.UDPAddr{{IP: sim.ServerIP4, Port: 3478}},
		}, rec, rand.New(rand.NewSource(1)), true)
		if err != nil {
			t.Fatal(err)
		}
		defer w.Shutdown()
		c, _ := w.NewUDPClient("c1", net.IPv4(10, 1, 0, 1).To4(), 5000, 0, "u")
		p, _ := w.NewPeer("p1", net.IPv4(10, 2, 0, 1).To4(), 7000)
		resp := c.Allocate(sim.AllocOpts{})
		if resp == nil || resp.Class != wire.ClassSuccess {
			t.Fatalf("allocate: %+v", resp)
		}
		relay, _ := sim.RelayAddrOf(resp)
		lt, _ := resp.Lifetime()
		t.Logf("relay %v lifetime %d count %d", relay, lt, w.Srv.AllocationCount())
		r2 := c.CreatePermission(p.Addr)
		t.Logf("createperm class %d code %d", r2.Class, r2.ErrorCode())
		_ = c.SendRaw(c.SendIndicationBytes(p.Addr, []byte("hello")))
		w.Settle()
		for _, d := range p.UDP.Drain() {
			t.Logf("peer got %q from %v", d.Data, d.Src)
		}
		_, _ = p.UDP.WriteTo([]byte("world"), relay)
		w.Settle()
		c.Collect()
		for _, in := range c.TakeInbox() {
			if in.STUN != nil {
				d, _ := in.STUN.Get(wire.AttrData)
				t.Logf("client got method %x class %d data %q", in.STUN.Method, in.STUN.Class, d)
			}
		}
		snap, _, ok := w.Srv.VerifManagers()[0].VerifSnapshot()
		t.Logf("snap ok=%v %+v", ok, snap)
		time.Sleep(9*time.Minute + 59*time.Second)
		w.Settle()
		t.Logf("count at 9:59 = %d", w.Srv.AllocationCount())
		time.Sleep(2 * time.Second)
		w.Settle()
		t.Logf("count at 10:01 = %d", w.Srv.AllocationCount())
		for _, e := range w.Events() {
			t.Logf("ev %+v", e)
		}
	})
}
