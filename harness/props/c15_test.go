package props

import (
	"bytes"
	"fmt"
	"math/rand"
	"net"
	"runtime"
	"sort"
	"strings"
	"testing"
	"time"

	"github.com/pion/turn/v5/verifharness/sim"
	"github.com/pion/turn/v5/verifharness/simnet"
	"github.com/pion/turn/v5/verifharness/wire"
)

// C15: server resources and lifecycle events stay balanced through every teardown.
// A random base history (UDP and TCP allocations, permissions, channels) is cut at a random
// prefix and one teardown cause is injected there - expiry, Refresh 0, control-connection
// close, relay read error, relay accept error, Server.Close - optionally while a lifecycle
// callback of some kind is slow. At every quiescent point: the generator's ledger of sockets,
// the event log, the armed-timer hook, the goroutine census and AllocationCount must all agree
// with the model; after Server.Close nothing may remain or happen for two more virtual hours.

func init() {
	sim.RegisterKind("ledger-open-after-death", "C15", "C06")
	sim.RegisterKind("ledger-closed-while-alive", "C15")
	sim.RegisterKind("events-unbalanced", "C15")
	sim.RegisterKind("events-double-delete", "C15")
	sim.RegisterKind("events-delete-without-create", "C15")
	sim.RegisterKind("events-vs-state", "C15")
	sim.RegisterKind("timer-armed-on-dead", "C15")
	sim.RegisterKind("goroutine-census", "C15")
	sim.RegisterKind("activity-after-close", "C15")
	sim.RegisterKind("remains-after-close", "C15")
}

// census counts live goroutines of this bubble by the pion/turn function they run.
func census() map[string]int {
	buf := make([]byte, 4<<20)
	buf = buf[:runtime.Stack(buf, true)]
	out := map[string]int{}
	for _, g := range bytes.Split(buf, []byte("\n\n")) {
		hdr, _, _ := bytes.Cut(g, []byte("\n"))
		if !bytes.Contains(hdr, []byte("synctest bubble")) {
			continue
		}
		s := string(g)
		switch {
		case strings.Contains(s, "(*Allocation).packetConnHandler"):
			out["relay-udp-loop"]++
		case strings.Contains(s, "(*Allocation).connHandler"):
			out["relay-tcp-accept-loop"]++
		case strings.Contains(s, "handleConnectionBindRequest"):
			out["bound-data-conn"]++
		case strings.Contains(s, "(*Server).readListener.func1"):
			out["control-conn"]++
		case strings.Contains(s, "(*Server).readListener"):
			out["tcp-listener"]++
		case strings.Contains(s, "(*Server).readLoop"):
			out["udp-listener"]++
		case strings.Contains(s, "pion/turn/v5"):
			if !strings.Contains(s, "verifharness/props.") || strings.Contains(s, "pion/turn/v5/internal") {
				if strings.Contains(s, "pion/turn/v5/internal/") || strings.Contains(s, "pion/turn/v5.(") {
					out["other-library"]++
				}
			}
		}
	}

	return out
}

type c15 struct {
	h            *hist
	seen         map[allocHandle]string
	serverClosed bool
	evBefore     int
	tieMode      bool
}

// invariants evaluates every C15 oracle at a quiescent point.
func (x *c15) invariants(when string) {
	h := x.h
	w, m, rec := h.w, h.m, h.rec
	if w.CallbacksInFlight() > 0 {
		return
	}
	if !x.tieMode {
		h.m.Audit(nil)
		m.CrossCheck()
	}
	// ---- ledger: relay sockets / listeners open exactly for live allocations
	liveRelays := map[string]*sim.MAlloc{}
	maybe := false
	liveUDP, liveTCP := 0, 0
	for _, a := range m.Allocs {
		switch a.State() {
		case sim.Live:
			liveRelays[a.Relay] = a
			if a.TCP {
				liveTCP++
			} else {
				liveUDP++
			}
		case sim.Maybe:
			maybe = true
		}
	}
	if maybe {
		return
	}
	resources := w.Gen.Resources() // in the order they were handed out
	for i, r := range resources {
		if r.Kind == "conn" {
			continue
		}
		a, alive := liveRelays[r.Addr]
		ownerAlive := alive && ((r.Kind == "listener") == a.TCP)
		// an older resource with the same address as a live allocation (port reuse, or the
		// throw-away probe socket of an EVEN-PORT request handed out in the same instant) is dead
		if ownerAlive {
			for _, r2 := range resources[i+1:] {
				if r2.Addr == r.Addr && r2.Kind == r.Kind {
					ownerAlive = false
				}
			}
		}
		switch {
		case r.Open() && !ownerAlive:
			// reserved even-port probes are closed by the manager itself immediately; everything else is a leak
			rec.Violate("ledger-open-after-death", r.Kind, "%s relay resource %s (user %s, handed out at %s) is still open although no live allocation owns it (%s)", r.Kind, r.Addr, r.User, r.At.Format("15:04:05"), when)
		case !r.Open() && ownerAlive:
			rec.Violate("ledger-closed-while-alive", r.Kind, "%s relay resource %s is closed although allocation of %s is alive (%s)", r.Kind, r.Addr, a.C.Name, when)
		}
		if r.Kind == "udp" && r.UDP.CloseCnt > 1 {
			rec.Ev("note/relay-socket-closed-more-than-once")
		}
	}
	// ---- lifecycle events pair up
	type key struct{ kind, id string }
	bal := map[key]int{}
	for _, ev := range w.Events() {
		var k key
		var d int
		switch ev.Kind {
		case "alloc+", "alloc-":
			k = key{"alloc", ev.Net + "/" + ev.Src + ">" + ev.Dst}
		case "perm+", "perm-":
			k = key{"perm", ev.Net + "/" + ev.Src + ">" + ev.Dst + "|" + ev.Peer}
		case "chan+", "chan-":
			k = key{"chan", fmt.Sprintf("%s/%s>%s|%d|%s", ev.Net, ev.Src, ev.Dst, ev.Num, ev.Peer)}
		default:
			continue
		}
		if strings.HasSuffix(ev.Kind, "+") {
			d = 1
		} else {
			d = -1
		}
		bal[k] += d
		switch {
		case bal[k] < 0:
			kind := "events-delete-without-create"
			rec.Violate(kind, k.kind, "%s deleted-event without a matching created-event for %s at %s (%s)", k.kind, k.id, ev.At.Format("15:04:05"), when)
			bal[k] = 0
		case bal[k] > 1:
			rec.Violate("events-unbalanced", k.kind+"/double-create", "%s created twice without a delete in between: %s (%s)", k.kind, k.id, when)
			bal[k] = 1
		}
	}
	// outstanding created-events must be exactly what the server state holds
	outstanding := map[string]int{}
	for k, v := range bal {
		if v == 1 {
			outstanding[k.kind]++
		}
	}
	nAlloc, nPerm, nChan := 0, 0, 0
	for _, mgr := range w.Srv.VerifManagers() {
		snap, _, ok := mgr.VerifSnapshot()
		if !ok {
			return
		}
		for _, s := range snap {
			nAlloc++
			nPerm += len(s.Permissions)
			nChan += len(s.Channels)
		}
	}
	if outstanding["alloc"] != nAlloc || outstanding["perm"] != nPerm || outstanding["chan"] != nChan {
		rec.Violate("events-vs-state", "count", "created-minus-deleted events say %d allocations / %d permissions / %d channels exist, the server holds %d / %d / %d (%s)", outstanding["alloc"], outstanding["perm"], outstanding["chan"], nAlloc, nPerm, nChan, when)
	}
	// ---- armed timers on dead allocations (handles collected while they lived)
	for hnd, name := range x.handles() {
		if hnd.VerifClosed() && hnd.VerifStopLifetimeTimerIfClosed() {
			rec.Violate("timer-armed-on-dead", "allocation", "lifetime timer of the closed allocation of %s was still armed (%s)", name, when)
		}
	}
	// ---- goroutine census
	cs := census()
	openControl := 0
	for _, c := range h.clients {
		if c.IsTCP && !c.Closed {
			openControl++
		}
	}
	if cs["relay-udp-loop"] != liveUDP || cs["relay-tcp-accept-loop"] != liveTCP {
		rec.Violate("goroutine-census", "relay-loops", "relay loops running: %d UDP / %d TCP, live allocations: %d UDP / %d TCP (%s)", cs["relay-udp-loop"], cs["relay-tcp-accept-loop"], liveUDP, liveTCP, when)
	}
	if !x.serverClosed && (cs["udp-listener"] != len(w.ServerUDP) || cs["tcp-listener"] != len(w.ServerTCP) || cs["control-conn"] != openControl) {
		rec.Violate("goroutine-census", "listeners", "listener goroutines: %d udp / %d tcp / %d control connections; expected %d / %d / %d (%s)", cs["udp-listener"], cs["tcp-listener"], cs["control-conn"], len(w.ServerUDP), len(w.ServerTCP), openControl, when)
	}
	rec.Ev("invariant-evaluations")
}

type allocHandle interface {
	VerifClosed() bool
	VerifStopLifetimeTimerIfClosed() bool
}

func (x *c15) handles() map[allocHandle]string {
	out := map[allocHandle]string{}
	for h, n := range x.seen {
		out[h] = n
	}

	return out
}

func (x *c15) collectHandles() {
	for _, mgr := range x.h.w.Srv.VerifManagers() {
		snap, _, ok := mgr.VerifSnapshot()
		if !ok {
			return
		}
		for _, s := range snap {
			x.seen[s.Handle] = s.Src
		}
	}
}

func runC15(t *testing.T, rng *rand.Rand, rec *sim.Rec, tier string, caseNo int) {
	k := Knobs{
		Clients: [2]int{1, 3}, TCPClients: [2]int{0, 2}, Peers: [2]int{2, 4}, Steps: [2]int{3, 12}, V6: 15, Deny: 10,
		TimeoutSets: [][3]time.Duration{{0, 0, 0}, {2 * time.Minute, 3 * time.Minute, 10 * time.Minute}, {7 * time.Minute, 4 * time.Minute, 6 * time.Minute}},
		Lifetimes:   []int64{-1, -1, 600, 1800, 0},
		W:           map[string]int{"allocate": 4, "perm": 5, "chan": 5, "data": 3, "time": 1, "refresh": 1},
		TCPAllocPct: 30, SecondListener: 35,
	}
	h := newHist(t, rng, rec, k)
	x := &c15{h: h, seen: map[allocHandle]string{}}
	switch caseNo % 8 {
	case 4:
		x.runTie(rng)
	case 5:
		x.runLateReadLoop(rng)
	case 6:
		x.runSlowCreatedCallback(rng)
	default:
		x.run(rng, caseNo)
	}
}

// runTie: two expiries of one allocation (or an expiry and a request) fall on the same instant.
// Which of them wins is not determined; that every created-event is answered by exactly one
// deleted-event, that nothing leaks and nothing crashes, is.
func (x *c15) runTie(rng *rand.Rand) {
	h := x.h
	w, m, rec := h.w, h.m, h.rec
	defer w.Shutdown()
	c := h.clients[0]
	if c.IsTCP || len(h.peers) == 0 {
		return
	}
	p := h.peers[0]
	r := m.Allocate(c, sim.AllocOpts{})
	a, st := m.Alloc(c)
	if r == nil || a == nil || st != sim.Live {
		return
	}
	kind := pick(rng, []string{"perm-vs-alloc", "chan-vs-alloc", "perm-vs-chan", "refresh-on-perm-expiry", "refresh0-on-perm-expiry"})
	life := time.Until(a.Exp)
	switch kind {
	case "perm-vs-alloc":
		if life > m.PermTO {
			w.Sleep(life - m.PermTO)
		}
		m.CreatePermission(c, p.Addr) // expires exactly when the allocation does (if the lifetime allows)
	case "chan-vs-alloc":
		if life > m.ChanTO {
			w.Sleep(life - m.ChanTO)
		}
		m.ChannelBind(c, 0x4000, p.Addr)
	case "perm-vs-chan":
		m.ChannelBind(c, 0x4000, p.Addr)
		if m.ChanTO > m.PermTO {
			w.Sleep(m.ChanTO - m.PermTO)
			m.CreatePermission(c, p.Addr) // now both end at the same instant
		}
	default:
		m.CreatePermission(c, p.Addr)
		w.Sleep(m.PermTO) // the next request is handled in the very instant the permission expires
		tid := w.NewTID()
		var b *wire.Builder
		if kind == "refresh-on-perm-expiry" {
			b = wire.NewBuilder(wire.MethodCreatePermission, wire.ClassRequest, tid)
			b.AddXorAddr(wire.AttrXORPeerAddress, p.Addr.IP, p.Addr.Port)
		} else {
			b = wire.NewBuilder(wire.MethodRefresh, wire.ClassRequest, tid)
			b.AddU32(wire.AttrLifetime, 0)
		}
		c.AddAuth(b)
		m.Track(c, tid, 0)
		_ = c.SendRaw(b.Bytes())
		w.Settle()
	}
	x.collectHandles()
	// well past every expiry involved; the model is told that everything of this client is gone
	w.Sleep(life + m.PermTO + m.ChanTO + 10*time.Second)
	w.Net.TakeSendLog()
	for _, cl := range w.Clients {
		cl.Collect()
		cl.TakeInbox()
	}
	a.Gone = true
	x.tieMode = true
	x.invariants("after tie " + kind)
	rec.FP("teardown/tie/%s", kind)
	x.finish("tie-" + kind)
}

// runLateReadLoop: Refresh 0 followed at once by a new Allocate on the same 5-tuple while the old
// relay socket's read loop notices the close only later (it is scheduled late). The successor must
// survive the predecessor's late teardown with all its resources, and vice versa.
func (x *c15) runLateReadLoop(rng *rand.Rand) {
	h := x.h
	w, m, rec := h.w, h.m, h.rec
	defer w.Shutdown()
	w.Gen.CloseNoticeDelay = time.Duration(100+rng.Intn(900)) * time.Millisecond
	c := h.clients[0]
	if c.IsTCP {
		return
	}
	rounds := 1 + rng.Intn(3)
	for i := 0; i < rounds && len(rec.Violations()) == 0; i++ {
		r := m.Allocate(c, sim.AllocOpts{})
		if r == nil || r.Class != 2 {
			if a, st := m.Alloc(c); a == nil || st != sim.Live {
				return
			}
		}
		if rng.Intn(2) == 0 {
			h.actor = c
			m.CreatePermission(c, h.peers[0].Addr)
		}
		x.collectHandles()
		m.Refresh(c, sim.U32(0))
		// no pause: the old read loop has not yet seen its socket close
		m.Allocate(c, sim.AllocOpts{Lifetime: sim.U32(uint32(600 + rng.Intn(600)))})
		x.collectHandles()
		w.Sleep(2 * time.Second) // now it has
		x.invariants(fmt.Sprintf("round %d: successor after the predecessor's late read-loop exit", i))
		if rng.Intn(2) == 0 {
			m.Refresh(c, sim.U32(0))
			w.Sleep(2 * time.Second)
			x.invariants("after deleting the successor")
		}
	}
	rec.FP("teardown/late-read-loop/rounds=%d", rounds)
	x.finish("late-read-loop")
}

// runSlowCreatedCallback: the allocation-created callback takes longer than the allocation's own
// lifetime. Whatever the client was told, shortly after both have passed the allocation must be
// gone with everything it owned.
func (x *c15) runSlowCreatedCallback(rng *rand.Rand) {
	h := x.h
	w, m, rec := h.w, h.m, h.rec
	defer w.Shutdown()
	c := h.clients[0]
	if rng.Intn(2) == 0 {
		// variant: the server is closed while the created-callback of a fresh allocation is still
		// running (preferably one on a TCP control connection, which outlives Server.Close): the
		// allocation ends with the server, and its deleted-event follows its created-event
		for _, cl := range h.clients {
			if cl.IsTCP && !cl.Closed {
				c = cl
			}
		}
		m.Refresh(c, sim.U32(600)) // (no allocation yet: this only fetches a nonce)
		w.SetEventDelay("alloc+", 3*time.Second)
		tid := w.NewTID()
		b := wire.NewBuilder(wire.MethodAllocate, wire.ClassRequest, tid)
		b.Add(wire.AttrRequestedTransport, []byte{17, 0, 0, 0})
		c.AddAuth(b)
		m.Track(c, tid, wire.MethodAllocate)
		_ = c.SendRaw(b.Bytes())
		time.Sleep(200 * time.Millisecond)
		_ = w.Srv.Close()
		x.serverClosed = true
		w.SetEventDelay("alloc+", 0)
		w.Sleep(8 * time.Second)
		m.AuditIgnoring(c)
		// judged while the client still holds its control connection open (its closing would clean
		// up whatever the server forgot)
		if n := w.Srv.AllocationCount(); n != 0 {
			rec.Violate("remains-after-close", "allocations", "AllocationCount=%d eight seconds after Server.Close (the server was closed while the created-callback of that allocation was running; the client is still connected)", n)
		}
		plus, minus := 0, 0
		for _, ev := range w.Events() {
			switch ev.Kind {
			case "alloc+":
				plus++
			case "alloc-":
				minus++
			}
		}
		if plus != minus {
			rec.Violate("events-vs-state", "count", "%d allocation-created and %d allocation-deleted events eight seconds after Server.Close", plus, minus)
		}
		rec.FP("teardown/server-closed-during-created-callback/tcp=%v", c.IsTCP)
		x.finish("server-closed-during-created-callback")

		return
	}
	life := uint32(1 + rng.Intn(3))
	delay := time.Duration(life)*time.Second + time.Duration(500+rng.Intn(3000))*time.Millisecond
	w.SetEventDelay("alloc+", delay)
	m.Allocate(c, sim.AllocOpts{Lifetime: sim.U32(life)})
	w.SetEventDelay("alloc+", 0)
	x.collectHandles()
	// the statement does not say what the client may assume when the callback outlives the lifetime;
	// it does say that an expired allocation holds nothing: judge only after both have passed
	w.Sleep(delay + time.Duration(life)*time.Second + 5*time.Second)
	if a, _ := m.Alloc(c); a != nil {
		a.Gone = true
	}
	x.collectHandles()
	x.invariants("after lifetime and slow created-callback have both passed")
	rec.FP("teardown/slow-created-callback/life=%d", life)
	x.finish("slow-created-callback")
}

func (x *c15) run(rng *rand.Rand, caseNo int) {
	h := x.h
	w, m, rec := h.w, h.m, h.rec
	defer w.Shutdown()
	// base history
	ops := []string{}
	for op, wgt := range h.k.W {
		for i := 0; i < wgt; i++ {
			ops = append(ops, op)
		}
	}
	sort.Strings(ops)
	for i := 0; i < 1+len(h.clients)/2; i++ {
		h.opAllocate()
	}
	n := between(rng, h.k.Steps)
	for i := 0; i < n && len(rec.Violations()) == 0; i++ {
		switch pick(rng, ops) {
		case "allocate":
			h.opAllocate()
		case "perm":
			h.opCreatePerm()
		case "chan":
			h.opChanBind()
		case "data":
			h.dataStep(1 + rng.Intn(4))
		case "time":
			h.opTime()
		case "refresh":
			h.opRefresh()
		}
		x.collectHandles()
		x.invariants(fmt.Sprintf("base step %d", i))
	}
	// slow lifecycle callback across the teardown instant?
	slow := pick(rng, []string{"", "", "alloc-", "perm-", "chan-", "alloc+", "perm+", "chan+"})
	if slow != "" {
		w.SetEventDelay(slow, time.Duration(1+rng.Intn(5))*time.Second)
	}
	// teardown cause on one victim
	var victims []*sim.RawClient
	for _, c := range h.open() {
		if a, st := m.Alloc(c); a != nil && st == sim.Live {
			victims = append(victims, c)
		}
	}
	cause := pick(rng, []string{"expiry", "refresh0", "control-close", "relay-read-error", "relay-accept-error", "relay-write-error", "relay-closed-underneath", "server-close", "server-close"})
	if len(victims) == 0 {
		cause = "server-close"
	}
	rec.Tracef("-- teardown cause %s (slow callback %q)", cause, slow)
	if len(victims) > 0 && cause != "server-close" {
		v := pick(rng, victims)
		a, _ := m.Alloc(v)
		var res *sim.Resource
		for _, r := range w.Gen.Resources() {
			if r.Addr == a.Relay && r.Open() && r.Kind != "conn" {
				res = r
			}
		}
		// exact ties (two expiries, or a teardown and an expiry, in the same instant) are out of scope
		// here: C18 explores them for crashes only. Step aside if the teardown instant would tie.
		tie := func(at time.Time) bool {
			near := func(e time.Time) bool {
				d := e.Sub(at)

				return d > -1500*time.Millisecond && d < 1500*time.Millisecond
			}
			for _, cl := range h.clients {
				al, st := m.Alloc(cl)
				if al == nil || st == sim.Dead {
					continue
				}
				if cl != v && near(al.Exp) {
					return true
				}
				for _, e := range al.Perms {
					if near(e) {
						return true
					}
				}
				for _, ch := range al.Chans {
					if near(ch.Exp) {
						return true
					}
				}
			}

			return false
		}
		if cause == "expiry" && tie(a.Exp) {
			cause = "refresh0"
		}
		for i := 0; cause != "expiry" && tie(time.Now()) && i < 10; i++ {
			w.Sleep(2 * time.Second)
		}
		switch cause {
		case "expiry":
			if d := time.Until(a.Exp.Add(time.Second)); d > 0 {
				// stay clear of permission/channel expiries of other allocations: ties are out of scope here
				w.Sleep(d)
			}
		case "refresh0":
			m.Refresh(v, sim.U32(0))
		case "control-close":
			if v.IsTCP {
				v.Close()
				w.Settle()
				m.ClientClosed(v)
			} else {
				cause = "refresh0"
				m.Refresh(v, sim.U32(0))
			}
		case "relay-read-error":
			if res != nil && res.Kind == "udp" {
				res.UDP.FailNextRead(simnet.ErrInjected)
				w.Settle()
				m.ClientClosed(v)
			} else {
				cause = "relay-accept-error"
				if res != nil {
					res.L.FailNextAccept(simnet.ErrInjected)
					w.Settle()
					m.ClientClosed(v)
				}
			}
		case "relay-closed-underneath":
			// the relay socket / listener is closed under the server's feet (the operator's generator
			// handed out something it tears down itself): the allocation ends, and closing the relay a
			// second time fails - everything else of the allocation is released all the same
			if res != nil {
				if res.Kind == "udp" {
					_ = res.UDP.Close()
				} else {
					_ = res.L.Close()
				}
				w.Settle()
				m.ClientClosed(v)
			} else {
				cause = "refresh0"
				m.Refresh(v, sim.U32(0))
			}
		case "relay-accept-error":
			if res != nil && res.Kind == "listener" {
				res.L.FailNextAccept(simnet.ErrInjected)
				w.Settle()
				m.ClientClosed(v)
			} else if res != nil {
				cause = "relay-read-error"
				res.UDP.FailNextRead(simnet.ErrInjected)
				w.Settle()
				m.ClientClosed(v)
			}
		case "relay-write-error":
			// the relay socket refuses writes: data is lost but nothing may be torn down or leak
			if res != nil && res.Kind == "udp" {
				res.UDP.WriteHook = func([]byte, net.Addr) (int, error, bool) { return 0, simnet.ErrInjected, true }
				for _, p := range h.peers {
					_ = v.SendRaw(v.SendIndicationBytes(p.Addr, []byte("write-fails")))
				}
				w.Settle()
				res.UDP.WriteHook = nil
				w.Net.TakeSendLog()
			}
		}
		// let slow callbacks finish, then judge
		w.Sleep(8 * time.Second)
		x.collectHandles()
		x.invariants("after " + cause)
		// the freed 5-tuple can be allocated again and the new allocation owns fresh resources
		if !v.Closed && cause != "relay-write-error" && rng.Intn(2) == 0 {
			m.Allocate(v, sim.AllocOpts{})
			x.collectHandles()
			x.invariants("after re-allocate")
		}
	}
	rec.FP("teardown/%s/slow=%s", cause, slow)
	x.finish(cause)
	rec.SetSample(map[string]any{"base_steps": n, "cause": cause, "slow_callback": slow, "events": x.evBefore, "resources": len(w.Gen.Resources())})
}

// finish: Server.Close, clients close their sockets; nothing may remain or happen afterwards.
func (x *c15) finish(cause string) {
	h := x.h
	w, m, rec := h.w, h.m, h.rec
	// finally: Server.Close, clients close their sockets; nothing may remain or happen afterwards.
	// Now and then the application has closed the first listener's socket itself beforehand:
	// Server.Close then meets a Close error on that one and must still release everything else.
	if len(w.ServerUDP) >= 2 && h.rng.Intn(2) == 0 {
		_ = w.ServerUDP[0].Close()
		w.Settle()
		rec.FP("server-close/first-listener-already-closed")
	}
	// every other time permitted peers keep sending while the server closes: the relay loops meet
	// the already closed listener socket when they pass these datagrams on
	stopFlood := make(chan struct{})
	floodDone := make(chan struct{})
	flooding := h.rng.Intn(2) == 0
	if flooding {
		type tgt struct {
			p     *sim.Peer
			relay *net.UDPAddr
		}
		var tgts []tgt
		for _, a := range m.Allocs {
			if a.State() != sim.Live || a.TCP || a.RelayUDP == nil {
				continue
			}
			for _, p := range h.peers {
				if a.PermState(p.Addr.IP) == sim.Live {
					tgts = append(tgts, tgt{p, a.RelayUDP})
				}
			}
		}
		go func() {
			defer close(floodDone)
			for i := 0; i < 4000 && len(tgts) > 0; i++ {
				select {
				case <-stopFlood:
					return
				default:
				}
				t := tgts[i%len(tgts)]
				_, _ = t.p.UDP.WriteTo([]byte("sent-while-the-server-closes"), t.relay)
				runtime.Gosched()
			}
		}()
		rec.FP("server-close/peers-keep-sending/targets>0=%v", len(tgts) > 0)
	} else {
		close(floodDone)
	}
	_ = w.Srv.Close()
	close(stopFlood)
	<-floodDone
	if flooding {
		// (what was relayed of the flood before the sockets went away is not part of any judged step)
		w.Settle()
		w.Net.TakeSendLog()
		for _, c := range h.clients {
			if c.IsTCP && !c.Closed {
				c.Collect()
				c.TakeInbox()
			}
		}
	}
	x.serverClosed = true
	w.Sleep(8 * time.Second)
	for _, c := range h.clients {
		if !c.Closed {
			c.Close()
		}
		m.ClientClosed(c)
	}
	for _, a := range m.Allocs {
		a.Gone = true
	}
	w.Sleep(8 * time.Second)
	w.Net.TakeSendLog()
	evBefore, logBefore := len(w.Events()), w.Log.TotalCalls()
	x.evBefore = evBefore
	x.invariants("after Server.Close")
	if n := w.Srv.AllocationCount(); n != 0 {
		rec.Violate("remains-after-close", "allocations", "AllocationCount=%d after Server.Close", n)
	}
	for _, r := range w.Gen.Resources() {
		if r.Open() {
			rec.Violate("remains-after-close", r.Kind, "%s resource %s still open after Server.Close", r.Kind, r.Addr)
		}
	}
	cs := census()
	total := 0
	for _, v := range cs {
		total += v
	}
	if total != 0 {
		rec.Violate("remains-after-close", "goroutines", "library goroutines still running after Server.Close and all client sockets closed: %v", cs)
	}
	w.Sleep(2 * time.Hour)
	if ev := w.Events(); len(ev) != evBefore {
		rec.Violate("activity-after-close", "event", "lifecycle event %s(%s) fired %v after Server.Close", ev[evBefore].Kind, ev[evBefore].Peer, ev[evBefore].At.Format("15:04:05"))
	}
	if lc := w.Log.TotalCalls(); lc != logBefore {
		rec.Violate("activity-after-close", "log", "the library logged %d more lines during two hours after Server.Close (a timer fired on dead state)", lc-logBefore)
	}
	if sl := w.Net.TakeSendLog(); len(sl) > 0 {
		rec.Violate("activity-after-close", "datagram", "%d datagrams were sent during two hours after Server.Close", len(sl))
	}
}

func init() {
	register("C15", PropDef{
		Bubble: true,
		Cases: func(tier string) int {
			if tier == "thorough" {
				return 60000
			}

			return 1000
		},
		Run: func(t *testing.T, rng *rand.Rand, rec *sim.Rec, tier string, caseNo int) {
			if caseNo%40 == 19 {
				// an allocation ends while its Connect is still dialling: the connection that dial
				// produces later is released as well
				runSlowConnect(t, rng, rec, tier, caseNo)

				return
			}
			if caseNo%8 == 7 {
				// peer TCP connections are resources too: RFC 6062 histories with teardowns
				runC16(t, rng, rec, tier, caseNo)

				return
			}
			runC15(t, rng, rec, tier, caseNo)
		},
	})
}
