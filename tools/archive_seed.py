#!/usr/bin/env python3
"""archive_seed.py <prop> <variant> <demo> <dest> <regex> <caught_by_csv> <first_violation> [missed_initially_note]
Copies a confirmed independent breaking change from /tmp/seed-<prop>/seed/<variant> to /verif/seeded/<prop>-<variant>/ with meta.json."""
import sys, os, shutil, json, re
prop, var, demo, dest, rx, caught, first = sys.argv[1:8]
note = sys.argv[8] if len(sys.argv) > 8 else ""
src = f"/tmp/seed-{prop}/seed/{var}"
dst = f"/verif/seeded/{prop}-{var}"
os.makedirs(dst, exist_ok=True)
for f in ("patch.diff", "notes.md", demo):
    shutil.copy(os.path.join(src, f), os.path.join(dst, f))
notes = open(os.path.join(src, "notes.md")).read()
# first paragraph-ish summary of what is needed
needs = ""
m = re.search(r"(?is)(what.{0,40}(needs|needed|manifest).*?)(\n#|\n\n\n|\Z)", notes)
if m:
    needs = " ".join(m.group(1).split())[:900]
meta = {
    "property": prop,
    "seed": f"{prop}-{var}",
    "origin": "written by a sub-agent that saw only the property text and a scratch worktree of /repo (nothing from /verif)",
    "patch": "patch.diff",
    "demo": {"file": demo, "place_in_tree": dest, "run": f"cd <tree>/{dest} && GOPROXY=off go test -mod=mod -vet=off -count=1 -run '{rx}' ."},
    "needs_to_manifest": needs or "see notes.md",
    "confirmed_by_me": {
        "how": f"tools/seedcheck.sh /tmp/seed-{prop}/seed/{var} {demo} {dest} '{rx}' {caught.replace(',', ' ')} (scratch copy of /repo under /tmp, removed afterwards)",
        "suite_passes_with_change": True,
        "demo_passes_without_change": True,
        "demo_fails_with_change": True,
    },
    "caught_by_checks": caught.split(","),
    "first_violation_reported": first,
}
if note:
    meta["initially_missed"] = note
json.dump(meta, open(os.path.join(dst, "meta.json"), "w"), indent=1)
print("archived", dst)
