// Package simnet is an in-memory network for running pion/turn inside a
// testing/synctest bubble (virtual time) or outside of it (real time).
//
// Blocking primitives are sync.Cond waits only, which synctest treats as durably
// blocking, so synctest.Wait() returns once the library has finished reacting to
// everything delivered so far.
//
// Semantics kept close to real sockets where the properties depend on them:
//   - UDP ReadFrom copies min(len(buf), len(datagram)) bytes and discards the rest.
//   - UDP WriteTo of more than 65507 bytes fails (EMSGSIZE).
//   - binding an address that is in use fails.
//   - TCP is a reliable byte stream whose segmentation (how many bytes a Read returns)
//     is chosen by a per-connection plan.
package simnet

import (
	"errors"
	"fmt"
	"io"
	"net"
	"os"
	"sort"
	"sync"
	"time"
)

// MaxUDPPayload is the largest UDP payload over IPv4.
const MaxUDPPayload = 65507

var (
	ErrAddrInUse   = errors.New("simnet: address already in use")
	ErrMsgSize     = errors.New("simnet: message too long")
	ErrRefused     = errors.New("simnet: connection refused")
	ErrInjected    = errors.New("simnet: injected fault")
	errNotUDPAddr  = errors.New("simnet: not a UDP address")
	errBadNetwork  = errors.New("simnet: network/address family mismatch")
	errPortInvalid = errors.New("simnet: invalid port")
)

// Fate is the decision of the fault plan for one datagram.
type Fate struct {
	Drop  bool
	Dup   int           // extra copies
	Delay time.Duration // deliver after this (virtual) delay
}

// Dgram is one datagram as seen by a receiver, or recorded in the send log.
type Dgram struct {
	Seq  uint64
	At   time.Time
	Src  *net.UDPAddr
	Dst  *net.UDPAddr
	Data []byte
	// Routed is false when nobody was bound at Dst (datagram vanished).
	Routed bool
	// Sock is the sending socket (nil for injected datagrams).
	Sock *UDPConn
}

// Net is one simulated network.
type Net struct {
	mu       sync.Mutex
	udp      map[string]*UDPConn
	lst      map[string]*Listener
	tcpLocal map[string]int // bound local tcp addr -> number of conns (relay addr reuse is allowed, like SO_REUSEPORT)
	seq      uint64
	nextPort int

	// DualStack lets a socket bound to [::] receive datagrams addressed to the host's IPv4
	// addresses; their source is then reported in IPv4-mapped form, as the kernel does.
	DualStack bool

	// Plan, when set, decides the fate of each datagram. Called with n.mu NOT held.
	Plan func(d *Dgram) Fate

	// SendLog records every WriteTo (before delivery) when LogSends is true.
	LogSends bool
	sendLog  []Dgram

	// AllConns / AllUDP keep every object ever created, for end-of-scenario sweeps.
	allUDP []*UDPConn
	allTCP []*Conn
	allLst []*Listener
}

// New creates a network.
func New() *Net {
	return &Net{
		udp:      map[string]*UDPConn{},
		lst:      map[string]*Listener{},
		tcpLocal: map[string]int{},
		nextPort: 20000,
	}
}

func key(ip net.IP, port int) string {
	if ip4 := ip.To4(); ip4 != nil {
		return fmt.Sprintf("%s:%d", ip4.String(), port)
	}

	return fmt.Sprintf("[%s]:%d", ip.String(), port)
}

func wildcardKey(ip net.IP, port int) string {
	if ip.To4() != nil {
		return fmt.Sprintf("0.0.0.0:%d", port)
	}

	return fmt.Sprintf("[::]:%d", port)
}

// TakeSendLog returns and clears the send log.
func (n *Net) TakeSendLog() []Dgram {
	n.mu.Lock()
	defer n.mu.Unlock()
	l := n.sendLog
	n.sendLog = nil

	return l
}

// FreePort returns a port not bound for UDP on ip.
func (n *Net) freePortLocked(ip net.IP, tcp bool) int {
	for {
		n.nextPort++
		if n.nextPort > 60000 {
			n.nextPort = 20001
		}
		k := key(ip, n.nextPort)
		if tcp {
			if _, ok := n.lst[k]; ok {
				continue
			}
			if n.tcpLocal[k] > 0 {
				continue
			}
		} else if _, ok := n.udp[k]; ok {
			continue
		}

		return n.nextPort
	}
}

// ---------------------------------------------------------------- UDP

// UDPConn is a simulated UDP socket.
type UDPConn struct {
	net   *Net
	local *net.UDPAddr
	Name  string

	mu        sync.Mutex
	cond      *sync.Cond
	q         []Dgram
	closed    bool
	rdl       time.Time
	rdlTimer  *time.Timer
	CloseCnt  int
	ReadCalls int
	// CloseNoticeDelay delays the error a blocked ReadFrom returns after Close (set before Close).
	CloseNoticeDelay time.Duration
	closeNoticeAt    time.Time

	// fault injection (guarded by mu)
	readErr   error                                           // returned by the next ReadFrom (once)
	WriteHook func(b []byte, dst net.Addr) (int, error, bool) // if handled==true its result is returned
	// Received counts datagrams enqueued.
	Received int
	Sent     int
	egress   net.IP
}

// SetEgressIP gives a wildcard-bound socket the source address its datagrams leave with (a real
// host uses the address of the outgoing interface - not necessarily the one the peer wrote to).
func (c *UDPConn) SetEgressIP(ip net.IP) {
	c.mu.Lock()
	c.egress = ip
	c.mu.Unlock()
}

// ListenUDP binds a UDP socket. port 0 picks a free port.
func (n *Net) ListenUDP(ip net.IP, port int) (*UDPConn, error) {
	n.mu.Lock()
	defer n.mu.Unlock()
	if port < 0 || port > 65535 {
		return nil, errPortInvalid
	}
	if port == 0 {
		port = n.freePortLocked(ip, false)
	}
	k := key(ip, port)
	if _, ok := n.udp[k]; ok {
		return nil, fmt.Errorf("%w: udp %s", ErrAddrInUse, k)
	}
	c := &UDPConn{net: n, local: &net.UDPAddr{IP: append(net.IP{}, ip...), Port: port}}
	c.cond = sync.NewCond(&c.mu)
	n.udp[k] = c
	n.allUDP = append(n.allUDP, c)

	return c, nil
}

// UDPBound reports whether a UDP socket is bound at ip:port.
func (n *Net) UDPBound(ip net.IP, port int) bool {
	n.mu.Lock()
	defer n.mu.Unlock()
	_, ok := n.udp[key(ip, port)]

	return ok
}

func (n *Net) lookupUDP(dst *net.UDPAddr) *UDPConn {
	if c, ok := n.udp[key(dst.IP, dst.Port)]; ok {
		return c
	}
	if c, ok := n.udp[wildcardKey(dst.IP, dst.Port)]; ok {
		return c
	}
	// a dual-stack [::] socket also receives IPv4 traffic (Linux default, bindv6only=0)
	if n.DualStack && dst.IP.To4() != nil {
		if c, ok := n.udp[fmt.Sprintf("[::]:%d", dst.Port)]; ok {
			return c
		}
	}

	return nil
}

func (c *UDPConn) enqueue(d Dgram) {
	c.mu.Lock()
	if !c.closed {
		c.q = append(c.q, d)
		c.Received++
		c.cond.Broadcast()
	}
	c.mu.Unlock()
}

// SetWriteHook installs (or clears) the write hook while other goroutines may be writing.
func (c *UDPConn) SetWriteHook(h func(b []byte, addr net.Addr) (int, error, bool)) {
	c.mu.Lock()
	c.WriteHook = h
	c.mu.Unlock()
}

// Inject places a datagram in the receive queue as if it came from src.
func (c *UDPConn) Inject(data []byte, src *net.UDPAddr) {
	c.enqueue(Dgram{At: time.Now(), Src: src, Dst: c.local, Data: append([]byte{}, data...), Routed: true})
}

// ReadFrom implements net.PacketConn.
func (c *UDPConn) ReadFrom(b []byte) (int, net.Addr, error) {
	c.mu.Lock()
	defer c.mu.Unlock()
	c.ReadCalls++
	for {
		if c.readErr != nil {
			err := c.readErr
			c.readErr = nil

			return 0, nil, err
		}
		if c.closed && !time.Now().Before(c.closeNoticeAt) {
			return 0, nil, net.ErrClosed
		}
		if len(c.q) > 0 && !c.closed {
			d := c.q[0]
			c.q = c.q[1:]
			n := copy(b, d.Data)

			return n, d.Src, nil
		}
		if !c.rdl.IsZero() && !time.Now().Before(c.rdl) {
			return 0, nil, os.ErrDeadlineExceeded
		}
		c.cond.Wait()
	}
}

// FailNextRead makes the next (or the currently blocked) ReadFrom return err.
func (c *UDPConn) FailNextRead(err error) {
	c.mu.Lock()
	c.readErr = err
	c.cond.Broadcast()
	c.mu.Unlock()
}

// Drain returns all queued datagrams without blocking.
func (c *UDPConn) Drain() []Dgram {
	c.mu.Lock()
	defer c.mu.Unlock()
	q := c.q
	c.q = nil

	return q
}

// QueueLen returns the number of queued datagrams.
func (c *UDPConn) QueueLen() int {
	c.mu.Lock()
	defer c.mu.Unlock()

	return len(c.q)
}

// WriteTo implements net.PacketConn.
func (c *UDPConn) WriteTo(b []byte, addr net.Addr) (int, error) {
	dst, ok := addr.(*net.UDPAddr)
	if !ok {
		return 0, errNotUDPAddr
	}
	c.mu.Lock()
	if c.closed {
		c.mu.Unlock()

		return 0, net.ErrClosed
	}
	hook := c.WriteHook
	c.Sent++
	src := c.local
	if c.egress != nil {
		src = &net.UDPAddr{IP: c.egress, Port: c.local.Port}
	}
	c.mu.Unlock()
	if hook != nil {
		if n, err, handled := hook(b, addr); handled {
			return n, err
		}
	}
	if len(b) > MaxUDPPayload {
		return 0, ErrMsgSize
	}
	c.net.route(c, src, dst, b)

	return len(b), nil
}

func (n *Net) route(sock *UDPConn, src, dst *net.UDPAddr, b []byte) {
	d := Dgram{
		Sock: sock,
		At:   time.Now(),
		Src:  &net.UDPAddr{IP: append(net.IP{}, src.IP...), Port: src.Port},
		Dst:  &net.UDPAddr{IP: append(net.IP{}, dst.IP...), Port: dst.Port},
		Data: append([]byte{}, b...),
	}
	n.mu.Lock()
	n.seq++
	d.Seq = n.seq
	target := n.lookupUDP(dst)
	d.Routed = target != nil
	if n.LogSends {
		n.sendLog = append(n.sendLog, d)
	}
	plan := n.Plan
	n.mu.Unlock()

	fate := Fate{}
	if plan != nil {
		fate = plan(&d)
	}
	if fate.Drop || target == nil {
		return
	}
	if target.local.IP.To4() == nil && target.local.IP.IsUnspecified() && len(d.Src.IP) == net.IPv4len {
		d.Src.IP = d.Src.IP.To16() // an AF_INET6 socket reports IPv4 senders as ::ffff:a.b.c.d
	}
	deliver := func() {
		for i := 0; i <= fate.Dup; i++ {
			dd := d
			dd.Data = append([]byte{}, d.Data...)
			target.enqueue(dd)
		}
	}
	if fate.Delay > 0 {
		time.AfterFunc(fate.Delay, deliver)
	} else {
		deliver()
	}
}

// Close implements net.PacketConn.
func (c *UDPConn) Close() error {
	c.mu.Lock()
	c.CloseCnt++
	if c.closed {
		c.mu.Unlock()

		return net.ErrClosed
	}
	c.closed = true
	if c.rdlTimer != nil {
		c.rdlTimer.Stop()
	}
	if c.CloseNoticeDelay > 0 {
		// a reader blocked in ReadFrom learns about the close only after the delay, like a read loop
		// that is scheduled late
		c.closeNoticeAt = time.Now().Add(c.CloseNoticeDelay)
		time.AfterFunc(c.CloseNoticeDelay, func() {
			c.mu.Lock()
			c.cond.Broadcast()
			c.mu.Unlock()
		})
	} else {
		c.cond.Broadcast()
	}
	c.mu.Unlock()

	c.net.mu.Lock()
	k := key(c.local.IP, c.local.Port)
	if c.net.udp[k] == c {
		delete(c.net.udp, k)
	}
	c.net.mu.Unlock()

	return nil
}

// Closed reports whether the socket has been closed.
func (c *UDPConn) Closed() bool {
	c.mu.Lock()
	defer c.mu.Unlock()

	return c.closed
}

// LocalAddr implements net.PacketConn. A fresh copy is returned on each call (callers mutate it).
func (c *UDPConn) LocalAddr() net.Addr {
	return &net.UDPAddr{IP: append(net.IP{}, c.local.IP...), Port: c.local.Port}
}

// Addr returns the bound address (shared, do not modify).
func (c *UDPConn) Addr() *net.UDPAddr { return c.local }

// SetDeadline implements net.PacketConn.
func (c *UDPConn) SetDeadline(t time.Time) error { return c.SetReadDeadline(t) }

// SetReadDeadline implements net.PacketConn.
func (c *UDPConn) SetReadDeadline(t time.Time) error {
	c.mu.Lock()
	defer c.mu.Unlock()
	c.rdl = t
	if c.rdlTimer != nil {
		c.rdlTimer.Stop()
		c.rdlTimer = nil
	}
	if !t.IsZero() {
		d := time.Until(t)
		if d <= 0 {
			c.cond.Broadcast()
		} else {
			c.rdlTimer = time.AfterFunc(d, func() {
				c.mu.Lock()
				c.cond.Broadcast()
				c.mu.Unlock()
			})
		}
	}

	return nil
}

// SetWriteDeadline implements net.PacketConn.
func (c *UDPConn) SetWriteDeadline(time.Time) error { return nil }

// ---------------------------------------------------------------- TCP

// SegPlan decides how many bytes the next Read may return (>=1).
type SegPlan func(avail int) int

type pipe struct {
	mu      sync.Mutex
	cond    *sync.Cond
	buf     []byte
	wclosed bool // writer closed: EOF after drain
	rclosed bool // reader closed: writes fail
	seg     SegPlan
	total   int64
	cap     int // 0 = unbounded; otherwise a writer blocks while cap bytes wait to be read (flow control)
}

func newPipe() *pipe {
	p := &pipe{}
	p.cond = sync.NewCond(&p.mu)

	return p
}

// Conn is one end of a simulated TCP connection.
type Conn struct {
	readsPaused bool
	net         *Net
	local       *net.TCPAddr
	remote      *net.TCPAddr
	rd          *pipe
	wr          *pipe
	peer        *Conn
	Name        string

	mu       sync.Mutex
	closed   bool
	CloseCnt int
	rdl      time.Time
	wdl      time.Time
	rdlTimer *time.Timer
	// ReadCalls counts Read invocations (promptness oracle).
	ReadCalls int
	// Fault injection.
	WriteErr error
	ReadErr  error
	boundKey string
}

// Listener is a simulated TCP listener.
type Listener struct {
	net       *Net
	addr      *net.TCPAddr
	Name      string
	mu        sync.Mutex
	cond      *sync.Cond
	q         []*Conn
	closed    bool
	acceptErr error
	CloseCnt  int
}

// ListenTCP binds a TCP listener; port 0 picks a free one.
func (n *Net) ListenTCP(ip net.IP, port int) (*Listener, error) {
	n.mu.Lock()
	defer n.mu.Unlock()
	if port < 0 || port > 65535 {
		return nil, errPortInvalid
	}
	if port == 0 {
		port = n.freePortLocked(ip, true)
	}
	k := key(ip, port)
	if _, ok := n.lst[k]; ok {
		return nil, fmt.Errorf("%w: tcp %s", ErrAddrInUse, k)
	}
	l := &Listener{net: n, addr: &net.TCPAddr{IP: append(net.IP{}, ip...), Port: port}}
	l.cond = sync.NewCond(&l.mu)
	n.lst[k] = l
	n.allLst = append(n.allLst, l)

	return l, nil
}

// Bound returns the number of UDP sockets and TCP listeners bound right now.
func (n *Net) Bound() (udp, tcp int) {
	n.mu.Lock()
	defer n.mu.Unlock()

	return len(n.udp), len(n.lst)
}

// TCPListening reports whether a listener is bound at ip:port.
func (n *Net) TCPListening(ip net.IP, port int) bool {
	n.mu.Lock()
	defer n.mu.Unlock()
	_, ok := n.lst[key(ip, port)]

	return ok
}

// Accept implements net.Listener.
func (l *Listener) Accept() (net.Conn, error) {
	l.mu.Lock()
	defer l.mu.Unlock()
	for {
		if l.acceptErr != nil {
			err := l.acceptErr
			l.acceptErr = nil

			return nil, err
		}
		if l.closed {
			return nil, net.ErrClosed
		}
		if len(l.q) > 0 {
			c := l.q[0]
			l.q = l.q[1:]

			return c, nil
		}
		l.cond.Wait()
	}
}

// FailNextAccept makes the next (or the blocked) Accept fail.
func (l *Listener) FailNextAccept(err error) {
	l.mu.Lock()
	l.acceptErr = err
	l.cond.Broadcast()
	l.mu.Unlock()
}

// Close implements net.Listener.
func (l *Listener) Close() error {
	l.mu.Lock()
	l.CloseCnt++
	if l.closed {
		l.mu.Unlock()

		return net.ErrClosed
	}
	l.closed = true
	pending := l.q
	l.q = nil
	l.cond.Broadcast()
	l.mu.Unlock()
	for _, c := range pending {
		_ = c.Close()
	}
	l.net.mu.Lock()
	k := key(l.addr.IP, l.addr.Port)
	if l.net.lst[k] == l {
		delete(l.net.lst, k)
	}
	l.net.mu.Unlock()

	return nil
}

// Closed reports whether the listener was closed.
func (l *Listener) Closed() bool {
	l.mu.Lock()
	defer l.mu.Unlock()

	return l.closed
}

// Addr implements net.Listener (fresh copy: callers mutate it).
func (l *Listener) Addr() net.Addr {
	return &net.TCPAddr{IP: append(net.IP{}, l.addr.IP...), Port: l.addr.Port}
}

// TCPAddr returns the bound address.
func (l *Listener) TCPAddr() *net.TCPAddr { return l.addr }

// DialTCP connects from local (nil / port 0 = ephemeral on localIP) to remote.
// The returned Conn is the dialer's end.
func (n *Net) DialTCP(localIP net.IP, localPort int, remote *net.TCPAddr) (*Conn, error) {
	n.mu.Lock()
	l := n.lst[key(remote.IP, remote.Port)]
	if l == nil {
		l = n.lst[wildcardKey(remote.IP, remote.Port)]
	}
	if l == nil {
		n.mu.Unlock()

		return nil, fmt.Errorf("%w: %s", ErrRefused, remote)
	}
	if localPort == 0 {
		localPort = n.freePortLocked(localIP, true)
	}
	la := &net.TCPAddr{IP: append(net.IP{}, localIP...), Port: localPort}
	ra := &net.TCPAddr{IP: append(net.IP{}, remote.IP...), Port: remote.Port}
	a2b, b2a := newPipe(), newPipe()
	a := &Conn{net: n, local: la, remote: ra, rd: b2a, wr: a2b}
	b := &Conn{net: n, local: ra, remote: la, rd: a2b, wr: b2a}
	a.peer, b.peer = b, a
	a.boundKey = key(la.IP, la.Port)
	n.tcpLocal[a.boundKey]++
	n.allTCP = append(n.allTCP, a, b)
	n.mu.Unlock()

	l.mu.Lock()
	if l.closed {
		l.mu.Unlock()
		n.mu.Lock()
		n.tcpLocal[a.boundKey]--
		n.mu.Unlock()

		return nil, fmt.Errorf("%w: %s", ErrRefused, remote)
	}
	l.q = append(l.q, b)
	l.cond.Broadcast()
	l.mu.Unlock()

	return a, nil
}

// SetSeg sets the segmentation plan for bytes READ from this end.
func (c *Conn) SetSeg(p SegPlan) {
	c.rd.mu.Lock()
	c.rd.seg = p
	c.rd.mu.Unlock()
}

// Peer returns the other end.
func (c *Conn) Peer() *Conn { return c.peer }

// Read implements net.Conn.
func (c *Conn) Read(b []byte) (int, error) {
	c.mu.Lock()
	c.ReadCalls++
	c.mu.Unlock()
	p := c.rd
	p.mu.Lock()
	defer p.mu.Unlock()
	for {
		c.mu.Lock()
		closed, rdl, rerr := c.closed, c.rdl, c.ReadErr
		c.ReadErr = nil
		c.mu.Unlock()
		if rerr != nil {
			return 0, rerr
		}
		if closed {
			return 0, net.ErrClosed
		}
		if !rdl.IsZero() && !time.Now().Before(rdl) {
			return 0, os.ErrDeadlineExceeded
		}
		c.mu.Lock()
		paused := c.readsPaused
		c.mu.Unlock()
		if paused {
			p.cond.Wait() // the application behind this end is not reading right now

			continue
		}
		if len(p.buf) > 0 {
			if len(b) == 0 {
				return 0, nil
			}
			n := len(p.buf)
			if n > len(b) {
				n = len(b)
			}
			if p.seg != nil {
				if s := p.seg(n); s >= 1 && s < n {
					n = s
				}
			}
			copy(b, p.buf[:n])
			p.buf = p.buf[n:]
			p.cond.Broadcast() // a writer may be waiting for room

			return n, nil
		}
		if p.wclosed {
			return 0, io.EOF
		}
		p.cond.Wait()
	}
}

// FailNextRead makes the next (or the currently blocked) Read return err.
func (c *Conn) FailNextRead(err error) {
	c.mu.Lock()
	c.ReadErr = err
	c.mu.Unlock()
	c.rd.mu.Lock()
	c.rd.cond.Broadcast()
	c.rd.mu.Unlock()
}

// Pending returns the number of bytes written by the peer and not yet read.
func (c *Conn) Pending() int {
	c.rd.mu.Lock()
	defer c.rd.mu.Unlock()

	return len(c.rd.buf)
}

// ReadAvailable returns everything readable right now without blocking; eof is true when the
// peer closed and everything was drained.
func (c *Conn) ReadAvailable() (data []byte, eof bool) {
	p := c.rd
	p.mu.Lock()
	defer p.mu.Unlock()
	data = p.buf
	p.buf = nil
	p.cond.Broadcast() // room again for a writer waiting on a bounded pipe

	return data, p.wclosed
}

// Write implements net.Conn.
func (c *Conn) Write(b []byte) (int, error) {
	c.mu.Lock()
	closed, werr := c.closed, c.WriteErr
	c.mu.Unlock()
	if werr != nil {
		return 0, werr
	}
	if closed {
		return 0, net.ErrClosed
	}
	p := c.wr
	p.mu.Lock()
	defer p.mu.Unlock()
	if p.wclosed {
		return 0, net.ErrClosed
	}
	if p.rclosed {
		return 0, fmt.Errorf("write: broken pipe")
	}
	if p.cap <= 0 {
		p.buf = append(p.buf, b...)
		p.total += int64(len(b))
		p.cond.Broadcast()

		return len(b), nil
	}
	// bounded: write what fits, wait for the reader (or the write deadline) for the rest
	written := 0
	var wake *time.Timer
	defer func() {
		if wake != nil {
			wake.Stop()
		}
	}()
	for written < len(b) {
		if p.wclosed {
			return written, net.ErrClosed
		}
		if p.rclosed {
			return written, fmt.Errorf("write: broken pipe")
		}
		if room := p.cap - len(p.buf); room > 0 {
			n := len(b) - written
			if n > room {
				n = room
			}
			p.buf = append(p.buf, b[written:written+n]...)
			p.total += int64(n)
			written += n
			p.cond.Broadcast()

			continue
		}
		c.mu.Lock()
		wdl, closed := c.wdl, c.closed
		c.mu.Unlock()
		if closed {
			return written, net.ErrClosed
		}
		if !wdl.IsZero() {
			if !time.Now().Before(wdl) {
				return written, os.ErrDeadlineExceeded
			}
			if wake == nil {
				wake = time.AfterFunc(time.Until(wdl), func() {
					p.mu.Lock()
					p.cond.Broadcast()
					p.mu.Unlock()
				})
			}
		}
		p.cond.Wait()
	}

	return written, nil
}

// PauseReads makes Read block (true) as if the application had stopped reading, until resumed.
func (c *Conn) PauseReads(paused bool) {
	c.mu.Lock()
	c.readsPaused = paused
	c.mu.Unlock()
	c.rd.mu.Lock()
	c.rd.cond.Broadcast()
	c.rd.mu.Unlock()
}

// SetCapacity bounds the number of unread bytes this end may have in flight toward its peer: a
// Write then blocks (until its write deadline, if any) while the peer does not read - TCP's flow
// control.
func (c *Conn) SetCapacity(n int) {
	c.wr.mu.Lock()
	c.wr.cap = n
	c.wr.mu.Unlock()
}

// ReadFrom implements io.ReaderFrom (transport.TCPConn requires it) with a plain copy loop.
func (c *Conn) ReadFrom(r io.Reader) (int64, error) {
	buf := make([]byte, 32*1024)
	var total int64
	for {
		n, err := r.Read(buf)
		if n > 0 {
			if _, werr := c.Write(buf[:n]); werr != nil {
				return total, werr
			}
			total += int64(n)
		}
		if err != nil {
			if errors.Is(err, io.EOF) {
				return total, nil
			}

			return total, err
		}
	}
}

// Close implements net.Conn.
func (c *Conn) Close() error {
	c.mu.Lock()
	c.CloseCnt++
	if c.closed {
		c.mu.Unlock()

		return net.ErrClosed
	}
	c.closed = true
	if c.rdlTimer != nil {
		c.rdlTimer.Stop()
	}
	bk := c.boundKey
	c.mu.Unlock()

	c.wr.mu.Lock()
	c.wr.wclosed = true
	c.wr.cond.Broadcast()
	c.wr.mu.Unlock()

	c.rd.mu.Lock()
	c.rd.rclosed = true
	c.rd.cond.Broadcast()
	c.rd.mu.Unlock()

	if bk != "" {
		c.net.mu.Lock()
		c.net.tcpLocal[bk]--
		c.net.mu.Unlock()
	}

	return nil
}

// CloseWrite half-closes the connection.
func (c *Conn) CloseWrite() error {
	c.wr.mu.Lock()
	c.wr.wclosed = true
	c.wr.cond.Broadcast()
	c.wr.mu.Unlock()

	return nil
}

// CloseRead half-closes the connection.
func (c *Conn) CloseRead() error {
	c.rd.mu.Lock()
	c.rd.rclosed = true
	c.rd.cond.Broadcast()
	c.rd.mu.Unlock()

	return nil
}

// Closed reports whether Close was called on this end.
func (c *Conn) Closed() bool {
	c.mu.Lock()
	defer c.mu.Unlock()

	return c.closed
}

// PeerClosedWrite reports whether the other end closed (EOF pending for this end).
func (c *Conn) PeerClosedWrite() bool {
	c.rd.mu.Lock()
	defer c.rd.mu.Unlock()

	return c.rd.wclosed
}

// LocalAddr implements net.Conn.
func (c *Conn) LocalAddr() net.Addr {
	return &net.TCPAddr{IP: append(net.IP{}, c.local.IP...), Port: c.local.Port}
}

// RemoteAddr implements net.Conn.
func (c *Conn) RemoteAddr() net.Addr {
	return &net.TCPAddr{IP: append(net.IP{}, c.remote.IP...), Port: c.remote.Port}
}

// SetDeadline implements net.Conn.
func (c *Conn) SetDeadline(t time.Time) error {
	_ = c.SetWriteDeadline(t)

	return c.SetReadDeadline(t)
}

// SetReadDeadline implements net.Conn.
func (c *Conn) SetReadDeadline(t time.Time) error {
	c.mu.Lock()
	if c.closed {
		c.mu.Unlock()

		return net.ErrClosed
	}
	c.rdl = t
	if c.rdlTimer != nil {
		c.rdlTimer.Stop()
		c.rdlTimer = nil
	}
	wake := func() {
		c.rd.mu.Lock()
		c.rd.cond.Broadcast()
		c.rd.mu.Unlock()
	}
	var now bool
	if !t.IsZero() {
		if d := time.Until(t); d <= 0 {
			now = true
		} else {
			c.rdlTimer = time.AfterFunc(d, wake)
		}
	}
	c.mu.Unlock()
	if now {
		wake()
	}

	return nil
}

// SetWriteDeadline implements net.Conn.
func (c *Conn) SetWriteDeadline(t time.Time) error {
	c.mu.Lock()
	c.wdl = t
	c.mu.Unlock()

	return nil
}

// transport.TCPConn no-ops.
func (c *Conn) SetLinger(int) error                    { return nil }
func (c *Conn) SetKeepAlive(bool) error                { return nil }
func (c *Conn) SetKeepAlivePeriod(time.Duration) error { return nil }
func (c *Conn) SetNoDelay(bool) error                  { return nil }
func (c *Conn) SetWriteBuffer(int) error               { return nil }
func (c *Conn) SetReadBuffer(int) error                { return nil }

// ---------------------------------------------------------------- sweeps

// CloseAll closes every socket, listener and connection ever created on this network, so that
// all goroutines blocked on them can exit.
func (n *Net) CloseAll() {
	n.mu.Lock()
	udp := append([]*UDPConn{}, n.allUDP...)
	tcp := append([]*Conn{}, n.allTCP...)
	lst := append([]*Listener{}, n.allLst...)
	n.mu.Unlock()
	for _, l := range lst {
		if !l.Closed() {
			_ = l.Close()
		}
	}
	for _, c := range tcp {
		if !c.Closed() {
			_ = c.Close()
		}
	}
	for _, u := range udp {
		if !u.Closed() {
			_ = u.Close()
		}
	}
}

// OpenSockets lists addresses of all sockets that are still open (diagnostics).
func (n *Net) OpenSockets() []string {
	n.mu.Lock()
	defer n.mu.Unlock()
	var out []string
	for k := range n.udp {
		out = append(out, "udp "+k)
	}
	for k := range n.lst {
		out = append(out, "tcp-listen "+k)
	}
	sort.Strings(out)

	return out
}
