package props

import (
	"bytes"
	"errors"
	"fmt"
	"github.com/pion/turn/v5"
	"math/rand"
	"net"
	"testing"
	"time"

	"github.com/pion/turn/v5/verifharness/sim"
	"github.com/pion/turn/v5/verifharness/wire"
)

// C19: responses are correlated, truthful and idempotent under retransmission.
// The response monitor (transaction id / destination / method / exactly one answer) runs on
// every datagram the server writes in every property's workload; this generator adds the
// situations the statement names: every method on success and error paths from several source
// address families, identical transaction ids used by different clients, retransmitted Allocate,
// a second Allocate on a live 5-tuple, EVEN-PORT/RESERVATION-TOKEN, address-family defaults,
// and a reachability probe of every advertised relayed address.

func init() {
	sim.RegisterKind("binding-mapped-addr", "C19")
	sim.RegisterKind("retransmit-different", "C19")
	sim.RegisterKind("retransmit-created", "C19")
	sim.RegisterKind("errorpath-changed-state", "C19", "C03")
	sim.RegisterKind("errorpath-success", "C19")
	sim.RegisterKind("evenport", "C19")
	sim.RegisterKind("family-default", "C19")
	sim.RegisterKind("relay-unreachable", "C19", "C04", "C05")
	sim.RegisterKind("request-unanswered", "C19")
	sim.RegisterKind("relay-shared", "C19", "C20", "C04")
	sim.RegisterKind("lifetime-not-in-force", "C19", "C06")
}

type c19 struct {
	t   *testing.T
	w   *sim.World
	m   *sim.Model
	rng *rand.Rand
	rec *sim.Rec
}

func (x *c19) stateDigest() string {
	out := fmt.Sprintf("count=%d;", x.w.Srv.AllocationCount())
	for li, mgr := range x.w.Srv.VerifManagers() {
		snap, res, ok := mgr.VerifSnapshot()
		if !ok {
			return "locked"
		}
		out += fmt.Sprintf("L%d res=%d:", li, res)
		for _, s := range snap {
			out += fmt.Sprintf("[%s %s %s %v %v %v]", s.Src, s.UserID, s.Relay, s.Permissions, s.Channels, s.TCPConns)
		}
	}
	open := 0
	for _, r := range x.w.Gen.Resources() {
		if r.Open() {
			open++
		}
	}

	return out + fmt.Sprintf(";open=%d", open)
}

// raw sends an arbitrary request through the response monitor.
func (x *c19) raw(c *sim.RawClient, method uint16, tid [12]byte, auth bool, build func(b *wire.Builder)) *wire.Msg {
	b := wire.NewBuilder(method, wire.ClassRequest, tid)
	if build != nil {
		build(b)
	}
	if auth {
		c.AddAuth(b)
	}
	x.m.Track(c, tid, method)
	resp := c.Exchange(b.Bytes(), tid)
	x.m.Audit(nil)

	return resp
}

func (x *c19) ensureNonce(c *sim.RawClient) {
	if c.Nonce != "" {
		return
	}
	r := x.raw(c, wire.MethodRefresh, x.w.NewTID(), false, nil)
	if r != nil {
		if n, ok := r.Get(wire.AttrNonce); ok {
			c.Nonce = string(n)
		}
	}
}

func (x *c19) binding(c *sim.RawClient) {
	tid := x.w.NewTID()
	r := x.raw(c, wire.MethodBinding, tid, false, nil)
	if r == nil || r.Class != wire.ClassSuccess {
		x.rec.Violate("binding-mapped-addr", "no-success", "%s: Binding request not answered with success", c.Name)

		return
	}
	ip, port, ok := r.XorAddr(wire.AttrXORMappedAddress)
	cip, cport := addrIPPortOf(c.Addr)
	if !ok || !ip.Equal(cip) || port != cport {
		x.rec.Violate("binding-mapped-addr", "mismatch", "%s: Binding XOR-MAPPED-ADDRESS %v:%d, real source %s", c.Name, ip, port, c.Addr)
	}
	x.rec.FP("binding/%s/fam%d", transportName(c.IsTCP), famOfIP(cip))
}

// nonRequest: a message that is no request - a response of any method, or an indication - is
// never answered, whatever it carries (also an attribute the server does not know from the
// comprehension-required range). The response monitor reports anything the server sends back.
func (x *c19) nonRequest(c *sim.RawClient) {
	class := pick(x.rng, []uint8{wire.ClassSuccess, wire.ClassError, wire.ClassIndication})
	method := pick(x.rng, []uint16{wire.MethodBinding, wire.MethodAllocate, wire.MethodRefresh, wire.MethodData, wire.MethodSend, wire.MethodChannelBind})
	b := wire.NewBuilder(method, class, x.w.NewTID())
	extra := pick(x.rng, []string{"none", "unknown-required", "unknown-optional", "username"})
	switch extra {
	case "unknown-required":
		b.Add(0x7F01, []byte{1, 2, 3, 4})
	case "unknown-optional":
		b.Add(0xFF01, []byte{1, 2, 3, 4})
	case "username":
		b.Add(wire.AttrUsername, []byte("alice"))
	}
	_ = c.SendRaw(b.Bytes())
	x.w.Settle()
	x.m.Audit(nil)
	x.rec.FP("non-request/class%d/m%x/%s", class, method, extra)
}

func famOfIP(ip net.IP) int {
	if ip.To4() != nil {
		return 4
	}

	return 6
}

// errorPath sends one malformed/unsatisfiable Allocate and checks: answered (if at all) to the
// sender with its tid (monitor), not with success, and nothing changed.
func (x *c19) errorPath(c *sim.RawClient) {
	if a, st := x.m.Alloc(c); a != nil && st != sim.Dead {
		return
	}
	x.ensureNonce(c)
	before := x.stateDigest()
	kind := pick(x.rng, []string{"no-transport", "bad-transport", "dont-fragment", "unknown-attr", "evenport+token", "bad-token", "bad-family", "token+family", "lifetime0", "gen-fails", "short-transport"})
	tid := x.w.NewTID()
	r := x.raw(c, wire.MethodAllocate, tid, true, func(b *wire.Builder) {
		tr := []byte{17, 0, 0, 0}
		switch kind {
		case "no-transport":
			return
		case "bad-transport":
			tr = []byte{byte(pick(x.rng, []int{0, 1, 2, 16, 18, 132, 255})), 0, 0, 0}
		case "short-transport":
			tr = []byte{17}
		}
		b.Add(wire.AttrRequestedTransport, tr)
		switch kind {
		case "dont-fragment":
			b.Add(wire.AttrDontFragment, nil)
		case "unknown-attr":
			b.Add(uint16(0x7F00+x.rng.Intn(0xFF)), []byte{1, 2, 3, 4})
		case "evenport+token":
			b.Add(wire.AttrEvenPort, []byte{0x80})
			b.Add(wire.AttrReservationToken, []byte("abcdefgh"))
		case "bad-token":
			b.Add(wire.AttrReservationToken, []byte("zzzzzzzz"))
		case "bad-family":
			b.Add(wire.AttrRequestedAddressFamily, []byte{byte(pick(x.rng, []int{0, 3, 4, 255})), 0, 0, 0})
		case "token+family":
			b.Add(wire.AttrReservationToken, []byte("zzzzzzzz"))
			b.Add(wire.AttrRequestedAddressFamily, []byte{1, 0, 0, 0})
		case "lifetime0":
			b.AddU32(wire.AttrLifetime, 0)
		case "gen-fails":
			x.w.Gen.FailNext["udp"] = 1
		}
	})
	x.w.Gen.FailNext["udp"] = 0
	code := -1
	if r != nil {
		code = 0
		if r.Class == wire.ClassError {
			code = r.ErrorCode()
		}
	}
	x.rec.FP("allocate-error/%s/%d", kind, code)
	x.rec.Tracef("%s Allocate error path %s -> %d", c.Name, kind, code)
	if code == -1 {
		// the simulated network loses nothing: the server itself stayed silent on an authenticated,
		// well-formed request - there is no response whose correlation could be judged
		x.rec.Violate("request-unanswered", "allocate/"+kind, "%s: authenticated Allocate (%s) was never answered", c.Name, kind)

		return
	}
	if code == 0 {
		if kind == "lifetime0" {
			// outcome-agnostic (the statement does not fix it): adopt it
			x.rec.Ev("may/allocate-lifetime0-success")
		} else {
			x.rec.Violate("errorpath-success", kind, "%s: unsatisfiable Allocate (%s) answered success", c.Name, kind)
		}

		return
	}
	x.w.Settle()
	if after := x.stateDigest(); after != before {
		x.rec.Violate("errorpath-changed-state", kind, "%s: failed Allocate (%s -> %d) changed server state: %s -> %s", c.Name, kind, code, before, after)
	}
}

// allocateAndProbe makes a plain allocation and checks that the advertised relayed address
// really reaches this client, then retransmits the very same request.
func (x *c19) allocateAndProbe(c *sim.RawClient, peer *sim.Peer, opts sim.AllocOpts) (created bool) {
	if a, st := x.m.Alloc(c); a != nil && st != sim.Dead {
		return false
	}
	x.ensureNonce(c)
	tid := x.w.NewTID()
	b := wire.NewBuilder(wire.MethodAllocate, wire.ClassRequest, tid)
	optsApply(opts, b)
	c.AddAuth(b)
	rawReq := b.Bytes()
	callsBefore := x.w.Gen.CallCount("udp")
	if !c.IsTCP && c.Listener < len(x.w.ServerUDP) && x.rng.Intn(6) == 0 {
		// the server's socket fails to send the Allocate success (ENOBUFS, say): the allocation
		// exists, the client saw nothing and retransmits - and must get the success it missed
		sock := x.w.ServerUDP[c.Listener]
		failed := false
		sock.SetWriteHook(func(b []byte, _ net.Addr) (int, error, bool) {
			if m, err := wire.ParseSTUN(b); err == nil && m.TID == tid && !failed {
				failed = true

				return 0, errors.New("injected: no buffer space available"), true
			}

			return 0, nil, false
		})
		x.m.Track(c, tid, wire.MethodAllocate)
		lost := c.Exchange(rawReq, tid)
		sock.SetWriteHook(nil)
		x.m.Audit(nil)
		if lost == nil && failed {
			x.m.Retransmitted(c, tid)
			x.rec.FP("allocate/success-lost-at-the-server-socket")
		}
	}
	// go through the model so that it learns the allocation: re-implemented here to keep the tid
	resp := x.m.AllocateRaw(c, opts, rawReq, tid)
	if resp == nil || resp.Class != wire.ClassSuccess {
		x.rec.FP("allocate-plain-failed/%d", codeOfMsg(resp))

		return false
	}
	relay, _ := sim.RelayAddrOf(resp)
	if (relay.IP.To4() != nil) != (peer.Addr.IP.To4() != nil) {
		return true
	}
	// reachability
	x.m.CreatePermission(c, peer.Addr)
	st := x.m.Begin()
	e0 := st.PeerSend(peer, relay, []byte(fmt.Sprintf("reach-%s-%d", c.Name, x.rng.Int63())))
	st.End()
	if e0.V == sim.MustForward && e0.Matched() == 0 {
		x.rec.Violate("relay-unreachable", "sim/"+transportName(c.IsTCP), "%s: a permitted peer's datagram to the relayed address %s the Allocate success reported did not reach the client", c.Name, relay)
	}
	x.rec.FP("reachability/%s/fam%d", transportName(c.IsTCP), famOfIP(relay.IP))
	if !c.IsTCP && c.Listener < len(x.w.ServerUDP) && x.rng.Intn(4) == 0 {
		// the relayed address stays the place where the peer reaches the client also after the
		// server's socket has failed to pass one datagram on (ENOBUFS): that one is lost, the next
		// one arrives
		sock := x.w.ServerUDP[c.Listener]
		failed := false
		to := c.Addr.String()
		sock.SetWriteHook(func(b []byte, dst net.Addr) (int, error, bool) {
			if m, err := wire.ParseSTUN(b); failed || dst.String() != to || err != nil || m.Method != wire.MethodData {
				return 0, nil, false
			}
			failed = true

			return 0, errors.New("injected: no buffer space available"), true
		})
		_, _ = peer.UDP.WriteTo([]byte("lost-in-the-servers-socket-write"), relay)
		x.w.Settle()
		sock.SetWriteHook(nil)
		x.m.Audit(nil)
		st := x.m.Begin()
		e1 := st.PeerSend(peer, relay, []byte(fmt.Sprintf("reach-again-%s-%d", c.Name, x.rng.Int63())))
		st.End()
		if e1.V == sim.MustForward && e1.Matched() == 0 {
			x.rec.Violate("relay-unreachable", "sim/after-failed-write", "%s: after the server's socket had failed to pass one datagram on to the client, the next datagram of the permitted peer to the relayed address %s did not reach the client either (the allocation is still there)", c.Name, relay)
		}
		x.rec.FP("reachability-after-a-failed-write/failed=%v", failed)
	}
	// the reported LIFETIME is the one in force: a short allocation is there 2 s before and gone 2 s after it
	if lt, ok := resp.Lifetime(); ok && lt >= 5 && lt <= 120 && x.rng.Intn(2) == 0 {
		mine := func() bool {
			for _, mgr := range x.w.Srv.VerifManagers() {
				snap, _, _ := mgr.VerifSnapshot()
				for _, s := range snap {
					if s.Src == c.Addr.String() {
						return true
					}
				}
			}

			return false
		}
		x.w.Sleep(time.Duration(lt)*time.Second - 2*time.Second)
		x.m.Audit(nil)
		if !mine() {
			x.rec.Violate("lifetime-not-in-force", "early", "%s: allocation with reported LIFETIME %d s was gone 2 s before that", c.Name, lt)
		}
		x.w.Sleep(4 * time.Second)
		x.m.Audit(nil)
		if mine() {
			x.rec.Violate("lifetime-not-in-force", "late", "%s: allocation with reported LIFETIME %d s still exists 2 s after that", c.Name, lt)
		}
		x.rec.FP("lifetime-in-force/%d", lt)

		return true
	}
	// idempotent retransmission, possibly after some time
	wait := pick(x.rng, []time.Duration{0, 0, 500 * time.Millisecond, 3 * time.Second, 31 * time.Second})
	if a, _ := x.m.Alloc(c); a == nil || time.Until(a.Exp) < wait+2*time.Second {
		return true // the allocation would expire during the wait: a repeat is then a new request
	}
	if wait > 0 {
		x.w.Sleep(wait)
		x.m.Audit(nil)
	}
	refreshedBetween := false
	if x.rng.Intn(3) == 0 {
		// the client has refreshed in between (it evidently got the first answer): a late copy of the
		// original Allocate is still answered like the first time
		if r := x.m.Refresh(c, sim.U32(uint32(600+x.rng.Intn(2000)))); r != nil && r.Class == wire.ClassSuccess {
			refreshedBetween = true
		}
	}
	before := x.stateDigest()
	calls := x.w.Gen.CallCount("udp")
	x.m.Retransmitted(c, tid)
	r2 := c.Exchange(rawReq, tid)
	x.m.Audit(nil)
	x.rec.FP("retransmit/wait%s/%d/refreshed-between=%v", wait, codeOfMsg(r2), refreshedBetween)
	if r2 == nil || r2.Class != wire.ClassSuccess {
		x.rec.Violate("retransmit-different", "not-success", "%s: retransmitted Allocate (same transaction id) answered %d, first answer was success", c.Name, codeOfMsg(r2))
	} else {
		x.sameAttrs(c, resp, r2)
		if !wire.CheckIntegrity(r2.Raw, c.LTKey()) {
			x.rec.Violate("retransmit-different", "integrity", "%s: retransmitted Allocate success fails MESSAGE-INTEGRITY", c.Name)
		}
	}
	if x.w.Gen.CallCount("udp") != calls || x.stateDigest() != before {
		x.rec.Violate("retransmit-created", "state", "%s: retransmitted Allocate created something: generator calls %d->%d state %s -> %s", c.Name, calls, x.w.Gen.CallCount("udp"), before, x.stateDigest())
	}
	_ = callsBefore
	// a different Allocate on the live 5-tuple: 437, nothing changes (model wrapper checks the code)
	x.m.Allocate(c, sim.AllocOpts{Lifetime: sim.U32(uint32(1 + x.rng.Intn(3000)))})
	if x.rng.Intn(3) == 0 && c.User != "solo" {
		// ... also when it is signed by another user of the same socket (rotated credentials):
		// the 5-tuple is busy whoever asks, and nobody's quota is consulted for it
		u, pw := c.User, c.Pass
		c.User, c.Pass = "bob", "pw-b"
		if u == "bob" {
			c.User, c.Pass = "alice", "pw-a"
		}
		tidO := x.w.NewTID()
		bo := wire.NewBuilder(wire.MethodAllocate, wire.ClassRequest, tidO)
		bo.Add(wire.AttrRequestedTransport, []byte{17, 0, 0, 0})
		c.AddAuth(bo)
		x.m.Track(c, tidO, wire.MethodAllocate)
		ro := c.Exchange(bo.Bytes(), tidO)
		c.User, c.Pass = u, pw
		x.m.Audit(nil)
		if ro == nil || ro.Class != wire.ClassError || ro.ErrorCode() != 437 {
			x.rec.Violate("retransmit-different", "other-user-on-live-5tuple", "%s: Allocate by another user on the live 5-tuple answered %d, want 437", c.Name, codeOfMsg(ro))
		}
		if x.stateDigest() != before {
			x.rec.Violate("errorpath-changed-state", "437/other-user", "%s: another user's Allocate on a live 5-tuple changed server state", c.Name)
		}
		x.rec.FP("allocate/on-live/other-user/%d", codeOfMsg(ro))
	}
	if x.rng.Intn(3) == 0 {
		// ... also when its transaction id is the all-zero one
		var zero [12]byte
		bz := wire.NewBuilder(wire.MethodAllocate, wire.ClassRequest, zero)
		bz.Add(wire.AttrRequestedTransport, []byte{17, 0, 0, 0})
		c.AddAuth(bz)
		x.m.Track(c, zero, wire.MethodAllocate)
		rz := c.Exchange(bz.Bytes(), zero)
		x.m.Audit(nil)
		if rz == nil || rz.Class != wire.ClassError || rz.ErrorCode() != 437 {
			x.rec.Violate("retransmit-different", "zero-tid", "%s: Allocate with the all-zero transaction id on a live 5-tuple answered %d, want 437", c.Name, codeOfMsg(rz))
		}
	}
	if x.stateDigest() != before {
		x.rec.Violate("errorpath-changed-state", "437", "%s: Allocate on a live 5-tuple changed server state", c.Name)
	}
	x.m.CrossCheck()

	return true
}

// sameAttrs: the answer to a retransmitted request carries the same attributes with the same values.
func (x *c19) sameAttrs(c *sim.RawClient, first, again *wire.Msg) {
	render := func(m *wire.Msg) []string {
		var out []string
		for _, a := range m.Attrs {
			out = append(out, fmt.Sprintf("%04x=%x", a.Type, a.Value))
		}

		return out
	}
	a1, a2 := render(first), render(again)
	if len(a1) != len(a2) {
		x.rec.Violate("retransmit-different", "attr-count", "%s: retransmitted Allocate answered with %d attributes %v, the first answer had %d %v", c.Name, len(a2), a2, len(a1), a1)

		return
	}
	for i := range a1 {
		if a1[i] != a2[i] {
			x.rec.Violate("retransmit-different", "attr-"+a1[i][:4], "%s: retransmitted Allocate answered with a different attribute: %s vs %s", c.Name, a2[i], a1[i])

			return
		}
	}
	_ = bytes.Equal
}

func optsApply(o sim.AllocOpts, b *wire.Builder) {
	tr := o.Transport
	if tr == 0 {
		tr = 17
	}
	b.Add(wire.AttrRequestedTransport, []byte{tr, 0, 0, 0})
	if o.Lifetime != nil {
		b.AddU32(wire.AttrLifetime, *o.Lifetime)
	}
	if o.Family != 0 {
		b.Add(wire.AttrRequestedAddressFamily, []byte{o.Family, 0, 0, 0})
	}
}

func codeOfMsg(m *wire.Msg) int {
	switch {
	case m == nil:
		return -1
	case m.Class == wire.ClassSuccess:
		return 0
	default:
		return m.ErrorCode()
	}
}

// sameTID: two clients use the same transaction id in the same instant.
func (x *c19) sameTID(a, b *sim.RawClient) {
	if a == b {
		return
	}
	tid := x.w.NewTID()
	for _, c := range []*sim.RawClient{a, b} {
		bb := wire.NewBuilder(wire.MethodBinding, wire.ClassRequest, tid)
		x.m.Track(c, tid, wire.MethodBinding)
		_ = c.SendRaw(bb.Bytes())
	}
	x.w.Settle()
	x.m.Audit(nil)
	for _, c := range []*sim.RawClient{a, b} {
		c.Collect()
		r := c.TakeResponse(tid)
		if r == nil {
			x.rec.Violate("binding-mapped-addr", "sametid-lost", "%s: no answer to a Binding request whose transaction id another client used at the same instant", c.Name)

			continue
		}
		ip, port, _ := r.XorAddr(wire.AttrXORMappedAddress)
		cip, cport := addrIPPortOf(c.Addr)
		if !ip.Equal(cip) || port != cport {
			x.rec.Violate("binding-mapped-addr", "sametid-crossed", "%s: answer to shared-tid Binding reports %v:%d, real source %s", c.Name, ip, port, c.Addr)
		}
	}
	x.rec.FP("same-tid/%s-%s", transportName(a.IsTCP), transportName(b.IsTCP))
}

// sameTIDAllocate: two clients of one user (different 5-tuples, both without an allocation) send
// Allocate requests that carry the same transaction id. A transaction id means something per
// 5-tuple only: each gets an allocation of its own, reported with its own addresses.
func (x *c19) sameTIDAllocate(a, b *sim.RawClient) {
	if a == b || a.User != b.User {
		return
	}
	for _, c := range []*sim.RawClient{a, b} {
		if al, st := x.m.Alloc(c); al != nil && st != sim.Dead {
			return
		}
		x.ensureNonce(c)
	}
	tid := x.w.NewTID()
	relays := map[string]string{}
	for _, c := range []*sim.RawClient{a, b} {
		bb := wire.NewBuilder(wire.MethodAllocate, wire.ClassRequest, tid)
		tr := byte(17)
		if c.IsTCP && x.rng.Intn(2) == 0 {
			tr = 6
		}
		bb.Add(wire.AttrRequestedTransport, []byte{tr, 0, 0, 0})
		c.AddAuth(bb)
		resp := x.m.AllocateRaw(c, sim.AllocOpts{Transport: tr}, bb.Bytes(), tid)
		if resp == nil || resp.Class != wire.ClassSuccess {
			continue // (the model has judged it)
		}
		if r, ok := sim.RelayAddrOf(resp); ok {
			if other, dup := relays[fmt.Sprintf("%d/%s", tr, r)]; dup {
				x.rec.Violate("alloc-relay-shared", "same-tid", "%s and %s (same user, same transaction id, different 5-tuples) were both told relayed address %s", other, c.Name, r)
			}
			relays[fmt.Sprintf("%d/%s", tr, r)] = c.Name
		}
	}
	x.rec.FP("same-tid-allocate/%s-%s", transportName(a.IsTCP), transportName(b.IsTCP))
}

// evenPort: EVEN-PORT with reservation, then RESERVATION-TOKEN on another client.
func (x *c19) evenPort(a, b *sim.RawClient) {
	for _, c := range []*sim.RawClient{a, b} {
		if c == nil {
			continue
		}
		if al, st := x.m.Alloc(c); al != nil && st != sim.Dead {
			return
		}
		x.ensureNonce(c)
	}
	t := true
	tr := byte(17)
	if b == nil {
		tr = 6
	}
	tidA := x.w.NewTID()
	ba := wire.NewBuilder(wire.MethodAllocate, wire.ClassRequest, tidA)
	ba.Add(wire.AttrRequestedTransport, []byte{tr, 0, 0, 0})
	ba.Add(wire.AttrEvenPort, []byte{0x80})
	a.AddAuth(ba)
	rawA := ba.Bytes()
	r := x.m.AllocateRaw(a, sim.AllocOpts{EvenPort: &t, Transport: tr}, rawA, tidA)
	if r == nil || r.Class != wire.ClassSuccess {
		x.rec.FP("evenport/failed/%d", codeOfMsg(r))
		if r == nil {
			x.rec.Violate("request-unanswered", "allocate/even-port", "%s: authenticated EVEN-PORT Allocate was never answered", a.Name)
		}

		return
	}
	if x.rng.Intn(2) == 0 {
		// the same request again: the same success, token included
		x.m.Retransmitted(a, tidA)
		r2 := a.Exchange(rawA, tidA)
		x.m.Audit(nil)
		if r2 == nil || r2.Class != wire.ClassSuccess {
			x.rec.Violate("retransmit-different", "evenport-not-success", "%s: retransmitted EVEN-PORT Allocate answered %d", a.Name, codeOfMsg(r2))
		} else {
			x.sameAttrs(a, r, r2)
		}
		x.rec.FP("evenport/retransmit/%d", codeOfMsg(r2))
	}
	relay, _ := sim.RelayAddrOf(r)
	tok, ok := r.Get(wire.AttrReservationToken)
	if relay.Port%2 != 0 {
		x.rec.Violate("evenport", "odd", "%s: EVEN-PORT allocation got odd relay port %d", a.Name, relay.Port)
	}
	x.rec.FP("evenport/transport=%d/port-even=%v", tr, relay.Port%2 == 0)
	if !ok || len(tok) != 8 {
		x.rec.Violate("evenport", "no-token", "%s: EVEN-PORT(reserve) success without an 8-byte RESERVATION-TOKEN", a.Name)

		return
	}
	if b == nil {
		return
	}
	wait := pick(x.rng, []time.Duration{0, 5 * time.Second, 29 * time.Second, 31 * time.Second})
	x.w.Sleep(wait)
	r2 := x.m.Allocate(b, sim.AllocOpts{Token: tok})
	x.rec.FP("evenport/token/wait%s/%d", wait, codeOfMsg(r2))
	if r2 != nil && r2.Class == wire.ClassSuccess {
		relay2, _ := sim.RelayAddrOf(r2)
		if relay2.Port != relay.Port+1 {
			x.rec.Violate("evenport", "token-port", "%s: RESERVATION-TOKEN allocation got port %d, reserved was %d", b.Name, relay2.Port, relay.Port+1)
		}
		if wait > 30*time.Second+sim.Margin {
			x.rec.Ev("note/reservation-honoured-after-30s")
		}
	}
}

func runC19(t *testing.T, rng *rand.Rand, rec *sim.Rec, tier string, caseNo int) {
	listen := pick(rng, []string{"v4", "v4", "v6", "any4", "any6"})
	strict := rng.Intn(3) == 0
	cfg := sim.Config{
		Realm: "verif.test", Users: map[string]string{"alice": "pw-a", "bob": "pw-b", "quota": "pw-q", "solo": "pw-s"}, Strict: strict,
		QuotaDenyUsers: []string{"quota"},
		// "solo" may hold one allocation: once it has it the user is *at* quota, which must not change
		// how a retransmission or a second Allocate on its own busy 5-tuple is answered
		QuotaPerUser: map[string]int{"solo": 1},
		TCPListeners: []*net.TCPAddr{{IP: sim.ServerIP4, Port: 3478}},
	}
	var lip net.IP
	v6 := false
	switch listen {
	case "v4":
		lip = sim.ServerIP4
	case "v6":
		lip, v6 = sim.ServerIP6, true
	case "any4":
		lip = net.IPv4zero.To4()
	case "any6":
		lip, v6 = net.IPv6unspecified, true
	}
	cfg.UDPListeners = []*net.UDPAddr{{IP: lip, Port: 3478}}
	w, err := sim.NewWorld(cfg, rec, rng, true)
	if err != nil {
		t.Fatal(err)
	}
	defer w.Shutdown()
	w.Net.DualStack = true
	x := &c19{t: t, w: w, m: sim.NewModel(w), rng: rng, rec: rec}
	var clients []*sim.RawClient
	for i := 0; i < 3; i++ {
		ip := net.IPv4(10, 1, 0, byte(1+i)).To4()
		dual := listen == "any6" && i == 1 // an IPv4 client of a dual-stack [::] listener
		if v6 && !dual {
			ip = net.ParseIP(fmt.Sprintf("fd00:1::%x", 1+i))
		} else if i == 2 && rng.Intn(2) == 0 {
			ip = ip.To16() // IPv4-mapped IPv6 representation of the source
		}
		user := pick(rng, []string{"alice", "bob"})
		if i == 0 && rng.Intn(3) == 0 {
			user = "solo" // (only this client uses it)
		}
		port := 5000 + i
		if i == 1 && caseNo%2 == 0 && !ip.Equal(clients[0].Addr.(*net.UDPAddr).IP) {
			port = 5000 // same source port as c0 on another host: the 5-tuples differ in the IP only
		}
		c, err := w.NewUDPClient(fmt.Sprintf("c%d", i), ip, port, 0, user)
		if err != nil {
			t.Fatal(err)
		}
		if listen == "any4" {
			c.Server = &net.UDPAddr{IP: sim.ServerIP4, Port: 3478}
		} else if listen == "any6" {
			c.Server = &net.UDPAddr{IP: sim.ServerIP6, Port: 3478}
			if dual {
				c.Server = &net.UDPAddr{IP: sim.ServerIP4, Port: 3478}
			}
		}
		clients = append(clients, c)
	}
	tc, _ := w.NewTCPClient("t0", net.IPv4(10, 1, 1, 1).To4(), 6000, 0, "alice")
	clients = append(clients, tc)
	qc, _ := w.NewUDPClient("q0", clients[0].Addr.(*net.UDPAddr).IP, 5900, 0, "quota")
	if listen == "any4" || listen == "any6" {
		qc.Server = clients[0].Server
	}
	p4, _ := w.NewPeer("p4", net.IPv4(10, 2, 0, 1).To4(), 7000)
	p6, _ := w.NewPeer("p6", net.ParseIP("fd00:2::1"), 7000)
	peerFor := func(fam byte, c *sim.RawClient) *sim.Peer {
		ip, _ := addrIPPortOf(c.Addr)
		switch {
		case fam == 2:
			return p6
		case fam == 1:
			return p4
		case strict || ip.To4() != nil:
			return p4
		default:
			return p6
		}
	}
	steps := 6 + rng.Intn(8)
	for i := 0; i < steps && len(rec.Violations()) == 0; i++ {
		rec.SetStep(i)
		c := pick(rng, clients)
		switch rng.Intn(7) {
		case 0:
			x.binding(c)
			if rng.Intn(2) == 0 {
				x.nonRequest(c)
			}
		case 1:
			x.errorPath(c)
		case 2, 3:
			o := sim.AllocOpts{Lifetime: nil}
			if rng.Intn(2) == 0 {
				o.Lifetime = sim.U32(uint32(pick(rng, []int{1, 30, 59, 600, 3599, 3600, 4000})))
			}
			if rng.Intn(3) == 0 {
				o.Family = byte(1 + rng.Intn(2))
			}
			// expected family of the relayed address when no family is requested (C19: strict vs
			// listener-derived default)
			created := x.allocateAndProbe(c, peerFor(o.Family, c), o)
			if a, st := x.m.Alloc(c); created && a != nil && st != sim.Dead {
				want := 0
				cip, _ := addrIPPortOf(c.Addr)
				switch {
				case o.Family == 1:
					want = 4
				case o.Family == 2:
					want = 6
				case strict:
					want = 4
				case c.IsTCP:
					want = 4
				case listen == "v4" || listen == "any4":
					want = 4
				case listen == "v6":
					want = 6
				default: // unspecified listener: family of the client's source address
					want = famOfIP(cip)
				}
				if a.Fam != want {
					x.rec.Violate("family-default", fmt.Sprintf("listen=%s,strict=%v,req=%d", listen, strict, o.Family), "%s: relayed address family %d, want %d (listener %s strict=%v requested=%d)", c.Name, a.Fam, want, listen, strict, o.Family)
				}
				x.rec.FP("family/%s/strict=%v/req%d/got%d", listen, strict, o.Family, a.Fam)
			}
		case 4:
			if rng.Intn(3) == 0 {
				x.sameTIDAllocate(pick(rng, clients), pick(rng, clients))
			} else {
				x.sameTID(pick(rng, clients), pick(rng, clients))
			}
		case 5:
			if rng.Intn(4) == 0 {
				// the same over a TCP control connection, for an RFC 6062 (TCP) relay
				x.evenPort(tc, nil)
			} else {
				x.evenPort(clients[0], clients[1])
			}
		case 6:
			// quota-refused user
			before := x.stateDigest()
			x.ensureNonce(qc)
			r := x.m.Allocate(qc, sim.AllocOpts{})
			x.rec.FP("quota/%d", codeOfMsg(r))
			if r != nil && r.Class == wire.ClassSuccess {
				x.rec.Violate("errorpath-success", "quota", "quota-refused user got an allocation")
			} else if x.stateDigest() != before {
				x.rec.Violate("errorpath-changed-state", "quota", "quota-refused Allocate changed state")
			}
			// and a Refresh 0 to free 5-tuples for more rounds
			for _, cc := range clients {
				if a, st := x.m.Alloc(cc); a != nil && st == sim.Live && rng.Intn(2) == 0 {
					x.m.Refresh(cc, sim.U32(0))
				}
			}
		}
		x.m.CrossCheck()
	}
	rec.SetSample(map[string]any{"listener": listen, "strict": strict, "steps": steps})
}

// ---------------------------------------------------------------- real sockets

// realClient is a minimal raw TURN client over an operating-system UDP socket.
type realClient struct {
	c     *net.UDPConn
	srv   *net.UDPAddr
	nonce string
	relay *net.UDPAddr
	rng   *rand.Rand
}

func (rc *realClient) do(method uint16, build func(b *wire.Builder)) *wire.Msg {
	for attempt := 0; attempt < 3; attempt++ {
		var tid [12]byte
		rc.rng.Read(tid[:])
		b := wire.NewBuilder(method, wire.ClassRequest, tid)
		if build != nil {
			build(b)
		}
		if rc.nonce != "" {
			b.Add(wire.AttrUsername, []byte("alice"))
			b.Add(wire.AttrRealm, []byte("verif.test"))
			b.Add(wire.AttrNonce, []byte(rc.nonce))
			b.AddIntegrity(wire.LongTermKey("alice", "verif.test", "pw-a"))
		}
		if _, err := rc.c.WriteToUDP(b.Bytes(), rc.srv); err != nil {
			return nil
		}
		buf := make([]byte, 2048)
		for {
			_ = rc.c.SetReadDeadline(time.Now().Add(3 * time.Second))
			n, _, err := rc.c.ReadFromUDP(buf)
			if err != nil {
				return nil
			}
			m, err := wire.ParseSTUN(buf[:n])
			if err != nil || m.TID != tid {
				continue
			}
			if m.Class == wire.ClassError && (m.ErrorCode() == 401 || m.ErrorCode() == 438) {
				if v, ok := m.Get(wire.AttrNonce); ok {
					rc.nonce = string(v)
				}

				break // again, with credentials
			}

			return m
		}
	}

	return nil
}

// runC19Real: a real Server with the bundled port-range generator on the loopback interface and
// a range smaller than the number of clients: every Allocate success must name a relayed address
// no other live allocation has, and a peer's datagram to that address must come out at its owner.
// runC19RealToken (operating-system sockets): one client reserves the port above its even relayed
// port, a second one redeems the RESERVATION-TOKEN, a third presents the same token again while the
// second's allocation lives: whatever the third is answered, it is not the second's relayed address.
func runC19RealToken(t *testing.T, rng *rand.Rand, rec *sim.Rec, caseNo int) {
	lc, err := net.ListenPacket("udp4", "127.0.0.1:0")
	if err != nil {
		rec.FP("real/unavailable")

		return
	}
	var gen turn.RelayAddressGenerator = &turn.RelayAddressGeneratorNone{Address: "127.0.0.1"}
	genName := "none"
	if caseNo%2 == 1 {
		gen, genName = &turn.RelayAddressGeneratorStatic{RelayAddress: net.IPv4(127, 0, 0, 1), Address: "127.0.0.1"}, "static"
	}
	srv, err := turn.NewServer(turn.ServerConfig{
		Realm: "verif.test",
		AuthHandler: func(ra *turn.RequestAttributes) (string, []byte, bool) {
			return ra.Username, wire.LongTermKey("alice", "verif.test", "pw-a"), ra.Username == "alice"
		},
		PacketConnConfigs: []turn.PacketConnConfig{{PacketConn: lc, RelayAddressGenerator: gen}},
		LoggerFactory:     sim.NewLogSink(),
	})
	if err != nil {
		_ = lc.Close()
		rec.Inconclusive("real server: %v", err)

		return
	}
	defer srv.Close() //nolint:errcheck
	srvAddr := lc.LocalAddr().(*net.UDPAddr)
	var rcs []*realClient
	for i := 0; i < 3; i++ {
		c, err := net.ListenUDP("udp4", &net.UDPAddr{IP: net.IPv4(127, 0, 0, byte(1+i))})
		if err != nil {
			c, err = net.ListenUDP("udp4", &net.UDPAddr{IP: net.IPv4(127, 0, 0, 1)})
		}
		if err != nil {
			return
		}
		defer c.Close() //nolint:errcheck
		rcs = append(rcs, &realClient{c: c, srv: srvAddr, rng: rng})
	}
	m0 := rcs[0].do(wire.MethodAllocate, func(b *wire.Builder) {
		b.Add(wire.AttrRequestedTransport, []byte{17, 0, 0, 0})
		b.Add(wire.AttrEvenPort, []byte{0x80})
	})
	if m0 == nil || m0.Class != wire.ClassSuccess {
		rec.FP("real/token/%s/even-port-refused", genName)

		return
	}
	token, ok := m0.Get(wire.AttrReservationToken)
	if !ok {
		rec.FP("real/token/%s/no-token", genName)

		return
	}
	var relays []string
	for i := 1; i <= 2; i++ {
		m := rcs[i].do(wire.MethodAllocate, func(b *wire.Builder) {
			b.Add(wire.AttrRequestedTransport, []byte{17, 0, 0, 0})
			b.Add(wire.AttrReservationToken, token)
		})
		if m == nil || m.Class != wire.ClassSuccess {
			rec.FP("real/token/%s/redeemer-%d-refused-%d", genName, i, codeOfMsg(m))

			continue
		}
		ip, port, _ := m.XorAddr(wire.AttrXORRelayedAddress)
		relays = append(relays, (&net.UDPAddr{IP: ip, Port: port}).String())
		rec.FP("real/token/%s/redeemer-%d-granted", genName, i)
	}
	if len(relays) == 2 && relays[0] == relays[1] {
		rec.Violate("relay-shared", "real/reservation-token", "two clients on different 5-tuples presented the same RESERVATION-TOKEN and were both given the relayed address %s (real sockets, generator %s)", relays[0], genName)
	}
	rec.SetSample(map[string]any{"kind": "real-sockets-reservation-token", "generator": genName, "granted": len(relays)})
}

func runC19Real(t *testing.T, rng *rand.Rand, rec *sim.Rec, tier string, caseNo int) {
	if caseNo%3 == 2 {
		runC19RealToken(t, rng, rec, caseNo/3)

		return
	}
	lc, err := net.ListenPacket("udp4", "127.0.0.1:0")
	if err != nil {
		rec.Ev("real-loopback-unavailable")
		rec.FP("real/unavailable")

		return
	}
	// a free port pair for the range
	probe, err := net.ListenPacket("udp4", "127.0.0.1:0")
	if err != nil {
		_ = lc.Close()

		return
	}
	p0 := probe.LocalAddr().(*net.UDPAddr).Port
	_ = probe.Close()
	width := 2 + rng.Intn(2)
	if p0+width > 65535 {
		p0 -= width
	}
	gen := &turn.RelayAddressGeneratorPortRange{RelayAddress: net.IPv4(127, 0, 0, 1), Address: "127.0.0.1", MinPort: uint16(p0), MaxPort: uint16(p0 + width - 1), MaxRetries: 40}
	srv, err := turn.NewServer(turn.ServerConfig{
		Realm: "verif.test",
		AuthHandler: func(ra *turn.RequestAttributes) (string, []byte, bool) {
			return ra.Username, wire.LongTermKey("alice", "verif.test", "pw-a"), ra.Username == "alice"
		},
		PacketConnConfigs: []turn.PacketConnConfig{{PacketConn: lc, RelayAddressGenerator: gen}},
		LoggerFactory:     sim.NewLogSink(),
	})
	if err != nil {
		_ = lc.Close()
		rec.Inconclusive("real server: %v", err)

		return
	}
	defer srv.Close() //nolint:errcheck
	srvAddr := lc.LocalAddr().(*net.UDPAddr)
	peer, err := net.ListenUDP("udp4", &net.UDPAddr{IP: net.IPv4(127, 0, 0, 1)})
	if err != nil {
		return
	}
	defer peer.Close() //nolint:errcheck
	nClients := width + 1 + rng.Intn(2)
	var live []*realClient
	owners := map[string]int{}
	firstPort := 0
	for i := 0; i < nClients; i++ {
		// clients sit on different loopback addresses (Linux answers for all of 127/8), the second
		// one on the same source port as the first: their 5-tuples differ in the source IP only
		ip := net.IPv4(127, 0, 0, byte(1+i))
		want := 0
		if i == 1 {
			want = firstPort
		}
		c, err := net.ListenUDP("udp4", &net.UDPAddr{IP: ip, Port: want})
		if err != nil {
			c, err = net.ListenUDP("udp4", &net.UDPAddr{IP: ip})
		}
		if err != nil {
			c, err = net.ListenUDP("udp4", &net.UDPAddr{IP: net.IPv4(127, 0, 0, 1)})
		}
		if err != nil {
			return
		}
		if i == 0 {
			firstPort = c.LocalAddr().(*net.UDPAddr).Port
		}
		defer c.Close() //nolint:errcheck
		rc := &realClient{c: c, srv: srvAddr, rng: rng}
		m := rc.do(wire.MethodAllocate, func(b *wire.Builder) { b.Add(wire.AttrRequestedTransport, []byte{17, 0, 0, 0}) })
		if m == nil {
			rec.Ev("real-no-answer")

			continue
		}
		rec.FP("real/allocate/%v/width=%d", m.Class == wire.ClassSuccess, width)
		if m.Class != wire.ClassSuccess {
			continue
		}
		ip, port, ok := m.XorAddr(wire.AttrXORRelayedAddress)
		if !ok {
			rec.Violate("relay-unreachable", "real/no-relayed-address", "Allocate success without XOR-RELAYED-ADDRESS")

			continue
		}
		rc.relay = &net.UDPAddr{IP: ip, Port: port}
		if port < p0 || port >= p0+width {
			rec.Violate("relay-unreachable", "real/out-of-range", "relayed port %d outside the configured range [%d,%d]", port, p0, p0+width-1)
		}
		if j, dup := owners[rc.relay.String()]; dup {
			rec.Violate("relay-shared", "real/port-range", "client %d was given relayed address %s which live allocation %d already has (real sockets, port range [%d,%d], %d clients)", i, rc.relay, j, p0, p0+width-1, nClients)
		}
		owners[rc.relay.String()] = i
		live = append(live, rc)
		rec.Ev("real-allocations")
	}
	// reachability of each relayed address: the owner gets the peer's datagram
	for i, rc := range live {
		m := rc.do(wire.MethodCreatePermission, func(b *wire.Builder) {
			b.AddXorAddr(wire.AttrXORPeerAddress, net.IPv4(127, 0, 0, 1).To4(), peer.LocalAddr().(*net.UDPAddr).Port)
		})
		if m == nil || m.Class != wire.ClassSuccess {
			continue
		}
		// somebody else is the last client the listener heard from
		if len(live) > 1 {
			other := live[(i+1)%len(live)]
			if bm := other.do(wire.MethodBinding, nil); bm != nil {
				if ip, port, ok := bm.XorAddr(wire.AttrXORMappedAddress); ok {
					if la := other.c.LocalAddr().(*net.UDPAddr); !ip.Equal(la.IP) || port != la.Port {
						rec.Violate("binding-mapped-addr", "real", "Binding response reports %s:%d, the request came from %s", ip, port, la)
					}
				}
			}
		}
		tag := []byte(fmt.Sprintf("to-relay-%d-%d", i, rng.Intn(1000000)))
		if _, err := peer.WriteToUDP(tag, rc.relay); err != nil {
			continue
		}
		buf := make([]byte, 2048)
		got := false
		for !got {
			_ = rc.c.SetReadDeadline(time.Now().Add(2 * time.Second))
			n, _, err := rc.c.ReadFromUDP(buf)
			if err != nil {
				break
			}
			if dm, err := wire.ParseSTUN(buf[:n]); err == nil && dm.Method == wire.MethodData {
				if v, ok := dm.Get(wire.AttrData); ok && string(v) == string(tag) {
					got = true
				}
			}
		}
		if got {
			rec.Ev("real-relay-reachable")
		} else if len(owners) == len(live) {
			// (with a shared address the datagram may have gone to the other holder: already reported)
			rec.Ev("real-datagram-not-seen") // wall-clock absence: not a verdict on a loaded machine
			// ... but its presence at somebody else's socket is one
			for j, other := range live {
				if j == i {
					continue
				}
				for {
					_ = other.c.SetReadDeadline(time.Now().Add(150 * time.Millisecond))
					n, _, err := other.c.ReadFromUDP(buf)
					if err != nil {
						break
					}
					if bytes.Contains(buf[:n], tag) {
						rec.Violate("relay-unreachable", "real/misdelivered", "a peer's datagram to the relayed address %s of client %d came out at client %d (%s) instead (real sockets, several clients on one UDP listener)", rc.relay, i, j, other.c.LocalAddr())
					}
				}
			}
		}
	}
	rec.SetSample(map[string]any{"kind": "real-sockets", "range_width": width, "clients": nClients, "successes": len(live)})
}

func init() {
	register("C19", PropDef{
		Bubble: false, // chosen per case
		Cases: func(tier string) int {
			if tier == "thorough" {
				return 100000
			}

			return 1500
		},
		Run: func(t *testing.T, rng *rand.Rand, rec *sim.Rec, tier string, caseNo int) {
			if caseNo%25 == 24 {
				runC19Real(t, rng, rec, tier, caseNo/25)

				return
			}
			inBubble(t, func(t *testing.T) { runC19(t, rng, rec, tier, caseNo) })
		},
	})
}
