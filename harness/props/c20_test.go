package props

import (
	"fmt"
	"io"
	"math/rand"
	"net"
	"testing"

	"github.com/pion/turn/v5"
	"github.com/pion/turn/v5/verifharness/sim"
	"github.com/pion/turn/v5/verifharness/simnet"
	"github.com/pion/turn/v5/verifharness/wire"
)

// C20: the bundled relay address generators honour their configuration. They run over the
// simulated transport.Net (which, like an OS for UDP, refuses to bind a port in use) with a
// scripted random source; every (conn, advertised addr, err) is inspected.

func init() {
	sim.RegisterKind("gen-advertised-ip", "C20")
	sim.RegisterKind("gen-advertised-port", "C20")
	sim.RegisterKind("gen-port-out-of-range", "C20")
	sim.RegisterKind("gen-requested-port", "C20")
	sim.RegisterKind("gen-port-shared", "C20")
	sim.RegisterKind("gen-no-error", "C20")
	sim.RegisterKind("gen-spurious-error", "C20")
	sim.RegisterKind("gen-leak-on-error", "C20", "C15")
	sim.RegisterKind("gen-panic", "C20")
	sim.RegisterKind("gen-intn-arg", "C20")
}

// scriptRand is a scripted randutil.MathRandomGenerator.
type scriptRand struct {
	mode string // "zero" "max" "mid" "prng" "seq"
	rng  *rand.Rand
	seq  []int
	i    int
	args []int // every n passed to Intn
}

func (s *scriptRand) Intn(n int) int {
	s.args = append(s.args, n)
	if n <= 0 {
		panic(fmt.Sprintf("Intn(%d)", n))
	}
	switch s.mode {
	case "zero":
		return 0
	case "max":
		return n - 1
	case "mid":
		return n / 2
	case "seq":
		v := s.seq[s.i%len(s.seq)]
		s.i++

		return v % n
	default:
		return s.rng.Intn(n)
	}
}
func (s *scriptRand) Uint32() uint32                    { return s.rng.Uint32() }
func (s *scriptRand) Uint64() uint64                    { return s.rng.Uint64() }
func (s *scriptRand) GenerateString(int, string) string { return "x" }

type genUnderTest struct {
	name     string
	g        turn.RelayAddressGenerator
	relayIP  net.IP // nil: pass-through (advertises the real local address)
	min, max int
	vnet     *simnet.VNet
	rnd      *scriptRand
	retries  int
}

func portOf(a net.Addr) (net.IP, int) {
	switch t := a.(type) {
	case *net.UDPAddr:
		return t.IP, t.Port
	case *net.TCPAddr:
		return t.IP, t.Port
	}

	return nil, -1
}

// runC20Server: the port-range generator behind a running server. Whatever the clients ask for
// (plain Allocate, EVEN-PORT with and without the reserve bit, UDP and TCP allocations), every
// relayed address the server hands out lies in the configured range, carries the configured relay
// IP, and is not shared between live allocations.
func runC20Server(t *testing.T, rng *rand.Rand, rec *sim.Rec, tier string, caseNo int) {
	lo := 1024 + rng.Intn(60000)
	width := rng.Intn(7)
	hi := lo + width
	retries := pick(rng, []int{0, 40, 200})
	grng := rand.New(rand.NewSource(rng.Int63()))
	cfg := sim.Config{
		Realm: "verif.test", Users: map[string]string{"alice": "pw-a", "bob": "pw-b"},
		UDPListeners: []*net.UDPAddr{{IP: sim.ServerIP4, Port: 3478}},
		TCPListeners: []*net.TCPAddr{{IP: sim.ServerIP4, Port: 3478}},
		MakeGen: func(n *simnet.Net) turn.RelayAddressGenerator {
			return &turn.RelayAddressGeneratorPortRange{
				RelayAddress: sim.RelayIP4, Address: "0.0.0.0", MinPort: uint16(lo), MaxPort: uint16(hi), MaxRetries: retries,
				Rand: &scriptRand{mode: "prng", rng: grng}, Net: &simnet.VNet{N: n, HostIP4: sim.RelayIP4},
			}
		},
	}
	// every other case the TCP listener has a generator of its own: another relay address, another
	// port range - what a client of that listener is given comes from there
	lo2, hi2 := lo, hi
	relay2 := sim.RelayIP4
	if caseNo%2 == 1 {
		lo2 = 1024 + (lo+5000)%60000
		hi2 = lo2 + width
		relay2 = net.IPv4(203, 0, 113, 9).To4()
		cfg.MakeGenTCP = func(n *simnet.Net) turn.RelayAddressGenerator {
			return &turn.RelayAddressGeneratorPortRange{
				RelayAddress: relay2, Address: "0.0.0.0", MinPort: uint16(lo2), MaxPort: uint16(hi2), MaxRetries: retries,
				Rand: &scriptRand{mode: "prng", rng: rand.New(rand.NewSource(int64(lo2)))}, Net: &simnet.VNet{N: n, HostIP4: sim.RelayIP4},
			}
		}
	}
	w, err := sim.NewWorld(cfg, rec, rng, true)
	if err != nil {
		t.Fatal(err)
	}
	defer w.Shutdown()
	m := sim.NewModel(w)
	m.RelayMayRunOut = true
	granted, refused := 0, 0
	steps := 6 + rng.Intn(14)
	var live []*sim.RawClient
	for i := 0; i < steps && len(rec.Violations()) == 0; i++ {
		rec.SetStep(i)
		if len(live) > 0 && rng.Intn(3) == 0 {
			k := rng.Intn(len(live))
			zero := uint32(0)
			m.Refresh(live[k], &zero)
			live = append(live[:k], live[k+1:]...)

			continue
		}
		var c *sim.RawClient
		tcp := rng.Intn(4) == 0
		if tcp {
			c, err = w.NewTCPClient(fmt.Sprintf("t%d", i), net.IPv4(10, 1, 2, byte(1+i)).To4(), 6000+i, 0, pick(rng, []string{"alice", "bob"}))
		} else {
			c, err = w.NewUDPClient(fmt.Sprintf("c%d", i), net.IPv4(10, 1, 2, byte(1+i)).To4(), 5000+i, 0, pick(rng, []string{"alice", "bob"}))
		}
		if err != nil {
			t.Fatal(err)
		}
		o := sim.AllocOpts{}
		how := "plain"
		if tcp {
			o.Transport = 6
			how = "tcp"
		} else if r := rng.Intn(5); r < 2 {
			rbit := r == 1
			o.EvenPort = &rbit
			how = fmt.Sprintf("even-port/reserve=%v", rbit)
		}
		resp := m.Allocate(c, o)
		if resp == nil || resp.Class != wire.ClassSuccess {
			refused++
			rec.FP("server/%s/refused-%d/width=%d/live=%d", how, codeOfMsg(resp), width, min(len(live), 8))
			busy := 0
			plo, phi := lo, hi
			if tcp {
				plo, phi = lo2, hi2
			}
			for p := plo; p <= phi; p++ {
				if (tcp && w.Net.TCPListening(sim.RelayIP4, p)) || (!tcp && w.Net.UDPBound(sim.RelayIP4, p)) {
					busy++
				}
			}
			if busy == 0 && o.EvenPort == nil {
				rec.Violate("gen-spurious-error", "server/all-free", "listener with port range [%d,%d] (MaxRetries %d): %s Allocate answered %d although every port of the range is free", plo, phi, retries, how, codeOfMsg(resp))
			}

			continue
		}
		relay, ok := sim.RelayAddrOf(resp)
		if !ok {
			continue // (the model has reported it)
		}
		granted++
		wlo, whi, wip := lo, hi, sim.RelayIP4
		if c.IsTCP {
			wlo, whi, wip = lo2, hi2, relay2 // (the client came in through the TCP listener)
		}
		if relay.Port < wlo || relay.Port > whi {
			rec.Violate("gen-port-out-of-range", "server/"+how, "listener with port range [%d,%d]: %s Allocate was given relayed port %d", wlo, whi, how, relay.Port)
		}
		if !relay.IP.Equal(wip) {
			rec.Violate("gen-advertised-ip", "server/"+how, "listener with relay address %s: %s Allocate was given %s", wip, how, relay)
		}
		if o.EvenPort != nil && relay.Port%2 != 0 {
			rec.Violate("gen-requested-port", "server/"+how, "EVEN-PORT Allocate was given odd relayed port %d", relay.Port)
		}
		live = append(live, c)
		rec.FP("server/%s/granted/width=%d/parity-lo=%d/live=%d", how, width, lo%2, min(len(live), 8))
	}
	rec.EvN("server-allocations-granted", granted)
	rec.EvN("server-allocations-refused", refused)
	rec.SetSample(map[string]any{"kind": "server", "range": []int{lo, hi}, "max_retries": retries, "granted": granted, "refused": refused})
}

func runC20(t *testing.T, rng *rand.Rand, rec *sim.Rec, tier string, caseNo int) {
	defer func() {
		if r := recover(); r != nil {
			rec.Violate("gen-panic", "panic", "generator panicked: %v", r)
		}
	}()
	n := simnet.New()
	defer n.CloseAll()
	v6 := caseNo%5 == 4
	host4, host6 := net.IPv4(192, 0, 2, 1).To4(), net.ParseIP("2001:db8::1")
	vn := &simnet.VNet{N: n, HostIP4: host4, HostIP6: host6}
	relayIP := net.IPv4(203, 0, 113, 7).To4()
	if v6 {
		relayIP = net.ParseIP("2001:db8:ffff::7")
	}
	if caseNo%7 == 3 {
		// the operator advertises an address of the other family than the one the sockets are bound
		// in (a NAT64/46 front, or simply a dual-stack wildcard bind): the generators advertise
		// what they are told to
		if v6 {
			relayIP = net.IPv4(203, 0, 113, 7).To4()
		} else {
			relayIP = net.ParseIP("2001:db8:ffff::7")
		}
	}
	bounds := []int{1, 2, 1023, 1024, 32767, 32768, 49152, 65534, 65535}
	lo, hi := pick(rng, bounds), pick(rng, bounds)
	if rng.Intn(2) == 0 {
		lo, hi = 1+rng.Intn(65535), 1+rng.Intn(65535)
	}
	if lo > hi {
		lo, hi = hi, lo
	}
	switch rng.Intn(4) {
	case 0:
		hi = lo // single-port range
	case 1:
		hi = min(lo+rng.Intn(4), 65535) // tiny range: fills up
	}
	rnd := &scriptRand{mode: pick(rng, []string{"zero", "max", "mid", "prng", "prng", "seq"}), rng: rand.New(rand.NewSource(rng.Int63()))}
	for i := 0; i < 8; i++ {
		rnd.seq = append(rnd.seq, rng.Intn(70000))
	}
	retries := pick(rng, []int{1, 2, 10, 0})
	addr := "0.0.0.0"
	if v6 {
		addr = "::"
	}
	var gut genUnderTest
	switch caseNo % 3 {
	case 0:
		g := &turn.RelayAddressGeneratorPortRange{RelayAddress: relayIP, MinPort: uint16(lo), MaxPort: uint16(hi), MaxRetries: retries, Rand: rnd, Address: addr, Net: vn}
		gut = genUnderTest{name: "range", g: g, relayIP: relayIP, min: lo, max: hi, vnet: vn, rnd: rnd, retries: retries}
	case 1:
		g := &turn.RelayAddressGeneratorStatic{RelayAddress: relayIP, Address: addr, Net: vn}
		gut = genUnderTest{name: "static", g: g, relayIP: relayIP, vnet: vn}
	default:
		a := host4.String()
		if v6 {
			a = host6.String()
		}
		g := &turn.RelayAddressGeneratorNone{Address: a, Net: vn}
		gut = genUnderTest{name: "none", g: g, vnet: vn}
	}
	if err := gut.g.Validate(); err != nil {
		rec.Violate("gen-spurious-error", "validate", "%s.Validate failed for a valid configuration: %v", gut.name, err)

		return
	}
	if gut.retries == 0 {
		gut.retries = 10
	}
	type held struct {
		closer   interface{ Close() error }
		port     int
		tcp      bool
		outsider bool
	}
	var live []held
	used := map[string]bool{} // "udp:port" of live relay sockets handed out by the generator
	netw := func(tcp bool) string {
		s := "udp"
		if tcp {
			s = "tcp"
		}
		if v6 {
			return s + "6"
		}

		return s + "4"
	}
	hostIP := host4
	if v6 {
		hostIP = host6
	}
	steps := 10 + rng.Intn(30)
	for i := 0; i < steps && len(rec.Violations()) == 0; i++ {
		// drain sometimes
		if len(live) > 0 && rng.Intn(4) == 0 {
			k := rng.Intn(len(live))
			_ = live[k].closer.Close()
			if live[k].outsider {
				delete(used, fmt.Sprintf("outsider:%d", live[k].port))
			} else {
				delete(used, fmt.Sprintf("%v:%d", live[k].tcp, live[k].port))
			}
			live = append(live[:k], live[k+1:]...)

			continue
		}
		tcp := rng.Intn(3) == 0
		req := 0
		switch rng.Intn(5) {
		case 0: // a free requested port
			req = 40000 + rng.Intn(1000)
		case 1: // a requested port that is in use
			if len(live) > 0 {
				h := pick(rng, live)
				if h.tcp == tcp && !h.outsider {
					req = h.port
				}
			}
		}
		// an outsider occupies a port of the range now and then
		if gut.name == "range" && !tcp && rng.Intn(6) == 0 {
			p := lo + rng.Intn(hi-lo+1)
			if c, err := n.ListenUDP(hostIP, p); err == nil {
				live = append(live, held{closer: c, port: p, outsider: true})
				used[fmt.Sprintf("outsider:%d", p)] = true
			}
		}
		conf := turn.AllocateListenerConfig{Network: netw(tcp), UserID: "u", Realm: "r", RequestedPort: req}
		rnd.args = nil
		udpBefore, tcpBefore := n.Bound()
		var adv net.Addr
		var err error
		var closer interface{ Close() error }
		var actual net.Addr
		if tcp {
			var l net.Listener
			l, adv, err = gut.g.AllocateListener(conf)
			if err == nil {
				closer, actual = l, l.Addr()
			}
		} else {
			var c net.PacketConn
			c, adv, err = gut.g.AllocatePacketConn(conf)
			if err == nil {
				closer, actual = c, c.LocalAddr()
			}
		}
		for _, a := range rnd.args {
			if a != hi-lo+1 {
				rec.Violate("gen-intn-arg", fmt.Sprintf("range=%d-%d", lo, hi), "random source asked for Intn(%d) with range [%d,%d] (%d ports)", a, lo, hi, hi-lo+1)
			}
		}
		outcome := "ok"
		if err != nil {
			outcome = "err"
		}
		rec.FP("%s/%s/req=%v/%s/single=%v/max65535=%v", gut.name, netw(tcp), req != 0, outcome, lo == hi, hi == 65535)
		rec.Ev("generator-calls")
		if err != nil {
			// a refused request leaves nothing bound behind
			if u, l := n.Bound(); u != udpBefore || l != tcpBefore {
				rec.Violate("gen-leak-on-error", gut.name, "%s returned an error (%v) and left a socket bound: %d->%d UDP sockets, %d->%d listeners", gut.name, err, udpBefore, u, tcpBefore, l)
			}
			// an error is legitimate only when binding was impossible
			inUse := func(p int) bool {
				if tcp {
					return n.TCPListening(hostIP, p)
				}

				return n.UDPBound(hostIP, p)
			}
			switch {
			case req != 0:
				if !inUse(req) {
					rec.Violate("gen-spurious-error", "requested-free", "%s failed (%v) although requested port %d was free", gut.name, err, req)
				}
			case gut.name != "range":
				rec.Violate("gen-spurious-error", "ephemeral", "%s failed without a requested port: %v", gut.name, err)
			default:
				// the range generator may give up after MaxRetries occupied draws; it must not when
				// the scripted source pointed at a free port
				rec.Ev("range-exhausted-or-unlucky")
				if hi-lo < 4096 {
					busy := 0
					for p := lo; p <= hi; p++ {
						if inUse(p) {
							busy++
						}
					}
					if busy == 0 {
						// every draw of the random source points at a free port
						rec.Violate("gen-spurious-error", "range/all-free", "range generator [%d,%d] (MaxRetries %d, %s) failed although every port of the range is free: %v", lo, hi, gut.retries, netw(tcp), err)
					}
				}
			}

			continue
		}
		ip, port := portOf(adv)
		_, aport := portOf(actual)
		if port != aport {
			rec.Violate("gen-advertised-port", gut.name, "%s advertises port %d but the socket is bound to %d", gut.name, port, aport)
		}
		if gut.relayIP != nil && !ip.Equal(gut.relayIP) {
			rec.Violate("gen-advertised-ip", gut.name, "%s advertises IP %s, configured relay address is %s", gut.name, ip, gut.relayIP)
		}
		if gut.relayIP == nil {
			aip, _ := portOf(actual)
			if !ip.Equal(aip) || !ip.Equal(hostIP) {
				rec.Violate("gen-advertised-ip", gut.name, "pass-through generator advertises %s, the socket's local address is %s", ip, aip)
			}
		}
		if req != 0 && port != req {
			rec.Violate("gen-requested-port", gut.name, "%s was asked for port %d and returned %d", gut.name, req, port)
		}
		if req == 0 && gut.name == "range" && (port < lo || port > hi) {
			rec.Violate("gen-port-out-of-range", fmt.Sprintf("%d-%d", lo, hi), "range generator [%d,%d] returned port %d (random source mode %s)", lo, hi, port, rnd.mode)
		}
		k := fmt.Sprintf("%v:%d", tcp, port)
		if used[k] || (used[fmt.Sprintf("outsider:%d", port)] && !tcp) {
			rec.Violate("gen-port-shared", gut.name, "%s returned %s port %d which another live socket already uses", gut.name, netw(tcp), port)
		}
		used[k] = true
		live = append(live, held{closer: closer, port: port, tcp: tcp})
	}
	// a range generator whose whole range is occupied must fail cleanly
	if gut.name == "range" && hi-lo < 6 {
		for p := lo; p <= hi; p++ {
			if c, err := n.ListenUDP(hostIP, p); err == nil {
				live = append(live, held{closer: c, port: p, outsider: true})
			}
		}
		c, _, err := gut.g.AllocatePacketConn(turn.AllocateListenerConfig{Network: netw(false)})
		if err == nil {
			_, p := portOf(c.LocalAddr())
			rec.Violate("gen-no-error", "full-range", "every port of [%d,%d] is bound, yet the generator returned a socket on port %d", lo, hi, p)
		}
		rec.FP("range/full/err=%v", err != nil)
	}
	for _, h := range live {
		_ = h.closer.Close()
	}
	rec.SetSample(map[string]any{"generator": gut.name, "min": lo, "max": hi, "v6": v6, "rand_mode": rnd.mode, "max_retries": retries, "steps": steps})
}

// runC20Real: the same generators over the operating system's loopback sockets. Socket options
// (SO_REUSEADDR / SO_REUSEPORT set through ListenConfig.Control) only have a meaning there: the
// simulated network cannot tell whether "bind" still refuses a port that is in use.
func runC20Real(t *testing.T, rng *rand.Rand, rec *sim.Rec, tier string, caseNo int) {
	defer func() {
		if r := recover(); r != nil {
			rec.Violate("gen-panic", "panic", "generator panicked on real sockets: %v", r)
		}
	}()
	tcp := caseNo%2 == 1
	v6 := (caseNo/2)%4 == 3
	host := "127.0.0.1"
	network := "udp4"
	if tcp {
		network = "tcp4"
	}
	if v6 {
		host = "::1"
		network = network[:3] + "6"
	}
	hostIP := net.ParseIP(host)
	// find a port that is free right now
	free := func() int {
		if tcp {
			l, err := net.Listen(network, net.JoinHostPort(host, "0"))
			if err != nil {
				return 0
			}
			defer l.Close() //nolint:errcheck

			return l.Addr().(*net.TCPAddr).Port
		}
		c, err := net.ListenPacket(network, net.JoinHostPort(host, "0"))
		if err != nil {
			return 0
		}
		defer c.Close() //nolint:errcheck

		return c.LocalAddr().(*net.UDPAddr).Port
	}
	p0 := free()
	if p0 == 0 {
		rec.Ev("real-loopback-unavailable/" + network)
		rec.FP("real/unavailable/%s", network)

		return
	}
	var g turn.RelayAddressGenerator
	name := []string{"range", "static", "none"}[(caseNo/8)%3]
	switch name {
	case "range":
		g = &turn.RelayAddressGeneratorPortRange{RelayAddress: hostIP, Address: host, MinPort: uint16(p0), MaxPort: uint16(p0), MaxRetries: 4}
	case "static":
		g = &turn.RelayAddressGeneratorStatic{RelayAddress: hostIP, Address: host}
	default:
		g = &turn.RelayAddressGeneratorNone{Address: host}
	}
	if err := g.Validate(); err != nil {
		rec.Violate("gen-spurious-error", "validate", "%s.Validate failed: %v", name, err)

		return
	}
	alloc := func(req int) (io.Closer, int, error) {
		conf := turn.AllocateListenerConfig{Network: network, UserID: "u", Realm: "r", RequestedPort: req}
		if tcp {
			l, adv, err := g.AllocateListener(conf)
			if err != nil {
				return nil, 0, err
			}
			_, ap := portOf(adv)
			if _, bp := portOf(l.Addr()); bp != ap {
				rec.Violate("gen-advertised-port", name+"/real", "%s advertises port %d, the listener is bound to %d", name, ap, bp)
			}

			return l, ap, nil
		}
		c, adv, err := g.AllocatePacketConn(conf)
		if err != nil {
			return nil, 0, err
		}
		_, ap := portOf(adv)
		if _, bp := portOf(c.LocalAddr()); bp != ap {
			rec.Violate("gen-advertised-port", name+"/real", "%s advertises port %d, the socket is bound to %d", name, ap, bp)
		}

		return c, ap, nil
	}
	first, port, err := alloc(0)
	if err != nil {
		rec.Ev("real-first-bind-failed") // somebody else took the port in between: nothing to learn
		rec.FP("real/%s/%s/first-busy", name, network)

		return
	}
	defer first.Close() //nolint:errcheck
	if name == "range" && port != p0 {
		rec.Violate("gen-port-out-of-range", "real", "range generator [%d,%d] returned port %d", p0, p0, port)
	}
	// the first allocation is live: neither asking for its port nor (single-port range) asking
	// for any port may produce a second socket on it
	how := "requested"
	req := port
	if name == "range" && rng.Intn(2) == 0 {
		how, req = "range-collision", 0
	}
	second, port2, err := alloc(req)
	if err == nil {
		_ = second.Close()
		if port2 == port {
			rec.Violate("gen-port-shared", network[:3]+"/"+how, "%s handed out %s port %d (%s) while a live allocation made by the same generator holds it: two live allocations share a relay port", name, network, port, how)
		}
	}
	rec.Ev("real-socket-double-allocations")
	rec.FP("real/%s/%s/%s/second-err=%v", name, network, how, err != nil)
	rec.SetSample(map[string]any{"generator": name, "network": network, "real_sockets": true, "how": how, "port": port})
}

func init() {
	register("C20", PropDef{
		Bubble: false,
		Cases: func(tier string) int {
			if tier == "thorough" {
				return 200000
			}

			return 3000
		},
		Run: func(t *testing.T, rng *rand.Rand, rec *sim.Rec, tier string, caseNo int) {
			if caseNo%10 == 9 {
				runC20Real(t, rng, rec, tier, caseNo/10)

				return
			}
			if caseNo%10 == 8 {
				inBubble(t, func(t *testing.T) { runC20Server(t, rng, rec, tier, caseNo/10) })

				return
			}
			runC20(t, rng, rec, tier, caseNo)
		},
	})
}
