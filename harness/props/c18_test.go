package props

import (
	"errors"
	"fmt"
	"math/rand"
	"net"
	"sort"
	"sync"
	"sync/atomic"
	"testing"
	"time"

	"github.com/pion/turn/v5"
	"github.com/pion/turn/v5/verifharness/sim"
	"github.com/pion/turn/v5/verifharness/simnet"
	"github.com/pion/turn/v5/verifharness/wire"
)

// C18: concurrent use is free of data races, lock-ups and teardown crashes.
//
//   - stress cases (real time, outside the bubble): many scripted clients on UDP and TCP listeners,
//     peers flooding the relays, tiny real timeouts so that expiry timers race with handlers, API
//     calls and Server.Close; real clients doing concurrent WriteTo/ReadFrom/Close. Oracles: the
//     race detector, process survival, a watchdog (hang), lock probes after the storm, and a
//     cross-delivery tag check that does not depend on timing.
//   - forced schedules (virtual time): a harness callback the library invokes without holding a
//     mutex (permission-created, allocation-created/deleted callbacks, auth / permission handler,
//     relay generator, listener socket writes) sleeps just across the next expiry while the
//     request that triggered it is still in flight, incl. requests sent exactly on an expiry
//     instant (ties). Oracles: no panic, quiescence, locks free, liveness.
//   - burst cases: concurrent requests on a TCP listener (linearizability check of C04) run here
//     too, for their interleavings under the race detector.

func init() {
	sim.RegisterKind("stress-cross-delivery", "C18", "C04")
	sim.RegisterKind("stress-wedged", "C18")
	sim.RegisterKind("schedule-liveness", "C18")
}

type stressClient struct {
	name    string
	rng     *rand.Rand
	udp     *simnet.UDPConn
	tcp     *simnet.Conn
	buf     []byte
	srv     *net.UDPAddr
	user    string
	pass    string
	nonce   string
	relay   *net.UDPAddr
	gotTags []string
}

func (c *stressClient) tid() (t [12]byte) { c.rng.Read(t[:]); return t }

func (c *stressClient) send(b []byte) {
	if c.tcp != nil {
		_, _ = c.tcp.Write(b)

		return
	}
	_, _ = c.udp.WriteTo(b, c.srv)
}

// recvUntil reads messages until one with tid arrives or the (real-time) deadline passes.
func (c *stressClient) recvUntil(tid [12]byte, d time.Duration) *wire.Msg {
	deadline := time.Now().Add(d)
	tmp := make([]byte, 4096)
	for time.Now().Before(deadline) {
		var raw []byte
		if c.tcp != nil {
			if n, _, err := wire.NextFrame(c.buf); err == nil {
				raw = append([]byte{}, c.buf[:n]...)
				c.buf = c.buf[n:]
			} else if !errors.Is(err, wire.ErrIncomplete) {
				return nil
			} else {
				_ = c.tcp.SetReadDeadline(deadline)
				n, err := c.tcp.Read(tmp)
				if err != nil {
					return nil
				}
				c.buf = append(c.buf, tmp[:n]...)

				continue
			}
		} else {
			_ = c.udp.SetReadDeadline(deadline)
			n, _, err := c.udp.ReadFrom(tmp)
			if err != nil {
				return nil
			}
			raw = append([]byte{}, tmp[:n]...)
		}
		m, err := wire.ParseSTUN(raw)
		if err != nil {
			continue
		}
		if m.Class == wire.ClassIndication && m.Method == wire.MethodData {
			if d, ok := m.Get(wire.AttrData); ok {
				c.gotTags = append(c.gotTags, string(d))
			}

			continue
		}
		if m.TID == tid {
			return m
		}
	}

	return nil
}

func (c *stressClient) req(method uint16, build func(b *wire.Builder)) *wire.Msg {
	for attempt := 0; attempt < 2; attempt++ {
		tid := c.tid()
		b := wire.NewBuilder(method, wire.ClassRequest, tid)
		if build != nil {
			build(b)
		}
		if c.nonce != "" {
			b.Add(wire.AttrUsername, []byte(c.user))
			b.Add(wire.AttrRealm, []byte("verif.test"))
			b.Add(wire.AttrNonce, []byte(c.nonce))
			b.AddIntegrity(wire.LongTermKey(c.user, "verif.test", c.pass))
		}
		c.send(b.Bytes())
		r := c.recvUntil(tid, 40*time.Millisecond)
		if r == nil {
			return nil
		}
		if code := r.ErrorCode(); r.Class == wire.ClassError && (code == 401 || code == 438) {
			if n, ok := r.Get(wire.AttrNonce); ok {
				c.nonce = string(n)

				continue
			}
		}

		return r
	}

	return nil
}

func runC18Stress(t *testing.T, rng *rand.Rand, rec *sim.Rec, tier string, caseNo int) {
	cfg := sim.Config{
		Realm: "verif.test", Users: map[string]string{"alice": "pw-a", "bob": "pw-b"},
		Lifetime:     time.Duration(20+rng.Intn(180)) * time.Millisecond,
		PermTimeout:  time.Duration(5+rng.Intn(45)) * time.Millisecond,
		ChanTimeout:  time.Duration(5+rng.Intn(45)) * time.Millisecond,
		UDPListeners: []*net.UDPAddr{{IP: sim.ServerIP4, Port: 3478}},
		TCPListeners: []*net.TCPAddr{{IP: sim.ServerIP4, Port: 3478}},
	}
	w, err := sim.NewWorld(cfg, rec, rng, false)
	if err != nil {
		t.Fatal(err)
	}
	w.Net.LogSends = false
	slowCB := rng.Intn(2) == 0
	if slowCB {
		for _, k := range []string{"alloc+", "alloc-", "perm+", "perm-", "chan+", "chan-"} {
			if rng.Intn(2) == 0 {
				w.SetEventDelay(k, time.Duration(rng.Intn(3000))*time.Microsecond) // real time: any callback may be slow
			}
		}
	}
	nUDP, nTCP, nPeers := 6+rng.Intn(10), 2+rng.Intn(6), 4
	var peers []*simnet.UDPConn
	for i := 0; i < nPeers; i++ {
		p, _ := w.Net.ListenUDP(net.IPv4(10, 2, 0, byte(1+i)).To4(), 7000+i)
		peers = append(peers, p)
	}
	var relayMu sync.Mutex
	relays := map[string]bool{}
	stop := make(chan struct{})
	var wg sync.WaitGroup
	var ops, cross atomic.Int64
	runClient := func(c *stressClient) {
		defer wg.Done()
		for {
			select {
			case <-stop:
				return
			default:
			}
			ops.Add(1)
			switch c.rng.Intn(10) {
			case 0, 1:
				r := c.req(wire.MethodAllocate, func(b *wire.Builder) { b.Add(wire.AttrRequestedTransport, []byte{17, 0, 0, 0}) })
				if r != nil && r.Class == wire.ClassSuccess {
					if ip, port, ok := r.XorAddr(wire.AttrXORRelayedAddress); ok {
						c.relay = &net.UDPAddr{IP: ip, Port: port}
						relayMu.Lock()
						relays[c.relay.String()] = true
						relayMu.Unlock()
					}
				}
			case 2:
				c.req(wire.MethodRefresh, func(b *wire.Builder) { b.AddU32(wire.AttrLifetime, uint32(c.rng.Intn(2))) })
			case 3, 4:
				p := peers[c.rng.Intn(len(peers))].Addr()
				c.req(wire.MethodCreatePermission, func(b *wire.Builder) { b.AddXorAddr(wire.AttrXORPeerAddress, p.IP, p.Port) })
			case 5, 6:
				p := peers[c.rng.Intn(len(peers))].Addr()
				c.req(wire.MethodChannelBind, func(b *wire.Builder) {
					n := 0x4000 + c.rng.Intn(4)
					b.Add(wire.AttrChannelNumber, []byte{byte(n >> 8), byte(n), 0, 0})
					b.AddXorAddr(wire.AttrXORPeerAddress, p.IP, p.Port)
				})
			case 7:
				p := peers[c.rng.Intn(len(peers))].Addr()
				b := wire.NewBuilder(wire.MethodSend, wire.ClassIndication, c.tid())
				b.AddXorAddr(wire.AttrXORPeerAddress, p.IP, p.Port)
				b.Add(wire.AttrData, []byte("c2p"))
				c.send(b.Bytes())
			case 8:
				c.send(wire.EncodeChannelData(uint16(0x4000+c.rng.Intn(4)), []byte("chan"), true))
			default:
				time.Sleep(time.Duration(c.rng.Intn(3000)) * time.Microsecond)
			}
			// Data indications must name this client's own relay in their payload
			if len(c.gotTags) > 0 {
				relayMu.Lock()
				for _, tag := range c.gotTags {
					if c.relay != nil && len(tag) > 3 && tag[:3] == "to:" && !relays[tag[3:]] {
						cross.Add(1)
					}
				}
				relayMu.Unlock()
			}
			c.gotTags = nil
		}
	}
	for i := 0; i < nUDP; i++ {
		u, _ := w.Net.ListenUDP(net.IPv4(10, 1, 0, byte(1+i/2)).To4(), 5000+i)
		c := &stressClient{name: fmt.Sprintf("u%d", i), rng: rand.New(rand.NewSource(rng.Int63())), udp: u, srv: w.ServerUDP[0].Addr(), user: "alice", pass: "pw-a"}
		wg.Add(1)
		go runClient(c)
	}
	for i := 0; i < nTCP; i++ {
		conn, err := w.Net.DialTCP(net.IPv4(10, 1, 1, byte(1+i)).To4(), 0, w.ServerTCP[0].TCPAddr())
		if err != nil {
			t.Fatal(err)
		}
		c := &stressClient{name: fmt.Sprintf("t%d", i), rng: rand.New(rand.NewSource(rng.Int63())), tcp: conn, user: "bob", pass: "pw-b"}
		wg.Add(1)
		go runClient(c)
	}
	// peers flood every relay address seen so far
	for i, p := range peers {
		wg.Add(1)
		go func(i int, p *simnet.UDPConn) {
			defer wg.Done()
			prng := rand.New(rand.NewSource(int64(caseNo*100 + i)))
			for {
				select {
				case <-stop:
					return
				default:
				}
				relayMu.Lock()
				var targets []string
				for r := range relays {
					targets = append(targets, r)
				}
				relayMu.Unlock()
				for _, r := range targets {
					if ua, err := net.ResolveUDPAddr("udp", r); err == nil {
						_, _ = p.WriteTo([]byte("to:"+r), ua)
					}
				}
				p.Drain()
				time.Sleep(time.Duration(200+prng.Intn(800)) * time.Microsecond)
			}
		}(i, p)
	}
	// API caller
	wg.Add(1)
	go func() {
		defer wg.Done()
		for {
			select {
			case <-stop:
				return
			default:
				_ = w.Srv.AllocationCount()
				time.Sleep(300 * time.Microsecond)
			}
		}
	}()
	dur := 500 * time.Millisecond
	if tier == "thorough" {
		dur = 1500 * time.Millisecond
	}
	time.Sleep(dur)
	closeDuring := rng.Intn(2) == 0
	if closeDuring {
		_ = w.Srv.Close() // Close racing with traffic
		time.Sleep(50 * time.Millisecond)
	}
	close(stop)
	done := make(chan struct{})
	go func() { wg.Wait(); close(done) }()
	select {
	case <-done:
	case <-time.After(20 * time.Second):
		rec.Violate("stress-wedged", "actors", "stress actors did not stop within 20 s")
	}
	time.Sleep(300 * time.Millisecond) // timers of tiny lifetimes run out
	if !closeDuring {
		for _, mgr := range w.Srv.VerifManagers() {
			// A leaked mutex stays held for ever; one that an expiry handler holds for a moment (timers
			// of tiny lifetimes go on firing, late on a loaded machine) does not: only a mutex found
			// held at every one of up to 100 probes, 200 ms of wall time apart, counts.
			// (While Manager.lock is taken the probe cannot look at the allocations' mutexes: such a
			// sample says nothing about them.)
			var stuck []string
			cand := map[string]bool{}
			looked := 0
			for i := 0; i < 100; i++ {
				held := mgr.VerifLocksHeld()
				if len(held) == 1 && held[0] == "Manager.lock" {
					time.Sleep(200 * time.Millisecond)

					continue
				}
				now := map[string]bool{}
				for _, h := range held {
					now[h] = true
				}
				if looked == 0 {
					cand = now
				} else {
					for k := range cand {
						if !now[k] {
							delete(cand, k)
						}
					}
				}
				looked++
				if len(cand) == 0 {
					break
				}
				time.Sleep(200 * time.Millisecond)
			}
			if looked == 0 {
				stuck = []string{"Manager.lock"}
			}
			for k := range cand {
				stuck = append(stuck, k)
			}
			sort.Strings(stuck)
			if len(stuck) > 0 {
				rec.Violate("lock-held", "after-stress", "mutex held at every one of 100 probes over 20 s after the stress ended: %v", stuck)
			}
		}
		// the server still answers
		u, _ := w.Net.ListenUDP(net.IPv4(10, 1, 9, 9).To4(), 5999)
		c := &stressClient{rng: rand.New(rand.NewSource(1)), udp: u, srv: w.ServerUDP[0].Addr()}
		tid := c.tid()
		c.send(wire.NewBuilder(wire.MethodBinding, wire.ClassRequest, tid).Bytes())
		if r := c.recvUntil(tid, 10*time.Second); r == nil && !rec.Poisoned() {
			rec.Violate("stress-wedged", "binding", "the server does not answer a Binding request after the stress")
		}
	}
	if n := cross.Load(); n > 0 {
		rec.Violate("stress-cross-delivery", "tag", "%d Data indications carried payloads addressed to a relay that was never handed out", n)
	}
	rec.EvN("stress-client-ops", int(ops.Load()))
	rec.EvN("stress-lifecycle-events", len(w.Events()))
	rec.FP("stress/close-during=%v/slow-callbacks=%v", closeDuring, slowCB)
	rec.SetSample(map[string]any{"kind": "stress", "udp_clients": nUDP, "tcp_clients": nTCP, "ops": ops.Load(), "lifecycle_events": len(w.Events()),
		"lifetime": cfg.Lifetime.String(), "perm_timeout": cfg.PermTimeout.String(), "chan_timeout": cfg.ChanTimeout.String()})
	if !rec.Poisoned() {
		w.Shutdown()
	}
}

// runC18Schedule: forced schedules in virtual time.
func runC18Schedule(t *testing.T, rng *rand.Rand, rec *sim.Rec, tier string, caseNo int) {
	life := pick(rng, []time.Duration{10 * time.Second, 30 * time.Second, 2 * time.Minute})
	permTO := pick(rng, []time.Duration{5 * time.Second, 20 * time.Second, 3 * time.Minute})
	chanTO := pick(rng, []time.Duration{7 * time.Second, 25 * time.Second, 4 * time.Minute})
	cfg := sim.Config{
		Realm: "verif.test", Users: map[string]string{"alice": "pw-a", "bob": "pw-b"},
		Lifetime: life, PermTimeout: permTO, ChanTimeout: chanTO,
		UDPListeners: []*net.UDPAddr{{IP: sim.ServerIP4, Port: 3478}},
		TCPListeners: []*net.TCPAddr{{IP: sim.ServerIP4, Port: 3478}},
	}
	w, err := sim.NewWorld(cfg, rec, rng, true)
	if err != nil {
		t.Fatal(err)
	}
	defer w.Shutdown()
	m := sim.NewModel(w)
	c, _ := w.NewUDPClient("c0", net.IPv4(10, 1, 0, 1).To4(), 5000, 0, "alice")
	by, _ := w.NewUDPClient("bystander", net.IPv4(10, 1, 0, 2).To4(), 5001, 0, "bob")
	p1, _ := w.NewPeer("p1", net.IPv4(10, 2, 0, 1).To4(), 7000)
	p2, _ := w.NewPeer("p2", net.IPv4(10, 2, 0, 2).To4(), 7001)
	m.Allocate(by, sim.AllocOpts{Lifetime: sim.U32(3000)})
	m.Allocate(c, sim.AllocOpts{})
	m.CreatePermission(c, p1.Addr)
	m.ChannelBind(c, 0x4001, p1.Addr)
	a, _ := m.Alloc(c)
	if a == nil {
		rec.Inconclusive("setup failed")

		return
	}
	// choose the timer to straddle and the yield point that will be slow
	timers := map[string]time.Time{"allocation": a.Exp, "permission": a.Perms[p1.Addr.IP.String()], "channel": a.Chans[0].Exp}
	which := pick(rng, []string{"allocation", "permission", "channel"})
	at := timers[which]
	point := pick(rng, []string{"perm+", "alloc-", "auth", "permission-handler", "generator", "listener-write", "tie", "tie-bind"})
	tieBind := point == "tie-bind"
	if tieBind {
		point, which = "tie", "allocation"
		at = timers[which]
	}
	// requests are sent raw from here on: their outcome is not under test (MAY), only survival is
	sendRaw := func(cl *sim.RawClient, method uint16, build func(b *wire.Builder)) {
		tid := w.NewTID()
		b := wire.NewBuilder(method, wire.ClassRequest, tid)
		if build != nil {
			build(b)
		}
		cl.AddAuth(b)
		_ = cl.SendRaw(b.Bytes())
	}
	delay := time.Duration(1500+rng.Intn(2000)) * time.Millisecond
	before := at.Add(-time.Duration(200+rng.Intn(800)) * time.Millisecond)
	if point == "tie" {
		before = at // the request is handled exactly when the timer fires
		delay = 0
	}
	if d := time.Until(before); d > 0 {
		time.Sleep(d)
	}
	switch point {
	case "perm+":
		w.SetEventDelay("perm+", delay)
		// only CreatePermission reaches the permission-created callback without a mutex held
		sendRaw(c, wire.MethodCreatePermission, func(b *wire.Builder) { b.AddXorAddr(wire.AttrXORPeerAddress, p2.Addr.IP, p2.Addr.Port) })
	case "alloc-":
		w.SetEventDelay("alloc-", delay)
		sendRaw(c, wire.MethodRefresh, func(b *wire.Builder) { b.AddU32(wire.AttrLifetime, 0) })
	case "auth":
		w.AuthHook = func() { time.Sleep(delay) }
		sendRaw(c, pick(rng, []uint16{wire.MethodRefresh, wire.MethodCreatePermission, wire.MethodChannelBind}), func(b *wire.Builder) {
			b.AddU32(wire.AttrLifetime, 600)
			b.AddXorAddr(wire.AttrXORPeerAddress, p2.Addr.IP, p2.Addr.Port)
			b.Add(wire.AttrChannelNumber, []byte{0x40, 0x02, 0, 0})
		})
	case "permission-handler":
		w.PermHook = func() { time.Sleep(delay) }
		sendRaw(c, pick(rng, []uint16{wire.MethodCreatePermission, wire.MethodChannelBind}), func(b *wire.Builder) {
			b.AddXorAddr(wire.AttrXORPeerAddress, p2.Addr.IP, p2.Addr.Port)
			b.Add(wire.AttrChannelNumber, []byte{0x40, 0x02, 0, 0})
		})
	case "generator":
		w.Gen.Delay = delay
		fresh, _ := w.NewUDPClient("fresh", net.IPv4(10, 1, 0, 3).To4(), 5002, 0, "alice")
		fresh.Nonce = c.Nonce
		sendRaw(fresh, wire.MethodAllocate, func(b *wire.Builder) { b.Add(wire.AttrRequestedTransport, []byte{17, 0, 0, 0}) })
	case "listener-write":
		hook := func([]byte, net.Addr) (int, error, bool) { time.Sleep(delay); return 0, nil, false }
		w.ServerUDP[0].WriteHook = hook
		sendRaw(c, wire.MethodRefresh, func(b *wire.Builder) { b.AddU32(wire.AttrLifetime, 600) })
	case "tie":
		switch which {
		case "permission":
			sendRaw(c, wire.MethodCreatePermission, func(b *wire.Builder) { b.AddXorAddr(wire.AttrXORPeerAddress, p1.Addr.IP, p1.Addr.Port) })
		case "channel":
			sendRaw(c, wire.MethodChannelBind, func(b *wire.Builder) {
				b.Add(wire.AttrChannelNumber, []byte{0x40, 0x01, 0, 0})
				b.AddXorAddr(wire.AttrXORPeerAddress, p1.Addr.IP, p1.Addr.Port)
			})
		default:
			if tieBind {
				// a ChannelBind that has to create the permission of a new peer, with a slow
				// permission-created callback, lands on the allocation's expiry instant
				w.SetEventYield("perm+", true)
				w.SetEventDelay("perm+", time.Second)
				sendRaw(c, wire.MethodChannelBind, func(b *wire.Builder) {
					b.Add(wire.AttrChannelNumber, []byte{0x40, 0x02, 0, 0})
					b.AddXorAddr(wire.AttrXORPeerAddress, p2.Addr.IP, p2.Addr.Port)
				})
				rec.FP("schedule/tie/channelbind-new-peer")
			} else {
				sendRaw(c, pick(rng, []uint16{wire.MethodRefresh, wire.MethodCreatePermission}), func(b *wire.Builder) {
					b.AddU32(wire.AttrLifetime, 600)
					b.AddXorAddr(wire.AttrXORPeerAddress, p2.Addr.IP, p2.Addr.Port)
				})
			}
		}
		// data in both directions at the same instant
		_ = c.SendRaw(c.SendIndicationBytes(p1.Addr, []byte("tie")))
		_, _ = p1.UDP.WriteTo([]byte("tie-back"), a.RelayUDP)
	}
	// while the yield point sleeps the timers fire and traffic keeps arriving
	_, _ = p1.UDP.WriteTo([]byte("during"), a.RelayUDP)
	w.Sleep(delay + 4*time.Second)
	w.ServerUDP[0].WriteHook = nil
	w.AuthHook, w.PermHook, w.Gen.Delay = nil, nil, 0
	w.SetEventDelay("perm+", 0)
	w.SetEventYield("perm+", false)
	w.SetEventDelay("alloc-", 0)
	w.Net.TakeSendLog()
	for _, cl := range w.Clients {
		cl.Collect()
		cl.TakeInbox()
	}
	// ---- oracles: survived (we are here), locks free, server alive for a bystander
	w.Settle()
	for _, mgr := range w.Srv.VerifManagers() {
		if held := mgr.VerifLocksHeld(); len(held) > 0 {
			rec.Violate("lock-held", "schedule/"+point, "mutex held after %s straddled the %s expiry: %v", point, which, held)

			return
		}
	}
	if r := m.Refresh(by, sim.U32(3000)); r == nil || r.Class != wire.ClassSuccess {
		rec.Violate("schedule-liveness", point, "bystander's Refresh failed (%d) after %s straddled the %s expiry", codeOfMsg(r), point, which)
	}
	rec.FP("schedule/%s/across-%s", point, which)
	rec.Ev("forced-schedules")
	rec.SetSample(map[string]any{"kind": "forced-schedule", "yield_point": point, "timer": which, "delay": delay.String(), "lifetime": life.String(), "perm_timeout": permTO.String(), "chan_timeout": chanTO.String()})
}

// runC18TeardownInbound: an RFC 6062 allocation with several permitted peers is torn down (by
// Refresh 0, by its control connection closing, by expiry or by Server.Close) while its
// permission-deleted callbacks are slow, and during each of those callbacks the permitted peers
// connect to the relayed address: the relay's accept path and the teardown path meet on the
// allocation's and the manager's locks.
func runC18TeardownInbound(t *testing.T, rng *rand.Rand, rec *sim.Rec, tier string, caseNo int) {
	life := pick(rng, []time.Duration{20 * time.Second, 2 * time.Minute})
	cfg := sim.Config{
		Realm: "verif.test", Users: map[string]string{"alice": "pw-a", "bob": "pw-b"}, Lifetime: life,
		TCPListeners: []*net.TCPAddr{{IP: sim.ServerIP4, Port: 3478}},
		UDPListeners: []*net.UDPAddr{{IP: sim.ServerIP4, Port: 3478}},
	}
	w, err := sim.NewWorld(cfg, rec, rng, true)
	if err != nil {
		t.Fatal(err)
	}
	defer w.Shutdown()
	w.Net.LogSends = false
	m := sim.NewModel(w)
	by, _ := w.NewTCPClient("bystander", net.IPv4(10, 1, 1, 9).To4(), 6009, 0, "bob")
	m.Allocate(by, sim.AllocOpts{Lifetime: sim.U32(3000)})
	nAllocs := 1 + rng.Intn(2)
	var relays []*net.TCPAddr
	var owners []*sim.RawClient
	nPeers := 2 + rng.Intn(3)
	var peerIPs []net.IP
	for i := 0; i < nPeers; i++ {
		peerIPs = append(peerIPs, net.IPv4(10, 2, 0, byte(1+i)).To4())
	}
	for k := 0; k < nAllocs; k++ {
		c, err := w.NewTCPClient(fmt.Sprintf("t%d", k), net.IPv4(10, 1, 1, byte(1+k)).To4(), 6000+k, 0, "alice")
		if err != nil {
			t.Fatal(err)
		}
		if r := m.Allocate(c, sim.AllocOpts{Transport: 6}); r == nil || r.Class != wire.ClassSuccess {
			rec.Inconclusive("tcp allocate failed")

			return
		}
		for _, ip := range peerIPs {
			m.CreatePermission(c, &net.UDPAddr{IP: ip, Port: 1})
		}
		a, _ := m.Alloc(c)
		ra, err := net.ResolveTCPAddr("tcp", a.Relay)
		if a == nil || err != nil {
			rec.Inconclusive("no relayed address")

			return
		}
		relays = append(relays, ra)
		owners = append(owners, c)
	}
	var dmu sync.Mutex
	dialed := 0
	var conns []*simnet.Conn
	w.SetEventDelay("perm-", time.Second) // (a yield storm, not a sleep: the callback runs under locks)
	w.SetOnEventStart(func(ev sim.LifeEvent) {
		if ev.Kind != "perm-" {
			return
		}
		// every peer knocks at every relay while this permission is going away
		for _, ra := range relays {
			for _, ip := range peerIPs {
				if c, err := w.Net.DialTCP(ip, 0, ra); err == nil {
					dmu.Lock()
					dialed++
					conns = append(conns, c)
					dmu.Unlock()
				}
			}
		}
	})
	cause := pick(rng, []string{"refresh0", "control-close", "expiry", "server-close"})
	switch cause {
	case "refresh0":
		for _, c := range owners {
			tid := w.NewTID()
			b := wire.NewBuilder(wire.MethodRefresh, wire.ClassRequest, tid)
			b.AddU32(wire.AttrLifetime, 0)
			c.AddAuth(b)
			m.Track(c, tid, wire.MethodRefresh) // (the response monitor must know the request)
			_ = c.SendRaw(b.Bytes())
		}
	case "control-close":
		for _, c := range owners {
			c.Close()
		}
	case "expiry":
		time.Sleep(life + time.Second)
	case "server-close":
		w.Shutdown()
	}
	w.Settle()
	time.Sleep(2 * time.Second)
	w.SetOnEventStart(nil)
	w.SetEventDelay("perm-", 0)
	dmu.Lock()
	for _, c := range conns {
		_ = c.Close()
	}
	n := dialed
	dmu.Unlock()
	w.Settle()
	rec.EvN("inbound-connections-during-teardown", n)
	rec.FP("teardown-inbound/%s/allocs=%d/dialed=%v", cause, nAllocs, n > 0)
	rec.SetSample(map[string]any{"kind": "teardown-vs-inbound", "cause": cause, "allocations": nAllocs, "peers": nPeers, "dialed": n})
	if cause == "server-close" {
		return
	}
	for _, mgr := range w.Srv.VerifManagers() {
		if held := mgr.VerifLocksHeld(); len(held) > 0 {
			rec.Violate("lock-held", "teardown-inbound/"+cause, "mutex held after a TCP allocation was torn down (%s) while peers connected: %v", cause, held)

			return
		}
	}
	if r := m.Refresh(by, sim.U32(3000)); r == nil || r.Class != wire.ClassSuccess {
		rec.Violate("schedule-liveness", "teardown-inbound", "bystander's Refresh failed (%d) after a TCP allocation was torn down (%s) while peers connected", codeOfMsg(r), cause)
	}
}

// runC18MassClose: several bound RFC 6062 data connections of one allocation end in the same
// instant (peers close together, then the clients' ends): their teardown paths run concurrently
// in the server.
func runC18MassClose(t *testing.T, rng *rand.Rand, rec *sim.Rec, tier string, caseNo int) {
	cfg := sim.Config{
		Realm: "verif.test", Users: map[string]string{"alice": "pw-a", "bob": "pw-b"},
		TCPListeners: []*net.TCPAddr{{IP: sim.ServerIP4, Port: 3478}},
		UDPListeners: []*net.UDPAddr{{IP: sim.ServerIP4, Port: 3478}},
	}
	w, err := sim.NewWorld(cfg, rec, rng, true)
	if err != nil {
		t.Fatal(err)
	}
	defer w.Shutdown()
	x := &c16{t: t, w: w, m: sim.NewModel(w), rng: rng, rec: rec}
	c, err := w.NewTCPClient("t0", net.IPv4(10, 1, 1, 1).To4(), 6000, 0, "alice")
	if err != nil {
		t.Fatal(err)
	}
	if r := x.m.Allocate(c, sim.AllocOpts{Transport: 6}); r == nil || r.Class != wire.ClassSuccess {
		rec.Inconclusive("tcp allocate failed")

		return
	}
	n := 3 + rng.Intn(4)
	for i := 0; i < n; i++ {
		p := &tcpPeer{addr: &net.TCPAddr{IP: net.IPv4(10, 2, 0, byte(1+i)).To4(), Port: 8000 + i}}
		p.l, _ = w.Net.ListenTCP(p.addr.IP, p.addr.Port)
		x.peers = []*tcpPeer{p}
		x.opConnect(c)
	}
	bound := 0
	for _, mc := range x.conns {
		code, data, _ := x.bind(c, mc.id, c.User)
		if code == 0 {
			mc.bound, mc.data = true, data
			bound++
		}
	}
	// everything ends at once
	order := rng.Perm(len(x.conns))
	for _, i := range order {
		mc := x.conns[i]
		if rng.Intn(2) == 0 {
			_ = mc.peerEnd.Close()
		} else if mc.data != nil {
			_ = mc.data.Close()
		}
	}
	w.Sleep(time.Second)
	for _, mc := range x.conns {
		_ = mc.peerEnd.Close()
		if mc.data != nil {
			_ = mc.data.Close()
		}
	}
	w.Sleep(time.Second)
	x.m.Audit(nil)
	x.serverAlive(c, "mass-close")
	rec.FP("mass-close/bound=%d", min(bound, 4))
	rec.SetSample(map[string]any{"kind": "mass-close", "connections": n, "bound": bound})
}

// wrapConn lets a real-time case make the client's socket slow and failing.
type slowFailConn struct {
	*simnet.UDPConn
	mu    sync.Mutex
	n     int
	slow  time.Duration
	failN int
}

func (c *slowFailConn) WriteTo(b []byte, a net.Addr) (int, error) {
	c.mu.Lock()
	c.n++
	n := c.n
	c.mu.Unlock()
	if c.failN > 0 && n >= c.failN {
		time.Sleep(c.slow)

		return 0, errors.New("injected write failure")
	}

	return c.UDPConn.WriteTo(b, a)
}

// runC18ClientClose (real time): Client.Close lands while a retransmission's socket write is slow
// and then fails, for a transaction somebody is waiting on.
func runC18ClientClose(t *testing.T, rng *rand.Rand, rec *sim.Rec, tier string, caseNo int) {
	n := simnet.New()
	defer n.CloseAll()
	srv, err := sim.NewScriptedServer(n, sim.ServerIP4, 3478)
	if err != nil {
		t.Fatal(err)
	}
	defer srv.Close()
	srv.SetHandler(nil) // silent: every request is retransmitted
	logs := sim.NewLogSink()
	rc, err := sim.NewRealClient(n, net.IPv4(10, 1, 0, 1).To4(), 5000, "10.0.0.1:3478", "alice", "pw-a", "verif.test", 5*time.Millisecond, logs, nil)
	if err != nil {
		t.Fatal(err)
	}
	_ = rc
	// a second client on a wrapped socket (NewRealClient owns the plain one)
	_ = rc.Conn.Close()
	base, _ := n.ListenUDP(net.IPv4(10, 1, 0, 2).To4(), 5001)
	wrapped := &slowFailConn{UDPConn: base, slow: time.Duration(5+rng.Intn(20)) * time.Millisecond, failN: 2 + rng.Intn(3)}
	cl, err := newClientOn(wrapped, n, logs)
	if err != nil {
		t.Fatal(err)
	}
	if err := cl.Listen(); err != nil {
		t.Fatal(err)
	}
	done := make(chan error, 4)
	nTr := 1 + rng.Intn(3)
	for i := 0; i < nTr; i++ {
		go func() {
			_, err := cl.SendBindingRequestTo(srv.Addr)
			done <- err
		}()
	}
	// Close while the failing retransmission write is in progress (RTO 5 ms: the 2nd..4th write)
	time.Sleep(time.Duration(3+rng.Intn(25)) * time.Millisecond)
	cl.Close()
	for i := 0; i < nTr; i++ {
		select {
		case <-done:
		case <-time.After(10 * time.Second):
			rec.Violate("stress-wedged", "client-close", "a transaction did not return within 10 s of Client.Close")
		}
	}
	time.Sleep(50 * time.Millisecond)
	_ = base.Close()
	rec.FP("client-close-during-failing-retransmission/n=%d", nTr)
	rec.SetSample(map[string]any{"kind": "client-close-during-rtx", "transactions": nTr})
}

// runC18TCPAllocClose (real time): an RFC 6062 allocation of the real client is closed by the
// application while permitted peers keep connecting to its relayed address - every such
// connection makes the server send a ConnectionAttempt indication that the client's read loop
// hands to the allocation. Close against that delivery, a blocked Accept against Close; then the
// client allocates again. The process survives, Accept returns, nothing stays blocked.
func runC18TCPAllocClose(t *testing.T, rng *rand.Rand, rec *sim.Rec, tier string, caseNo int) {
	cfg := sim.Config{
		Realm: "verif.test", Users: map[string]string{"alice": "pw-a"},
		TCPListeners: []*net.TCPAddr{{IP: sim.ServerIP4, Port: 3478}},
	}
	w, err := sim.NewWorld(cfg, rec, rng, false)
	if err != nil {
		t.Fatal(err)
	}
	defer w.Shutdown()
	w.Net.LogSends = false
	ctrl, err := w.Net.DialTCP(net.IPv4(10, 1, 1, 1).To4(), 0, w.ServerTCP[0].TCPAddr())
	if err != nil {
		t.Fatal(err)
	}
	logs := sim.NewLogSink()
	cl, err := turn.NewClient(&turn.ClientConfig{
		STUNServerAddr: "10.0.0.1:3478", TURNServerAddr: "10.0.0.1:3478", Conn: turn.NewSTUNConn(ctrl),
		Username: "alice", Password: "pw-a", Realm: "verif.test",
		Net: &simnet.VNet{N: w.Net, HostIP4: net.IPv4(10, 1, 1, 1).To4()}, LoggerFactory: logs,
	})
	if err != nil {
		t.Fatal(err)
	}
	defer cl.Close()
	if err := cl.Listen(); err != nil {
		t.Fatal(err)
	}
	peerIP := net.IPv4(10, 2, 0, 1).To4()
	rounds := 6
	attempts := 0
	for r := 0; r < rounds && len(rec.Violations()) == 0; r++ {
		alloc, err := cl.AllocateTCP()
		if err != nil {
			rec.Violate("stress-wedged", "tcp-alloc-close/allocate", "AllocateTCP failed in round %d: %v", r, err)

			return
		}
		ra, _ := net.ResolveTCPAddr("tcp", alloc.Addr().String())
		if err := cl.CreatePermission(&net.TCPAddr{IP: peerIP, Port: 1}); err != nil {
			rec.Violate("stress-wedged", "tcp-alloc-close/permission", "CreatePermission failed in round %d: %v", r, err)

			return
		}
		stop := make(chan struct{})
		var wg sync.WaitGroup
		var mu sync.Mutex
		for g := 0; g < 4; g++ {
			wg.Add(1)
			go func() {
				defer wg.Done()
				for i := 0; ; i++ {
					select {
					case <-stop:
						return
					default:
					}
					c, err := w.Net.DialTCP(peerIP, 0, ra)
					if err == nil {
						mu.Lock()
						attempts++
						mu.Unlock()
						time.Sleep(200 * time.Microsecond)
						_ = c.Close()
					} else {
						time.Sleep(200 * time.Microsecond)
					}
				}
			}()
		}
		accepted := make(chan error, 1)
		timeouts := make(chan struct{}, 16)
		var closing atomic.Bool
		go func() {
			for {
				c, err := alloc.AcceptTCP()
				var ne net.Error
				if err != nil && errors.As(err, &ne) && ne.Timeout() {
					timeouts <- struct{}{} // a deadline passed: the application accepts again

					continue
				}
				if err != nil && !closing.Load() {
					// (not a timeout, and nobody has closed the allocation: a ConnectionAttempt that the
					// server sent for the previous, just deleted allocation of this 5-tuple reached the
					// client late and could not be bound - an error for that one connection only)
					rec.Ev("accept-errors-for-stale-connection-attempts")

					continue
				}
				if err != nil {
					accepted <- err

					return
				}
				_ = c.Close()
			}
		}()
		// deadlines on the accepting side: one that expires while Accept waits, then - with the
		// goroutine back in Accept - one set from here to interrupt it at once
		for k, d := range []time.Duration{3 * time.Millisecond, 0} {
			_ = alloc.SetDeadline(time.Now().Add(d))
			select {
			case <-timeouts:
			case <-time.After(20 * time.Second):
				// (generous: this case runs in real time, possibly on a loaded machine)
				rec.Violate("stress-wedged", fmt.Sprintf("tcp-alloc-accept-deadline/%d", k), "Accept on the client's TCP allocation did not return within 20 s of a deadline set to now+%v from another goroutine (deadline number %d of this allocation)", d, k+1)

				return
			}
			time.Sleep(2 * time.Millisecond)
		}
		_ = alloc.SetDeadline(time.Time{})
		time.Sleep(time.Duration(1+rng.Intn(8)) * time.Millisecond)
		closing.Store(true)
		_ = alloc.Close()
		time.Sleep(3 * time.Millisecond)
		close(stop)
		wg.Wait()
		select {
		case <-accepted:
		case <-time.After(2 * time.Second):
			// (an Accept still blocked after Close is what the unchanged client does when no attempt
			// is pending - the doc comment promises otherwise, no property here does)
			rec.Ev("accept-still-blocked-after-close")
		}
	}
	// the client is still in working order
	done := make(chan error, 1)
	go func() { _, err := cl.SendBindingRequest(); done <- err }()
	select {
	case err := <-done:
		if err != nil {
			rec.Violate("stress-wedged", "tcp-alloc-close/follow-up", "Binding transaction after %d rounds of TCPAllocation.Close against inbound connection attempts failed: %v", rounds, err)
		}
	case <-time.After(15 * time.Second):
		rec.Violate("stress-wedged", "tcp-alloc-close/follow-up", "Binding transaction after the rounds did not return")
	}
	rec.EvN("inbound-connections-during-tcp-allocation-close", attempts)
	rec.FP("tcp-allocation-close-vs-connection-attempts")
	rec.SetSample(map[string]any{"kind": "tcp-allocation-close-vs-attempts", "rounds": rounds, "inbound_connections": attempts})
}

func newClientOn(conn net.PacketConn, n *simnet.Net, logs *sim.LogSink) (*turn.Client, error) {
	return turn.NewClient(&turn.ClientConfig{
		STUNServerAddr: "10.0.0.1:3478", TURNServerAddr: "10.0.0.1:3478", Conn: conn, Username: "alice", Password: "pw-a", Realm: "verif.test",
		RTO: 5 * time.Millisecond, Net: &simnet.VNet{N: n, HostIP4: net.IPv4(10, 1, 0, 2).To4()}, LoggerFactory: logs,
	})
}

func init() {
	register("C18", PropDef{
		Bubble: false, // chosen per case below
		Cases: func(tier string) int {
			if tier == "thorough" {
				return 12000
			}

			return 540
		},
		Run: func(t *testing.T, rng *rand.Rand, rec *sim.Rec, tier string, caseNo int) {
			switch caseNo % 9 {
			case 6:
				if (caseNo/9)%3 == 2 {
					// one client's Connect is dialling a peer that takes 20 s to answer while another
					// allocation reaches its lifetime and a bystander keeps making requests: nobody
					// waits for that dial
					inBubble(t, func(t *testing.T) { runSlowConnect(t, rng, rec, tier, caseNo) })

					return
				}
				inBubble(t, func(t *testing.T) { runC18TeardownInbound(t, rng, rec, tier, caseNo) })
			case 7:
				inBubble(t, func(t *testing.T) { runC18MassClose(t, rng, rec, tier, caseNo) })
			case 8:
				if (caseNo/9)%2 == 1 {
					runC18TCPAllocClose(t, rng, rec, tier, caseNo)
				} else {
					runC18ClientClose(t, rng, rec, tier, caseNo)
				}
			case 0:
				runC18Stress(t, rng, rec, tier, caseNo)
			case 1:
				inBubble(t, func(t *testing.T) { runC04Burst(t, rng, rec, tier, caseNo) })
			case 2:
				// client side: concurrent writers on the relayed socket, timers, inbound bursts (C13's
				// workload) - here for its interleavings under the race detector
				inBubble(t, func(t *testing.T) { runC13(t, rng, rec, tier, 1+caseNo/7*7%6) })
			case 3:
				// client side: 2-8 concurrent transactions with permuted answers, Close and write errors
				inBubble(t, func(t *testing.T) {
					x := newC12(t, rng, rec, pick(rng, c12RTOs))
					defer x.close()
					switch rng.Intn(6) {
					case 4:
						x.caseCloseDuringRtxWrite()
					case 0:
						x.caseConcurrent()
					case 1:
						x.caseClose()
					case 2:
						x.caseRtxWriteRace()
					case 3:
						x.caseCloseDuringRtxWrite()
					default:
						x.caseWriteError()
					}
				})
			default:
				inBubble(t, func(t *testing.T) { runC18Schedule(t, rng, rec, tier, caseNo) })
			}
		},
	})
}
