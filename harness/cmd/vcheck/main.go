// vcheck is the driver of the runtime-verification harness: it (re)builds the property test
// binary against /repo's current working tree with the race detector and the `verif` hooks,
// runs the cases of one property in several child processes, classifies crashes and hangs,
// aggregates what the monitors observed into /verif/evidence/<id>.json and prints
// "VIOLATION property=<id> replay=<path>" lines.
//
// exit 0: held on everything explored; 1: violation; 2: inconclusive / broken.
package main

import (
	"bufio"
	"encoding/json"
	"fmt"
	"hash/fnv"
	"os"
	"os/exec"
	"path/filepath"
	"regexp"
	"runtime"
	"sort"
	"strconv"
	"strings"
	"sync"
	"syscall"
	"time"
)

// Directories are derived from the location of the running binary (<verif>/bin/vcheck), so a
// snapshot of /verif started with `vp run` uses its own harness sources, build and evidence dirs.
var (
	verifDir   = "/verif"
	harnessDir = "/verif/harness"
	buildDir   = "/verif/.build"
)

func init() {
	if d := os.Getenv("VERIF_DIR"); d != "" {
		verifDir = d
	} else if exe, err := os.Executable(); err == nil {
		if root := filepath.Dir(filepath.Dir(exe)); fileExists(filepath.Join(root, "harness", "go.mod")) {
			verifDir = root
		}
	}
	harnessDir = filepath.Join(verifDir, "harness")
	buildDir = filepath.Join(verifDir, ".build")
	outRoot = verifDir
	if repo := os.Getenv("VERIF_REPO"); repo != "" {
		// a scratch tree (mutant, seeded change, reverted fix): its binaries, run directories,
		// evidence and replay files live apart from those of /repo's own tree, so that such a run
		// can neither overwrite the evidence of the real tree nor collide with a concurrent run
		h := fnv.New32a()
		_, _ = h.Write([]byte(repo))
		tag := fmt.Sprintf("%08x", h.Sum32())
		if t := os.Getenv("VERIF_SCRATCH_TAG"); t != "" {
			tag = t // lets the calling tool remove the directory afterwards
		}
		buildDir = filepath.Join(verifDir, ".build", "scratch-"+tag)
		outRoot = buildDir
	}
}

// outRoot is where evidence/ and replays/ are written (verifDir for /repo's own tree).
var outRoot string

var builtBin string // removed on exit: every invocation links its own test binary

func exit(code int) {
	if builtBin != "" {
		_ = os.Remove(builtBin)
	}
	os.Exit(code)
}

func fileExists(p string) bool {
	_, err := os.Stat(p)

	return err == nil
}

type violation struct {
	Props  []string `json:"props"`
	Kind   string   `json:"kind"`
	Sig    string   `json:"sig"`
	Detail string   `json:"detail"`
	Step   int      `json:"step"`
}

type result struct {
	Prop         string         `json:"prop"`
	Case         int            `json:"case"`
	Seed         int64          `json:"seed"`
	Violations   []violation    `json:"violations"`
	FP           []string       `json:"fp"`
	Events       map[string]int `json:"events"`
	Sample       any            `json:"sample"`
	Inconclusive string         `json:"inconclusive"`
	Trace        []string       `json:"trace"`
}

type finding struct {
	Property string `json:"property"`
	Sig      string `json:"sig"`
	Status   string `json:"status"` // "known" or "fixed"
	Commit   string `json:"commit,omitempty"`
	What     string `json:"what"`
}

func goEnv() []string {
	env := os.Environ()
	env = append(env, "GOFLAGS=-mod=mod", "GOPROXY=off", "GOSUMDB=off", "GOTOOLCHAIN=local")

	return env
}

func fatal(code int, format string, args ...any) {
	fmt.Fprintf(os.Stderr, format+"\n", args...)
	exit(code)
}

// build compiles the test binary; returns its path.
func build(pkg, out string, race bool) (string, error) {
	if err := os.MkdirAll(buildDir, 0o755); err != nil {
		return "", err
	}
	// a name of its own per invocation: two checks started at the same time must not link over
	// each other's (running) binary
	bin := filepath.Join(buildDir, fmt.Sprintf("%s.%d", out, os.Getpid()))
	builtBin = bin
	args := []string{"test", "-c", "-tags", "verif", "-o", bin}
	if race {
		args = append(args, "-race")
	}
	if repo := os.Getenv("VERIF_REPO"); repo != "" {
		// scratch tree: temporary modfile with the replace pointing there
		mod, err := os.ReadFile(filepath.Join(harnessDir, "go.mod"))
		if err != nil {
			return "", err
		}
		alt := strings.Replace(string(mod), "=> /repo", "=> "+repo, 1)
		altPath := filepath.Join(buildDir, "alt.go.mod")
		if err := os.WriteFile(altPath, []byte(alt), 0o644); err != nil {
			return "", err
		}
		sum, _ := os.ReadFile(filepath.Join(harnessDir, "go.sum"))
		_ = os.WriteFile(filepath.Join(buildDir, "alt.go.sum"), sum, 0o644)
		args = append(args, "-modfile="+altPath)
	}
	args = append(args, pkg)
	cmd := exec.Command("go1.26.8", args...)
	cmd.Dir = harnessDir
	cmd.Env = goEnv()
	outb, err := cmd.CombinedOutput()
	if err != nil {
		return "", fmt.Errorf("build failed: %v\n%s", err, outb)
	}

	return bin, nil
}

type workerOut struct {
	k         int
	results   []result
	done      bool
	lastStart int
	started   map[int]bool
	finished  map[int]bool
	logPath   string
	timedOut  bool
	exitErr   error
	poisoned  int
}

func parseOut(path string, wo *workerOut) {
	f, err := os.Open(path)
	if err != nil {
		return
	}
	defer f.Close()
	sc := bufio.NewScanner(f)
	sc.Buffer(make([]byte, 1<<20), 64<<20)
	for sc.Scan() {
		line := sc.Text()
		switch {
		case strings.HasPrefix(line, "START "):
			n, _ := strconv.Atoi(line[6:])
			wo.lastStart = n
			wo.started[n] = true
		case strings.HasPrefix(line, "RESULT "):
			var r result
			if err := json.Unmarshal([]byte(line[7:]), &r); err == nil {
				wo.results = append(wo.results, r)
				wo.finished[r.Case] = true
			}
		case line == "DONE":
			wo.done = true
		case strings.HasPrefix(line, "POISONED "):
			wo.poisoned, _ = strconv.Atoi(line[9:])
		}
	}
}

// runChild runs the test binary with the given env under a watchdog. On watchdog expiry it sends
// SIGQUIT (goroutine dump goes to the log file) and then kills.
func runChild(bin string, env []string, logPath string, watchdog time.Duration, extraArgs ...string) (timedOut bool, err error) {
	lf, err := os.Create(logPath)
	if err != nil {
		return false, err
	}
	defer lf.Close()
	args := append([]string{"-test.run", "^TestProp$", "-test.timeout", "0"}, extraArgs...)
	cmd := exec.Command(bin, args...)
	cmd.Env = append(os.Environ(), env...)
	cmd.Stdout = lf
	cmd.Stderr = lf
	cmd.Dir = buildDir
	if err := cmd.Start(); err != nil {
		return false, err
	}
	doneCh := make(chan error, 1)
	go func() { doneCh <- cmd.Wait() }()
	select {
	case err = <-doneCh:
		return false, err
	case <-time.After(watchdog):
		_ = cmd.Process.Signal(syscall.SIGQUIT)
		select {
		case <-doneCh:
		case <-time.After(10 * time.Second):
			_ = cmd.Process.Kill()
			<-doneCh
		}

		return true, fmt.Errorf("watchdog")
	}
}

var pionFrame = regexp.MustCompile(`github\.com/pion/turn/v5(/internal/[a-z]+)?\.(\(\*?[A-Za-z]+\)\.)?[A-Za-z_][A-Za-z0-9_.]*`)

// crashSummary extracts the panic/fatal line and the pion/turn frames from a child log.
func crashSummary(logPath string) (headline string, frames []string, isRace bool) {
	b, _ := os.ReadFile(logPath)
	lines := strings.Split(string(b), "\n")
	seen := map[string]bool{}
	for _, l := range lines {
		if headline == "" && (strings.HasPrefix(l, "panic:") || strings.HasPrefix(l, "fatal error:") || strings.Contains(l, "[signal SIG")) {
			headline = strings.TrimSpace(l)
		}
		if strings.Contains(l, "WARNING: DATA RACE") {
			isRace = true
		}
		if strings.Contains(l, "verifharness") {
			continue
		}
		if m := pionFrame.FindString(l); m != "" && !seen[m] && len(frames) < 12 {
			seen[m] = true
			frames = append(frames, m)
		}
	}

	return headline, frames, isRace
}

// countRaces counts race reports that involve pion/turn code (lib) and those whose stacks are
// harness-only (a harness bug: the run is broken, not a verdict), with a de-duplication key of
// the first library frames of each report.
func countRaces(dir string) (lib int, heads []string, harnessOnly int) {
	matches, _ := filepath.Glob(filepath.Join(dir, "race.*"))
	seen := map[string]bool{}
	for _, m := range matches {
		b, _ := os.ReadFile(m)
		blocks := strings.Split(string(b), "WARNING: DATA RACE")
		for _, blk := range blocks[1:] {
			var fr []string
			for _, l := range strings.Split(blk, "\n") {
				if strings.Contains(l, "verifharness") || strings.HasPrefix(l, "      ") {
					continue
				}
				if mm := pionFrame.FindString(l); mm != "" && len(fr) < 4 {
					fr = append(fr, strings.TrimPrefix(mm, "github.com/pion/turn/v5"))
				}
			}
			if len(fr) == 0 || harnessOwnsBothAccesses(blk) {
				harnessOnly++

				continue
			}
			lib++
			key := strings.Join(fr, " | ")
			if !seen[key] && len(heads) < 8 {
				seen[key] = true
				heads = append(heads, key)
			}
		}
	}
	sort.Strings(heads)

	return lib, heads, harnessOnly
}

// harnessOwnsBothAccesses: in both access stacks of a race report the innermost frame that is
// either harness or pion/turn code (runtime and standard library frames skipped) is harness
// code: the racing variable is the harness' own, whoever called into it.
func harnessOwnsBothAccesses(blk string) bool {
	accesses, harness := 0, 0
	lines := strings.Split(blk, "\n")
	for i := 0; i < len(lines); i++ {
		l := strings.TrimSpace(lines[i])
		if !(strings.HasPrefix(l, "Read at") || strings.HasPrefix(l, "Write at") || strings.HasPrefix(l, "Previous read at") || strings.HasPrefix(l, "Previous write at") ||
			strings.HasPrefix(l, "Atomic read at") || strings.HasPrefix(l, "Atomic write at") || strings.HasPrefix(l, "Previous atomic")) {
			continue
		}
		accesses++
		for j := i + 1; j < len(lines) && strings.TrimSpace(lines[j]) != ""; j++ {
			if strings.HasPrefix(lines[j], "      ") {
				continue // file:line
			}
			if strings.Contains(lines[j], "verifharness") {
				harness++

				break
			}
			if pionFrame.MatchString(lines[j]) {
				break
			}
		}
	}

	return accesses >= 2 && harness == accesses
}

func loadFindings() []finding {
	b, err := os.ReadFile(filepath.Join(verifDir, "KNOWN_FINDINGS.json"))
	if err != nil {
		return nil
	}
	var doc struct {
		Findings []finding `json:"findings"`
	}
	if err := json.Unmarshal(b, &doc); err != nil {
		fatal(2, "KNOWN_FINDINGS.json: %v", err)
	}

	return doc.Findings
}

func contains(xs []string, x string) bool {
	for _, s := range xs {
		if s == x {
			return true
		}
	}

	return false
}

func main() {
	args := os.Args[1:]
	if len(args) >= 1 && args[0] == "--warm" {
		if _, err := build("./props", "props.test", true); err != nil {
			fatal(2, "%v", err)
		}
		fmt.Println("warm: ok")

		return
	}
	if len(args) < 2 {
		fatal(2, "usage: vcheck <property> quick|thorough | vcheck <property> --replay <file>")
	}
	prop := args[0]
	meta, ok := metaTable[prop]
	if !ok {
		fatal(2, "unknown property %s", prop)
	}
	seed := int64(1)
	if v := os.Getenv("VERIF_SEED"); v != "" {
		if n, err := strconv.ParseInt(v, 10, 64); err == nil {
			seed = n
		}
	}
	start := time.Now()
	bin, err := build("./props", "props.test", true)
	if err != nil {
		fmt.Println(err)
		fatal(2, "INCONCLUSIVE property=%s build failed", prop)
	}
	if args[1] == "--replay" {
		if len(args) < 3 {
			fatal(2, "--replay needs a file")
		}
		exit(replay(bin, prop, args[2]))
	}
	tier := args[1]
	if tier != "quick" && tier != "thorough" {
		fatal(2, "tier must be quick or thorough")
	}

	runDir := filepath.Join(buildDir, "run", fmt.Sprintf("%s-%s-%d", prop, tier, seed))
	_ = os.RemoveAll(runDir)
	if err := os.MkdirAll(runDir, 0o755); err != nil {
		fatal(2, "%v", err)
	}
	workers := runtime.NumCPU() - 2
	if workers < 1 {
		workers = 1
	}
	if meta.MaxWorkers > 0 && workers > meta.MaxWorkers {
		workers = meta.MaxWorkers
	}
	if v := os.Getenv("VERIF_WORKERS"); v != "" {
		if n, err := strconv.Atoi(v); err == nil && n > 0 {
			workers = n
		}
	}
	watchdog := meta.Watchdog[tier]
	if watchdog == 0 {
		watchdog = 15 * time.Minute
		if tier == "thorough" {
			watchdog = 90 * time.Minute
		}
	}
	baseEnv := []string{
		"VERIF_PROP=" + prop, "VERIF_TIER=" + tier, fmt.Sprintf("VERIF_SEED=%d", seed),
		fmt.Sprintf("VERIF_WORKERS=%d", workers),
		"GORACE=halt_on_error=0 log_path=" + filepath.Join(runDir, "race"),
	}
	outs := make([]*workerOut, workers)
	var wg sync.WaitGroup
	var mu sync.Mutex
	var all []result
	var crashes []crash
	inconclusive := []string{}
	poisonedTotal := 0
	// followUp runs in the worker's own goroutine: it collects the worker's results and, when the
	// child did not reach DONE, restarts it behind the poisoned case or confirms the crash/hang.
	// Once a few cases have wedged the library the verdict is settled (exit 1); exploring further
	// behind every wedge would only cost a watchdog period each, so restarts are capped.
	followUp := func(wo *workerOut) {
		add := func(rs []result) {
			mu.Lock()
			all = append(all, rs...)
			mu.Unlock()
		}
		add(wo.results)
		// a case that leaked a mutex abandons its process on purpose: restart the worker after it
		for restarts := 0; !wo.done && wo.poisoned >= 0; restarts++ {
			mu.Lock()
			poisonedTotal++
			stop := restarts >= 3 || poisonedTotal > 2*workers
			mu.Unlock()
			if stop {
				return // verdict settled by the recorded violations; the rest stays unexplored
			}
			rest := filepath.Join(runDir, fmt.Sprintf("w%d.p%d.out", wo.k, restarts))
			env := append(append([]string{}, baseEnv...), fmt.Sprintf("VERIF_WORKER=%d", wo.k), "VERIF_OUT="+rest, fmt.Sprintf("VERIF_SKIP_UNTIL=%d", wo.poisoned))
			wo2 := &workerOut{k: wo.k, started: map[int]bool{}, finished: map[int]bool{}, lastStart: -1, poisoned: -1}
			wo2.logPath = filepath.Join(runDir, fmt.Sprintf("w%d.p%d.log", wo.k, restarts))
			wo2.timedOut, wo2.exitErr = runChild(bin, env, wo2.logPath, watchdog)
			parseOut(rest, wo2)
			add(wo2.results)
			wo = wo2
		}
		if wo.done {
			return
		}
		// child died or hung: the culprit is the last started, unfinished case
		culprit := -1
		if wo.lastStart >= 0 && !wo.finished[wo.lastStart] {
			culprit = wo.lastStart
		}
		headline, frames, _ := crashSummary(wo.logPath)
		if culprit < 0 {
			mu.Lock()
			inconclusive = append(inconclusive, fmt.Sprintf("worker %d ended without DONE and without an open case (%v): %s", wo.k, wo.exitErr, headline))
			mu.Unlock()

			return
		}
		cr := confirmCrash(bin, baseEnv, runDir, culprit, wo, watchdog)
		if cr.headline == "" {
			cr.headline, cr.frames = headline, frames
		}
		mu.Lock()
		crashes = append(crashes, cr)
		mu.Unlock()
		// run the rest of this worker's cases, skipping the culprit
		rest := filepath.Join(runDir, fmt.Sprintf("w%d.rest.out", wo.k))
		env := append(append([]string{}, baseEnv...), fmt.Sprintf("VERIF_WORKER=%d", wo.k), "VERIF_OUT="+rest, fmt.Sprintf("VERIF_SKIP_UNTIL=%d", culprit))
		wo2 := &workerOut{k: wo.k, started: map[int]bool{}, finished: map[int]bool{}, lastStart: -1}
		_, _ = runChild(bin, env, filepath.Join(runDir, fmt.Sprintf("w%d.rest.log", wo.k)), watchdog)
		parseOut(rest, wo2)
		add(wo2.results)
		if !wo2.done {
			mu.Lock()
			inconclusive = append(inconclusive, fmt.Sprintf("worker %d died again after case %d; remaining cases not explored", wo.k, culprit))
			mu.Unlock()
		}
	}
	for k := 0; k < workers; k++ {
		wo := &workerOut{k: k, started: map[int]bool{}, finished: map[int]bool{}, lastStart: -1, poisoned: -1}
		outs[k] = wo
		wg.Add(1)
		go func(k int, wo *workerOut) {
			defer wg.Done()
			outPath := filepath.Join(runDir, fmt.Sprintf("w%d.out", k))
			wo.logPath = filepath.Join(runDir, fmt.Sprintf("w%d.log", k))
			env := append(append([]string{}, baseEnv...), fmt.Sprintf("VERIF_WORKER=%d", k), "VERIF_OUT="+outPath)
			wo.timedOut, wo.exitErr = runChild(bin, env, wo.logPath, watchdog)
			parseOut(outPath, wo)
			followUp(wo)
		}(k, wo)
	}
	wg.Wait()

	exit(report(prop, tier, seed, meta, all, crashes, inconclusive, runDir, time.Since(start)))
}

type crash struct {
	caseNo    int
	confirmed bool
	hang      bool
	headline  string
	frames    []string
	logPath   string
}

// confirmCrash re-runs the culprit case alone (twice at most) to see whether it is reproducibly fatal.
func confirmCrash(bin string, baseEnv []string, runDir string, caseNo int, wo *workerOut, watchdog time.Duration) crash {
	cr := crash{caseNo: caseNo, hang: wo.timedOut, logPath: wo.logPath}
	for attempt := 0; attempt < 2; attempt++ {
		out := filepath.Join(runDir, fmt.Sprintf("confirm-%d-%d.out", caseNo, attempt))
		logp := filepath.Join(runDir, fmt.Sprintf("confirm-%d-%d.log", caseNo, attempt))
		env := append(append([]string{}, baseEnv...), fmt.Sprintf("VERIF_CASE=%d", caseNo), "VERIF_OUT="+out)
		wd := watchdog / 4
		if wd < 2*time.Minute {
			wd = 2 * time.Minute
		}
		to, _ := runChild(bin, env, logp, wd)
		w2 := &workerOut{started: map[int]bool{}, finished: map[int]bool{}, lastStart: -1}
		parseOut(out, w2)
		if !w2.done {
			cr.confirmed = true
			cr.hang = to
			cr.headline, cr.frames, _ = crashSummary(logp)
			cr.logPath = logp

			return cr
		}
	}

	return cr
}

func replay(bin, prop, path string) int {
	b, err := os.ReadFile(path)
	if err != nil {
		fatal(2, "%v", err)
	}
	var rf struct {
		Property string `json:"property"`
		Seed     int64  `json:"seed"`
		Tier     string `json:"tier"`
		Case     int    `json:"case"`
	}
	if err := json.Unmarshal(b, &rf); err != nil {
		fatal(2, "%v", err)
	}
	runDir := filepath.Join(buildDir, "run", fmt.Sprintf("%s-replay", prop))
	_ = os.RemoveAll(runDir)
	_ = os.MkdirAll(runDir, 0o755)
	out := filepath.Join(runDir, "replay.out")
	env := []string{
		"VERIF_PROP=" + prop, "VERIF_TIER=" + rf.Tier, fmt.Sprintf("VERIF_SEED=%d", rf.Seed),
		fmt.Sprintf("VERIF_CASE=%d", rf.Case), "VERIF_OUT=" + out,
		"GORACE=halt_on_error=0 log_path=" + filepath.Join(runDir, "race"),
	}
	to, _ := runChild(bin, env, filepath.Join(runDir, "replay.log"), 10*time.Minute)
	wo := &workerOut{started: map[int]bool{}, finished: map[int]bool{}, lastStart: -1}
	parseOut(out, wo)
	if !wo.done {
		headline, frames, _ := crashSummary(filepath.Join(runDir, "replay.log"))
		fmt.Printf("replay: case %d did not finish (hang=%v): %s %v\n", rf.Case, to, headline, frames)
		fmt.Printf("VIOLATION property=%s replay=%s\n", prop, path)

		return 1
	}
	code := 0
	for _, r := range wo.results {
		for _, l := range r.Trace {
			fmt.Println("  ", l)
		}
		for _, v := range r.Violations {
			fmt.Printf("violation [%s] %s: %s\n", strings.Join(v.Props, ","), v.Sig, v.Detail)
			if contains(v.Props, prop) {
				code = 1
			}
		}
	}
	if code == 1 {
		fmt.Printf("VIOLATION property=%s replay=%s\n", prop, path)
	} else {
		fmt.Println("replay: no violation of", prop)
	}

	return code
}

func report(prop, tier string, seed int64, meta propMeta, all []result, crashes []crash, inconclusive []string, runDir string, wall time.Duration) int {
	findings := loadFindings()
	known := func(sig string) *finding {
		for i := range findings {
			f := &findings[i]
			if f.Property == prop && f.Status == "known" && f.Sig == sig {
				return f
			}
		}

		return nil
	}
	sort.Slice(all, func(i, j int) bool { return all[i].Case < all[j].Case })
	fps := map[string]bool{}
	events := map[string]int{}
	samples := []any{}
	own := 0
	cross := map[string]int{}
	knownHit := map[string]int{}
	replayDir := filepath.Join(outRoot, "replays", prop)
	var vioLines []string
	for _, r := range all {
		for _, f := range r.FP {
			fps[f] = true
		}
		for k, v := range r.Events {
			events[k] += v
		}
		if r.Sample != nil && len(samples) < 3 {
			s := map[string]any{"case": r.Case, "params": r.Sample}
			if len(r.Trace) > 0 {
				tr := r.Trace
				if len(tr) > 40 {
					tr = tr[:40]
				}
				s["trace_head"] = tr
			}
			samples = append(samples, s)
		}
		if r.Inconclusive != "" {
			inconclusive = append(inconclusive, fmt.Sprintf("case %d: %s", r.Case, r.Inconclusive))
		}
		var mine []violation
		for _, v := range r.Violations {
			if !contains(v.Props, prop) && v.Kind != "mutex-wedged" && v.Kind != "lock-held" && v.Kind != "library-spin" {
				// (a leaked or deadlocked library mutex wedges the endpoint: like a reproducible
				// panic it fails whichever check met it)
				cross[v.Kind]++

				continue
			}
			if f := known(v.Sig); f != nil {
				knownHit[v.Sig]++

				continue
			}
			mine = append(mine, v)
		}
		if len(mine) > 0 {
			own++
			if len(vioLines) < 10 {
				_ = os.MkdirAll(replayDir, 0o755)
				p := filepath.Join(replayDir, fmt.Sprintf("%d-%s-%d.json", seed, tier, r.Case))
				doc := map[string]any{"property": prop, "seed": seed, "tier": tier, "case": r.Case, "violations": mine, "trace": r.Trace, "sample": r.Sample,
					"replay_cmd": fmt.Sprintf("./check %s --replay %s", prop, p)}
				b, _ := json.MarshalIndent(doc, "", " ")
				_ = os.WriteFile(p, b, 0o644)
				vioLines = append(vioLines, fmt.Sprintf("VIOLATION property=%s replay=%s", prop, p))
				fmt.Printf("violation in case %d: [%s] %s\n", r.Case, mine[0].Sig, mine[0].Detail)
			}
		}
	}
	for _, cr := range crashes {
		kind := "crash"
		if cr.hang {
			kind = "hang"
		}
		sig := fmt.Sprintf("%s:%s", kind, strings.Join(cr.frames[:min(len(cr.frames), 3)], "|"))
		libFrames := len(cr.frames) > 0
		switch {
		case !cr.confirmed:
			inconclusive = append(inconclusive, fmt.Sprintf("child died in case %d but the case passed when re-run alone (%s)", cr.caseNo, cr.headline))
		case !libFrames && !cr.hang:
			inconclusive = append(inconclusive, fmt.Sprintf("case %d is fatal without pion/turn frames on the stack (harness bug?): %s", cr.caseNo, cr.headline))
		case false && !meta.CrashIsViolation: // a reproducible library panic/hang is a violation under every workload
			inconclusive = append(inconclusive, fmt.Sprintf("case %d reproducibly kills/wedges the process (%s %v) - reported under C09/C18, inconclusive for %s", cr.caseNo, cr.headline, cr.frames, prop))
		default:
			if f := known(sig); f != nil {
				knownHit[sig]++

				continue
			}
			own++
			_ = os.MkdirAll(replayDir, 0o755)
			p := filepath.Join(replayDir, fmt.Sprintf("%d-%s-%d.json", seed, tier, cr.caseNo))
			logCopy := p + ".log"
			if b, err := os.ReadFile(cr.logPath); err == nil {
				if len(b) > 200000 {
					b = b[:200000]
				}
				_ = os.WriteFile(logCopy, b, 0o644)
			}
			doc := map[string]any{"property": prop, "seed": seed, "tier": tier, "case": cr.caseNo, "violations": []violation{{Props: []string{prop}, Kind: kind, Sig: sig, Detail: cr.headline}}, "frames": cr.frames, "log": logCopy}
			b, _ := json.MarshalIndent(doc, "", " ")
			_ = os.WriteFile(p, b, 0o644)
			vioLines = append(vioLines, fmt.Sprintf("VIOLATION property=%s replay=%s", prop, p))
			fmt.Printf("%s in case %d: %s %v\n", kind, cr.caseNo, cr.headline, cr.frames)
		}
	}
	races, raceHeads, harnessRaces := countRaces(runDir)
	if harnessRaces > 0 {
		inconclusive = append(inconclusive, fmt.Sprintf("%d race reports involve only harness code (harness bug)", harnessRaces))
	}
	if races > 0 && meta.RaceIsViolation {
		sig := "race:" + strings.Join(raceHeads[:min(1, len(raceHeads))], "")
		if known(sig) == nil {
			own++
			_ = os.MkdirAll(replayDir, 0o755)
			p := filepath.Join(replayDir, fmt.Sprintf("%d-%s-race.json", seed, tier))
			var logs []string
			ms, _ := filepath.Glob(filepath.Join(runDir, "race.*"))
			for i, mpath := range ms {
				if i >= 3 {
					break
				}
				b, _ := os.ReadFile(mpath)
				dst := fmt.Sprintf("%s.%d.log", p, i)
				_ = os.WriteFile(dst, b, 0o644)
				logs = append(logs, dst)
			}
			doc := map[string]any{"property": prop, "seed": seed, "tier": tier, "case": -1, "violations": []violation{{Props: []string{prop}, Kind: "race", Sig: sig, Detail: fmt.Sprintf("%d data race reports", races)}}, "race_logs": logs, "heads": raceHeads}
			b, _ := json.MarshalIndent(doc, "", " ")
			_ = os.WriteFile(p, b, 0o644)
			vioLines = append(vioLines, fmt.Sprintf("VIOLATION property=%s replay=%s", prop, p))
			fmt.Printf("data races: %d reports, e.g. %v\n", races, raceHeads)
		} else {
			knownHit[sig]++
		}
	}

	nontrivial := 0
	var fpList []string
	for f := range fps {
		fpList = append(fpList, f)
		if meta.NonTrivial == nil || meta.NonTrivial(f) {
			nontrivial++
		}
	}
	sort.Strings(fpList)
	if len(samples) == 0 && len(all) > 0 {
		samples = append(samples, map[string]any{"case": all[0].Case, "events": all[0].Events})
	}
	if len(all) == 0 {
		inconclusive = append(inconclusive, "no case produced a result")
	}
	if nontrivial < 2 {
		inconclusive = append(inconclusive, fmt.Sprintf("only %d distinct non-trivial fingerprints observed", nontrivial))
	}
	cov := map[string]any{
		"evaluations":         len(all),
		"distinct_nontrivial": nontrivial,
		"rule":                meta.Rule,
		"samples":             samples,
		"events":              events,
		"fingerprints":        fpList,
		"race_reports":        races,
		"cross_findings":      cross,
		"known_findings_hit":  knownHit,
		"inconclusive":        inconclusive,
		"workers":             runtime.NumCPU() - 2,
	}
	if meta.Exhaustive != nil {
		if ex := meta.Exhaustive(tier, events); ex {
			cov["exhaustive"] = true
		}
	}
	ev := map[string]any{
		"property_id": prop, "tier": tier, "seed": seed, "level": meta.Level, "coverage": cov,
		"assumptions": meta.Assumptions, "wall_s": wall.Seconds(), "violations": own,
	}
	_ = os.MkdirAll(filepath.Join(outRoot, "evidence"), 0o755)
	b, _ := json.MarshalIndent(ev, "", " ")
	if err := os.WriteFile(filepath.Join(outRoot, "evidence", prop+".json"), b, 0o644); err != nil {
		fatal(2, "evidence: %v", err)
	}

	// summary of what was observed
	fmt.Printf("%s %s seed=%d: %d cases, %d distinct non-trivial fingerprints, %d race reports, wall %.1fs\n", prop, tier, seed, len(all), nontrivial, races, wall.Seconds())
	var evk []string
	for k := range events {
		evk = append(evk, k)
	}
	sort.Strings(evk)
	for _, k := range evk {
		fmt.Printf("  observed %-40s %d\n", k, events[k])
	}
	for k, n := range cross {
		fmt.Printf("NOTE: %d violations of oracle %q belong to other properties %v (decided by their own checks)\n", n, k, "")
	}
	for sig, n := range knownHit {
		for _, f := range findings {
			if f.Property == prop && f.Sig == sig {
				fmt.Printf("KNOWN-FINDING: property=%s %s (%s; seen %d times)\n", prop, f.What, sig, n)
			}
		}
	}
	for _, l := range vioLines {
		fmt.Println(l)
	}
	if own > 0 {
		return 1
	}
	if len(inconclusive) > 0 {
		for _, s := range inconclusive {
			fmt.Println("INCONCLUSIVE:", s)
		}

		return 2
	}

	return 0
}
