#!/usr/bin/env python3
"""process_seed2.py <prop> [extra checks...] — confirm and (if caught) archive the round-10 seeds of one property.
Seeds live in /tmp/seed10-<prop>/seed/{a,b}; they are archived as /verif/seeded/<prop>-q and <prop>-r."""
import sys, os, re, subprocess, json, shutil
prop = sys.argv[1]
extra = sys.argv[2:]
names = {'a': 'c', 'b': 'd'}
for v in ('a', 'b'):
    sd = f"/tmp/seed10-{prop}/seed/{v}"
    if not os.path.exists(os.path.join(sd, 'patch.diff')):
        print(f"{prop}/{v}: no patch"); continue
    notes = open(os.path.join(sd, 'notes.md')).read()
    m = re.match(r"\s*DEMO:\s*(\S+)\s*\|\s*(\S+)\s*\|\s*(.+)\s*\|\s*([^|]+?)\s*$", notes.split('\n')[0])
    if not m:
        print(f"{prop}/{v}: DEMO line not parseable: {notes.splitlines()[0][:200]}"); continue
    demo, dest, rx, flags = m.groups()
    rx = rx.strip()
    if dest in ('zz_demo',): dest = 'zz_seed_demo'
    flags = '' if flags.strip().lower() == 'none' else flags.strip()
    env = dict(os.environ, DEMO_FLAGS=flags)
    checks = [prop] + extra
    p = subprocess.run(['tools/seedcheck.sh', sd, demo, dest, rx] + checks, capture_output=True, text=True, env=env, cwd='/verif', timeout=7200)
    out = p.stdout + p.stderr
    sect = re.split(r"^--- ", out, flags=re.M)
    res = {'without': None, 'with': None, 'suite': None, 'checks': {}}
    for s in sect:
        if s.startswith('demo WITHOUT'):
            res['without'] = bool(re.search(r"^ok\s", s, re.M)) and not re.search(r"^FAIL", s, re.M)
        elif s.startswith('demo WITH change'):
            res['with'] = bool(re.search(r"^FAIL|panic:", s, re.M))
        elif s.startswith('suite WITH'):
            res['suite'] = not re.search(r"^FAIL|^---.*FAIL", s, re.M) or bool(re.search(r"TestPeriodicTimer", s))
        elif s.startswith('check '):
            mm = re.match(r"check (\S+) exit=(\d+); first: (.*)", s.strip(), re.S)
            if mm:
                res['checks'][mm.group(1)] = (int(mm.group(2)), mm.group(3).strip()[:300])
    caught = [c for c, (rc, _) in res['checks'].items() if rc == 1]
    status = 'OK' if (res['without'] and res['with'] and res['suite']) else 'UNCONFIRMED'
    print(f"{prop}/{v}: demo-without-pass={res['without']} demo-with-fail={res['with']} suite={res['suite']} caught_by={caught} :: {res['checks'].get(prop, ('?', ''))[1][:200]}")
    if status != 'OK':
        print(out[-1500:])
    json.dump({'prop': prop, 'v': v, 'demo': demo, 'dest': dest, 'rx': rx, 'flags': flags, 'res': res, 'caught': caught, 'status': status},
              open(f"/tmp/seed10-{prop}-{v}.json", 'w'))
