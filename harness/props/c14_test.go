package props

import (
	"fmt"
	"io"
	"math/rand"
	"net"
	"sync"
	"sync/atomic"
	"testing"
	"time"

	"github.com/pion/turn/v5"
	"github.com/pion/turn/v5/verifharness/sim"
	"github.com/pion/turn/v5/verifharness/simnet"
	"github.com/pion/turn/v5/verifharness/wire"
)

// C14 (bounded restatement): for virtual durations of 3 h (quick) up to 48 h (thorough) a real
// client keeps its relay usable - every probe datagram sent in either direction at the probe
// instants is delivered - across the allocation (10 min), permission (5 min), channel (10 min)
// and nonce (1 h) horizons, with idle periods, while control transactions suffer loss,
// duplication and reordering that leaves each transaction at least one request and one
// response; after Close the server holds no allocation.

func init() {
	sim.RegisterKind("probe-lost-to-peer", "C14")
	sim.RegisterKind("probe-lost-to-client", "C14")
	sim.RegisterKind("probe-wrong", "C14")
	sim.RegisterKind("allocation-after-close", "C14")
	sim.RegisterKind("allocation-vanished", "C14")
	sim.RegisterKind("client-api-error", "C14")
}

type c14Reader struct {
	mu   sync.Mutex
	got  map[string]string // payload -> from
	errs []string
}

// runC14TCP: the same promise for an RFC 6062 allocation (client over TCP, AllocateTCP): for
// virtual hours the relay keeps accepting permitted peers and dialling out, the server keeps
// exactly one allocation, and Close removes it.
func runC14TCP(t *testing.T, rng *rand.Rand, rec *sim.Rec, tier string, caseNo int) {
	dur := 3 * time.Hour
	type sc struct{ perm, life time.Duration }
	conf := pick(rng, []sc{{0, 0}, {0, 0}, {2*time.Minute + 15*time.Second, 2 * time.Minute}, {5 * time.Minute, 45 * time.Minute}, {3 * time.Minute, 5 * time.Minute}, {30 * time.Minute, 2 * time.Hour}})
	if (caseNo/7)%3 == 0 {
		// no channel binding refreshes the permission here as a side effect: with the tightest
		// compatible timeouts every lost or unrepeated permission refresh shows as a refused peer
		conf = sc{2*time.Minute + 15*time.Second, 2 * time.Minute}
	}
	cfg := sim.Config{
		Realm: "verif.test", Users: map[string]string{"alice": "pw-a"},
		PermTimeout: conf.perm, Lifetime: conf.life,
		TCPListeners: []*net.TCPAddr{{IP: sim.ServerIP4, Port: 3478}},
	}
	w, err := sim.NewWorld(cfg, rec, rng, true)
	if err != nil {
		t.Fatal(err)
	}
	defer w.Shutdown()
	w.Net.LogSends = false
	ctrl, err := w.Net.DialTCP(net.IPv4(10, 1, 1, 1).To4(), 0, w.ServerTCP[0].TCPAddr())
	if err != nil {
		t.Fatal(err)
	}
	logs := sim.NewLogSink()
	vn := &simnet.VNet{N: w.Net, HostIP4: net.IPv4(10, 1, 1, 1).To4()}
	cl, err := turn.NewClient(&turn.ClientConfig{
		STUNServerAddr: "10.0.0.1:3478", TURNServerAddr: "10.0.0.1:3478", Conn: turn.NewSTUNConn(ctrl),
		Username: "alice", Password: "pw-a", Realm: "verif.test", Net: vn, LoggerFactory: logs,
	})
	if err != nil {
		t.Fatal(err)
	}
	defer cl.Close()
	if err := cl.Listen(); err != nil {
		t.Fatal(err)
	}
	alloc, err := cl.AllocateTCP()
	if err != nil {
		rec.Violate("client-api-error", "allocate-tcp", "AllocateTCP failed: %v", err)

		return
	}
	relay := alloc.Addr().String()
	ra, _ := net.ResolveTCPAddr("tcp", relay)
	pattern := pick(rng, []string{"continuous", "idle-7m", "idle-40m", "mixed"})
	if (caseNo/7)%3 == 0 {
		pattern = "continuous" // (with the tight configuration chosen above: see there)
	}
	peerIP := net.IPv4(10, 2, 0, 1).To4()
	// The peer is dialled first: DialTCP installs the permission the client then keeps refreshed
	// (a permission made with Client.CreatePermission is a one-off request the client does not track).
	closed := false
	defer func() {
		if !closed {
			_ = alloc.Close()
		}
	}()
	start := time.Now()
	probes := 0
	echo := func(a, b net.Conn, what string) bool {
		msg := []byte(fmt.Sprintf("probe-%d-%s", probes, what))
		for dir := 0; dir < 2; dir++ {
			src, dst := a, b
			if dir == 1 {
				src, dst = b, a
			}
			if _, err := src.Write(msg); err != nil {
				rec.Violate("probe-lost-to-peer", "tcp/"+what, "write on a %s connection failed at +%v: %v", what, time.Since(start).Round(time.Second), err)

				return false
			}
			got := make([]byte, len(msg))
			_ = dst.SetReadDeadline(time.Now().Add(5 * time.Second))
			if _, err := io.ReadFull(dst, got); err != nil || string(got) != string(msg) {
				rec.Violate("probe-wrong", "tcp/"+what, "%s connection at +%v: sent %q, received %q (%v)", what, time.Since(start).Round(time.Second), msg, got, err)

				return false
			}
			rec.Ev("probes-delivered")
		}

		return true
	}
	probe := func() bool {
		probes++
		if n := w.Srv.AllocationCount(); n != 1 {
			rec.Violate("allocation-vanished", "tcp/"+pattern, "AllocationCount=%d at +%v while the client's TCP allocation is open (server lifetime %v)", n, time.Since(start).Round(time.Second), conf.life)

			return false
		}
		if probes == 1 || rng.Intn(2) == 0 {
			l, err := w.Net.ListenTCP(peerIP, 8000+probes%1000)
			if err != nil {
				t.Fatal(err)
			}
			defer l.Close() //nolint:errcheck
			acc := make(chan net.Conn, 1)
			go func() {
				if c, err := l.Accept(); err == nil {
					acc <- c
				}
			}()
			dc, err := alloc.DialTCP("tcp", nil, l.TCPAddr())
			if err != nil {
				rec.Violate("probe-lost-to-peer", "tcp/dial", "DialTCP through the relay failed at +%v (pattern %s, server perm=%v lifetime=%v): %v", time.Since(start).Round(time.Second), pattern, conf.perm, conf.life, err)

				return false
			}
			defer dc.Close() //nolint:errcheck
			select {
			case pe := <-acc:
				defer pe.Close() //nolint:errcheck

				return echo(dc, pe, "dialed")
			case <-time.After(5 * time.Second):
				rec.Violate("probe-lost-to-peer", "tcp/dial", "DialTCP returned but the peer accepted nothing at +%v", time.Since(start).Round(time.Second))

				return false
			}
		}
		pe, err := w.Net.DialTCP(peerIP, 0, ra)
		if err != nil {
			rec.Violate("probe-lost-to-client", "tcp/accept", "the permitted peer cannot reach the relayed address %s at +%v (pattern %s, server perm=%v lifetime=%v): %v", relay, time.Since(start).Round(time.Second), pattern, conf.perm, conf.life, err)

			return false
		}
		defer pe.Close() //nolint:errcheck
		_ = alloc.SetDeadline(time.Now().Add(10 * time.Second))
		ac, err := alloc.AcceptTCP()
		if err != nil {
			rec.Violate("probe-lost-to-client", "tcp/accept", "AcceptTCP did not deliver the permitted peer's connection at +%v (pattern %s, server perm=%v lifetime=%v): %v", time.Since(start).Round(time.Second), pattern, conf.perm, conf.life, err)

			return false
		}
		defer ac.Close() //nolint:errcheck

		return echo(ac, pe, "accepted")
	}
	ok := probe()
	for ok && time.Since(start) < dur {
		var gap time.Duration
		switch pattern {
		case "continuous":
			gap = time.Duration(10+rng.Intn(50)) * time.Second
		case "idle-7m":
			gap = 7 * time.Minute
		case "idle-40m":
			gap = pick(rng, []time.Duration{40 * time.Minute, 30 * time.Second})
		default:
			gap = pick(rng, []time.Duration{2 * time.Second, 45 * time.Second, 7 * time.Minute, 61 * time.Minute})
		}
		time.Sleep(gap)
		ok = probe()
	}
	rec.FP("run-tcp/%s/perm=%v/life=%v", pattern, conf.perm, conf.life)
	rec.EvN("virtual-minutes", int(time.Since(start)/time.Minute))
	if !ok {
		return
	}
	closed = true
	_ = alloc.Close()
	time.Sleep(20 * time.Second)
	if n := w.Srv.AllocationCount(); n != 0 {
		rec.Violate("allocation-after-close", "tcp/"+pattern, "AllocationCount=%d twenty seconds after TCPAllocation.Close at +%v", n, time.Since(start).Round(time.Second))
	}
	rec.FP("close-tcp")
	rec.SetSample(map[string]any{"kind": "tcp-allocation", "pattern": pattern, "virtual_duration": dur.String(), "probes": probes, "perm_timeout": conf.perm.String(), "lifetime": conf.life.String()})
}

func runC14(t *testing.T, rng *rand.Rand, rec *sim.Rec, tier string, caseNo int) {
	if caseNo%7 == 5 {
		runC14TCP(t, rng, rec, tier, caseNo)

		return
	}
	dur := 3 * time.Hour
	if tier == "thorough" && caseNo%25 == 0 {
		dur = 48 * time.Hour
	}
	type sc struct{ perm, ch, life time.Duration }
	confs := []sc{
		{0, 0, 0}, {0, 0, 0},
		{2*time.Minute + 15*time.Second, 6 * time.Minute, 2 * time.Minute},
		{5 * time.Minute, 10 * time.Minute, 45 * time.Minute},
		{3 * time.Minute, 20 * time.Minute, 5 * time.Minute},
		{30 * time.Minute, 7 * time.Minute, 2 * time.Hour},
		// only the allocation lifetime is configured (short): permissions and channels keep their defaults
		{0, 0, 3 * time.Minute}, {0, 0, 90 * time.Second},
	}
	conf := pick(rng, confs)
	if caseNo%10 == 7 {
		conf = confs[2]
	}
	// a client configured to refresh its permissions every 30 s against a server that keeps them
	// for 70 s only (compatible with that interval, not with the 2-minute default)
	fastPerms := caseNo%10 == 9
	if fastPerms {
		conf = sc{70 * time.Second, 0, 0}
	}
	cfg := sim.Config{
		Realm: "verif.test", Users: map[string]string{"alice": "pw-a"},
		PermTimeout: conf.perm, ChanTimeout: conf.ch, Lifetime: conf.life,
		UDPListeners: []*net.UDPAddr{{IP: sim.ServerIP4, Port: 3478}},
		DenyPeerIPs:  []string{"10.2.9.9", "fd00:2::99"}, // the operator's permission handler refuses this host
	}
	w, err := sim.NewWorld(cfg, rec, rng, true)
	if err != nil {
		t.Fatal(err)
	}
	defer w.Shutdown()
	logs := sim.NewLogSink()
	// every 4th run: the client asks for an IPv6 relay over its IPv4 path to the server (RFC 6156),
	// its peers are IPv6 hosts
	crossFamily := caseNo%4 == 2
	rc, err := sim.NewRealClient(w.Net, net.IPv4(10, 1, 0, 1).To4(), 5000, "10.0.0.1:3478", "alice", "pw-a", "verif.test", 0, logs, func(c *turn.ClientConfig) {
		if crossFamily {
			c.RequestedAddressFamily = turn.RequestedAddressFamilyIPv6
		}
		if fastPerms {
			c.PermissionRefreshInterval = 30 * time.Second
		}
	})
	if err != nil {
		t.Fatal(err)
	}
	defer func() { rc.Client.Close(); _ = rc.Conn.Close() }()
	if err := rc.Client.Listen(); err != nil {
		t.Fatal(err)
	}
	// fault plan on control transactions only
	lossy := rng.Intn(3) != 0
	planRng := rand.New(rand.NewSource(rng.Int63()))
	var pmu sync.Mutex
	reqSeen := map[[12]byte]int{}
	dropped := 0
	heavy := lossy && caseNo%3 == 1
	lastOnly := map[[12]byte]bool{}
	lastChance := 0
	if lossy {
		w.Net.Plan = func(d *simnet.Dgram) simnet.Fate {
			pmu.Lock()
			defer pmu.Unlock()
			m, err := wire.ParseSTUN(d.Data)
			if err != nil || m.Class == wire.ClassIndication {
				return simnet.Fate{} // data probes are what is measured: never touched
			}
			f := simnet.Fate{}
			if m.Class == wire.ClassRequest {
				reqSeen[m.TID]++
				if reqSeen[m.TID] == 1 && heavy && planRng.Intn(8) == 0 {
					lastOnly[m.TID] = true
				}
				if lastOnly[m.TID] {
					// only the client's last transmission (the 7th, 12.6 s after the first) gets through
					if reqSeen[m.TID] < 7 {
						dropped++

						return simnet.Fate{Drop: true}
					}
					lastChance++

					return f
				}
				if reqSeen[m.TID] <= 2 && planRng.Intn(10) < 3 {
					dropped++

					return simnet.Fate{Drop: true}
				}
			} else if reqSeen[m.TID] <= 3 && planRng.Intn(10) < 3 {
				dropped++

				return simnet.Fate{Drop: true}
			}
			if planRng.Intn(10) == 0 {
				f.Dup = 1
			}
			if planRng.Intn(8) == 0 {
				f.Delay = time.Duration(5+planRng.Intn(60)) * time.Millisecond
			}

			return f
		}
	}
	conn, err := rc.Client.Allocate()
	if err != nil {
		rec.Violate("client-api-error", "allocate", "Allocate failed: %v", err)

		return
	}
	npeers := 1 + rng.Intn(8)
	if caseNo%9 == 0 {
		npeers = 1
	}
	var peers []*sim.Peer
	for i := 0; i < npeers; i++ {
		pip := net.IPv4(10, 2, 0, byte(1+i/2)).To4()
		if crossFamily {
			pip = net.ParseIP(fmt.Sprintf("fd00:2::%x", 1+i/2))
		}
		p, err := w.NewPeer(fmt.Sprintf("p%d", i), pip, 7000+i)
		if err != nil {
			t.Fatal(err)
		}
		peers = append(peers, p)
	}
	// a second socket on the first peer's host that the client never writes to: it is admitted by
	// the host's permission alone (no channel binding ever refreshes that as a side effect)
	alt, err := w.NewPeer("alt", peers[0].Addr.IP, 7900)
	if err != nil {
		t.Fatal(err)
	}
	// one run in two starts with a write to a host the server refuses: an error for that write,
	// and no consequence for anybody else
	refused := caseNo%2 == 0
	if refused {
		deniedIP := net.IPv4(10, 2, 9, 9).To4()
		if crossFamily {
			deniedIP = net.ParseIP("fd00:2::99")
		}
		if _, err := conn.WriteTo([]byte("to-refused-host"), &net.UDPAddr{IP: deniedIP, Port: 7999}); err == nil {
			rec.Ev("note/write-to-refused-host-returned-nil")
		}
	}
	rd := &c14Reader{got: map[string]string{}}
	readerDone := make(chan struct{})
	var paused atomic.Bool
	go func() {
		defer close(readerDone)
		buf := make([]byte, 2000)
		for {
			for paused.Load() {
				time.Sleep(time.Second) // the application is busy elsewhere
			}
			n, from, err := conn.ReadFrom(buf)
			if err != nil {
				return
			}
			rd.mu.Lock()
			rd.got[string(buf[:n])] = from.String()
			rd.mu.Unlock()
		}
	}()
	relay := conn.LocalAddr().(*net.UDPAddr)
	pattern := pick(rng, []string{"continuous", "bursts", "idle-7m", "idle-40m", "idle-3h", "mixed", "rollover", "rollover"})
	start := time.Now()
	probes := 0
	probe := func() bool {
		probes++
		if probes%3 == 1 {
			// somebody sends the client's socket an empty datagram (a stray packet, a port scan, a
			// keep-alive of another protocol): it is nothing, least of all the end of anything
			rc.Conn.Inject(nil, &net.UDPAddr{IP: net.IPv4(10, 9, 9, 9).To4(), Port: 9})
			rec.Ev("empty-datagrams-to-the-client-socket")
		}
		for i, p := range peers {
			if rng.Intn(3) == 0 && i > 0 {
				continue
			}
			tagOut := fmt.Sprintf("c2p-%d-%d", probes, i)
			if _, err := conn.WriteTo([]byte(tagOut), p.Addr); err != nil {
				rec.Violate("client-api-error", "writeto", "WriteTo failed at +%v: %v", time.Since(start), err)

				return false
			}
			tagIn := fmt.Sprintf("p2c-%d-%d", probes, i)
			_, _ = p.UDP.WriteTo([]byte(tagIn), relay)
			time.Sleep(500 * time.Millisecond)
			okOut := false
			for _, d := range p.UDP.Drain() {
				if string(d.Data) == tagOut {
					okOut = true
					if d.Src.String() != relay.String() {
						rec.Violate("probe-wrong", "source", "probe reached the peer from %s, relayed address is %s", d.Src, relay)
					}
				}
			}
			if !okOut {
				rec.Violate("probe-lost-to-peer", pattern, "client->peer probe %q was not delivered at +%v (pattern %s, server timeouts perm=%v chan=%v lifetime=%v, allocations now %d)", tagOut, time.Since(start).Round(time.Second), pattern, conf.perm, conf.ch, conf.life, w.Srv.AllocationCount())

				return false
			}
			rd.mu.Lock()
			from, okIn := rd.got[tagIn]
			delete(rd.got, tagIn)
			rd.mu.Unlock()
			if !okIn {
				rec.Violate("probe-lost-to-client", pattern, "peer->client probe %q was not delivered at +%v (pattern %s, server timeouts perm=%v chan=%v lifetime=%v)", tagIn, time.Since(start).Round(time.Second), pattern, conf.perm, conf.ch, conf.life)

				return false
			}
			if from != p.Addr.String() {
				rec.Violate("probe-wrong", "attribution", "probe from %s was attributed to %s", p.Addr, from)
			}
			rec.Ev("probes-delivered")
			if i == 0 {
				tagAlt := fmt.Sprintf("alt-%d", probes)
				_, _ = alt.UDP.WriteTo([]byte(tagAlt), relay)
				time.Sleep(100 * time.Millisecond)
				rd.mu.Lock()
				fromAlt, okAlt := rd.got[tagAlt]
				delete(rd.got, tagAlt)
				rd.mu.Unlock()
				if !okAlt {
					rec.Violate("probe-lost-to-client", pattern+"/unbound-port", "datagram from another port (%s) of a permitted host was not delivered at +%v (pattern %s, server timeouts perm=%v chan=%v lifetime=%v, a refused host was written to first: %v)", alt.Addr, time.Since(start).Round(time.Second), pattern, conf.perm, conf.ch, conf.life, refused)

					return false
				}
				if fromAlt != alt.Addr.String() {
					rec.Violate("probe-wrong", "attribution", "datagram from %s was attributed to %s", alt.Addr, fromAlt)
				}
			}
		}
		if w.Srv.AllocationCount() != 1 {
			rec.Violate("allocation-vanished", pattern, "AllocationCount=%d at +%v while the client's socket is open", w.Srv.AllocationCount(), time.Since(start))

			return false
		}

		return true
	}
	if caseNo%10 == 7 {
		// the tightest compatible configuration during the hourly nonce rollover, on every run:
		// a refresh that meets the 438 and is not repeated at once shows as a gap here
		pattern = "rollover"
	}
	staleWindow := caseNo%10 == 3
	if staleWindow {
		dur = 50 * time.Minute
		pattern = "continuous"
	}
	ok := probe()
	floodAt := time.Duration(-1)
	if caseNo%5 == 1 {
		floodAt = time.Duration(10+rng.Intn(100)) * time.Minute
	}
	for ok && time.Since(start) < dur {
		w.Net.TakeSendLog() // keep the send log from growing over virtual hours
		if floodAt >= 0 && time.Since(start) >= floodAt {
			// the application stops reading for a quarter of an hour while a peer sends more than
			// the client's receive queue holds: the client must keep its relay alive regardless
			floodAt = -1
			paused.Store(true)
			time.Sleep(2 * time.Second)
			for k := 0; k < 1500; k++ {
				_, _ = peers[0].UDP.WriteTo([]byte(fmt.Sprintf("flood-%d", k)), relay)
				if k%100 == 99 {
					time.Sleep(10 * time.Millisecond)
				}
			}
			time.Sleep(15 * time.Minute)
			paused.Store(false)
			time.Sleep(3 * time.Second)
			rd.mu.Lock()
			rd.got = map[string]string{}
			rd.mu.Unlock()
			rec.FP("reader-paused-under-flood")
			if ok = probe(); !ok {
				break
			}
		}
		var gap time.Duration
		switch pattern {
		case "continuous":
			gap = time.Duration(10+rng.Intn(50)) * time.Second
		case "bursts":
			gap = pick(rng, []time.Duration{time.Second, time.Second, 2 * time.Second, 9 * time.Minute})
		case "idle-7m":
			gap = 7 * time.Minute
		case "idle-40m":
			gap = pick(rng, []time.Duration{40 * time.Minute, 30 * time.Second})
		case "idle-3h":
			gap = pick(rng, []time.Duration{3*time.Hour - time.Minute, 20 * time.Second})
		case "rollover":
			// dense probing while the hour-old nonce is being replaced, sparse otherwise
			if m := time.Since(start) % time.Hour; m > 58*time.Minute || m < 9*time.Minute {
				gap = time.Duration(5+rng.Intn(10)) * time.Second
			} else {
				gap = time.Duration(5+rng.Intn(7)) * time.Minute
			}
		default:
			gap = pick(rng, []time.Duration{time.Second, 45 * time.Second, 7 * time.Minute, 61 * time.Minute})
		}
		time.Sleep(gap)
		ok = probe()
	}
	rec.FP("run/%s/peers=%d/lossy=%v/perm=%v/chan=%v/life=%v/cross-family=%v/fast-perms=%v/refused-first=%v", pattern, min(npeers, 3), lossy, conf.perm, conf.ch, conf.life, crossFamily, fastPerms, refused)
	rec.EvN("virtual-minutes", int(time.Since(start)/time.Minute))
	pmu.Lock()
	rec.EvN("control-datagrams-dropped", dropped)
	rec.EvN("transactions-saved-by-their-last-transmission", lastChance)
	pmu.Unlock()
	if staleWindow {
		// close inside the window in which the client's nonce is older than an hour and no periodic
		// transaction has renewed it yet (permission refreshes run every 2 minutes)
		if d := 61*time.Minute + 30*time.Second - time.Since(start); d > 0 {
			time.Sleep(d)
		}
	}
	// Close releases the allocation at the server
	w.Net.TakeSendLog()
	if err := conn.Close(); err != nil {
		rec.Ev("close-returned-error")
	}
	time.Sleep(20 * time.Second) // Refresh(0) may need retransmissions under the fault plan
	if n := w.Srv.AllocationCount(); n != 0 {
		// why? look at what the server answered to the Refresh(0)
		cause := pattern
		for _, d := range w.Net.TakeSendLog() {
			if m, err := wire.ParseSTUN(d.Data); err == nil && m.Method == wire.MethodRefresh && m.Class == wire.ClassError && m.ErrorCode() == 438 {
				cause = "refresh0-answered-438"
			}
		}
		rec.Violate("allocation-after-close", cause, "AllocationCount=%d twenty seconds after the relayed socket was closed at +%v (cause: %s)", n, time.Since(start).Round(time.Second), cause)
	}
	rec.FP("close/stale-window=%v", staleWindow)
	<-readerDone
	if caseNo%2 == 1 && len(rec.Violations()) == 0 && w.Srv.AllocationCount() == 0 {
		// The application allocates again on the same client (same 5-tuple) and talks to a peer
		// the closed socket never knew: nothing the closed socket had going (refresh timers, channel
		// numbers) may reach into the new allocation - for longer than every refresh interval.
		conn2, err := rc.Client.Allocate()
		if err != nil {
			rec.Violate("client-api-error", "allocate-again", "second Allocate on the same client after Close failed: %v", err)

			return
		}
		relay2 := conn2.LocalAddr().(*net.UDPAddr)
		if rng.Intn(2) == 0 {
			// the application closes the first socket once more (a deferred Close after an explicit
			// one): an error for that socket at most, nothing that concerns the new one
			_ = conn.Close()
			rec.FP("second-allocation/first-socket-closed-again")
		}
		fip := net.IPv4(10, 2, 0, 77).To4()
		if relay2.IP.To4() == nil {
			fip = net.ParseIP("fd00:2::77")
		}
		fresh, err := w.NewPeer("fresh", fip, 7800)
		if err != nil {
			t.Fatal(err)
		}
		buf := make([]byte, 2000)
		for k := 0; k < 4; k++ {
			time.Sleep(pick(rng, []time.Duration{5*time.Minute + 30*time.Second, 3 * time.Minute, 40 * time.Second}))
			tagOut, tagIn := fmt.Sprintf("again-c2p-%d", k), fmt.Sprintf("again-p2c-%d", k)
			if _, err := conn2.WriteTo([]byte(tagOut), fresh.Addr); err != nil {
				rec.Violate("client-api-error", "writeto-again", "WriteTo on the second allocation failed %v after it was made: %v", time.Since(start).Round(time.Second), err)

				return
			}
			time.Sleep(500 * time.Millisecond)
			okOut := false
			for _, d := range fresh.UDP.Drain() {
				okOut = okOut || (string(d.Data) == tagOut && d.Src.String() == relay2.String())
			}
			if !okOut {
				rec.Violate("probe-lost-to-peer", "second-allocation", "client->peer probe %q on the client's second allocation was not delivered (round %d)", tagOut, k)

				return
			}
			_, _ = fresh.UDP.WriteTo([]byte(tagIn), relay2)
			_ = conn2.SetReadDeadline(time.Now().Add(2 * time.Second))
			n, from, err := conn2.ReadFrom(buf)
			if err != nil || string(buf[:n]) != tagIn || from.String() != fresh.Addr.String() {
				rec.Violate("probe-lost-to-client", "second-allocation", "peer->client probe %q on the client's second allocation: ReadFrom returned %q from %v (%v)", tagIn, buf[:max(n, 0)], from, err)

				return
			}
			rec.Ev("probes-delivered")
		}
		_ = conn2.Close()
		rec.FP("second-allocation-on-the-same-client")
	}
	rec.SetSample(map[string]any{"pattern": pattern, "peers": npeers, "lossy": lossy, "virtual_duration": dur.String(), "probes": probes,
		"perm_timeout": conf.perm.String(), "chan_timeout": conf.ch.String(), "lifetime": conf.life.String(), "stale_nonce_438": logs.Count("438")})
}

func init() {
	register("C14", PropDef{
		Bubble: true,
		Cases: func(tier string) int {
			if tier == "thorough" {
				return 6000
			}

			return 140
		},
		Run: runC14,
	})
}
