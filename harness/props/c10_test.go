package props

import (
	"bytes"
	"encoding/binary"
	"errors"
	"fmt"
	"io"
	"math/rand"
	"net"
	"sync"
	"testing"
	"time"

	"github.com/pion/logging"
	"github.com/pion/stun/v3"
	"github.com/pion/turn/v5/internal/client"
	"github.com/pion/turn/v5/internal/proto"
	"github.com/pion/turn/v5/verifharness/sim"
	"github.com/pion/turn/v5/verifharness/wire"
)

// C10: stream framing is independent of segmentation and always makes progress.
// The packetiser (proto.STUNConn) reads from a scripted net.Conn that hands out the stream in
// exactly the chunks the case prescribes; every (n, bytes, err) it returns is compared with
// the reference framer, including WHEN it returns (number of Reads consumed).

func init() {
	sim.RegisterKind("framer-mismatch", "C10")
	sim.RegisterKind("framer-late", "C10")
	sim.RegisterKind("framer-spin", "C10", "C09")
	sim.RegisterKind("framer-data-from-garbage", "C10")
	sim.RegisterKind("framer-lost-bytes", "C10")
	sim.RegisterKind("framer-panic", "C10", "C09")
	sim.RegisterKind("bind-seg-dependent", "C10")
	sim.RegisterKind("bind-consumed-app-bytes", "C10")
}

// scriptConn hands out pre-cut chunks, one per Read (or less if the caller's buffer is smaller).
type scriptConn struct {
	chunks [][]byte
	idx    int
	reads  int // reads that delivered data or EOF (transient errors not counted)
	// touched: chunks the reader has started on (the end of the stream counts as one more); a
	// chunk larger than the reader's buffer takes several reads
	touched int
	wrote   bytes.Buffer
	// failBefore[i]: the read that would deliver chunk i first fails once with a timeout, the
	// way a read deadline expiring in the middle of a frame does; no byte is consumed by it
	failBefore map[int]bool
	transient  int
	// emptyBefore[i]: the read that would deliver chunk i first returns (0, nil) once
	emptyBefore map[int]bool
	empties     int
}

type scriptTimeout struct{}

func (scriptTimeout) Error() string   { return "i/o timeout (scripted)" }
func (scriptTimeout) Timeout() bool   { return true }
func (scriptTimeout) Temporary() bool { return true }

func (c *scriptConn) Read(b []byte) (int, error) {
	for c.idx < len(c.chunks) && len(c.chunks[c.idx]) == 0 {
		c.idx++
	}
	if c.failBefore[c.idx] {
		delete(c.failBefore, c.idx)
		c.transient++

		return 0, scriptTimeout{}
	}
	if c.emptyBefore[c.idx] {
		// io.Reader: "0, nil" means nothing happened - neither data nor the end of the stream
		delete(c.emptyBefore, c.idx)
		c.empties++

		return 0, nil
	}
	c.reads++
	c.touched = max(c.touched, c.idx+1)
	if c.idx >= len(c.chunks) {
		return 0, io.EOF
	}
	n := copy(b, c.chunks[c.idx])
	c.chunks[c.idx] = c.chunks[c.idx][n:]
	if len(c.chunks[c.idx]) == 0 {
		c.idx++
	}

	return n, nil
}
func (c *scriptConn) Write(b []byte) (int, error)      { return c.wrote.Write(b) }
func (c *scriptConn) Close() error                     { return nil }
func (c *scriptConn) LocalAddr() net.Addr              { return &net.TCPAddr{IP: net.IPv4(10, 0, 0, 1), Port: 1} }
func (c *scriptConn) RemoteAddr() net.Addr             { return &net.TCPAddr{IP: net.IPv4(10, 0, 0, 2), Port: 2} }
func (c *scriptConn) SetDeadline(time.Time) error      { return nil }
func (c *scriptConn) SetReadDeadline(time.Time) error  { return nil }
func (c *scriptConn) SetWriteDeadline(time.Time) error { return nil }

// transport.TCPConn extras
func (c *scriptConn) CloseRead() error                       { return nil }
func (c *scriptConn) CloseWrite() error                      { return nil }
func (c *scriptConn) ReadFrom(io.Reader) (int64, error)      { return 0, nil }
func (c *scriptConn) SetLinger(int) error                    { return nil }
func (c *scriptConn) SetKeepAlive(bool) error                { return nil }
func (c *scriptConn) SetKeepAlivePeriod(time.Duration) error { return nil }
func (c *scriptConn) SetNoDelay(bool) error                  { return nil }
func (c *scriptConn) SetWriteBuffer(int) error               { return nil }
func (c *scriptConn) SetReadBuffer(int) error                { return nil }

func cutStream(stream []byte, cuts []int) [][]byte {
	var out [][]byte
	prev := 0
	for _, c := range cuts {
		if c <= prev || c >= len(stream) {
			continue
		}
		out = append(out, append([]byte{}, stream[prev:c]...))
		prev = c
	}
	out = append(out, append([]byte{}, stream[prev:]...))

	return out
}

// checkSegmentation feeds `stream` cut at `cuts` through STUNConn and compares with the reference.
func checkSegmentation(rec *sim.Rec, stream []byte, cuts []int, segName string, bufSize int, failBefore ...int) {
	chunks := cutStream(stream, cuts)
	// chunkEnd[i] = offset of the end of chunk i
	chunkEnd := make([]int, len(chunks))
	off := 0
	for i, ch := range chunks {
		off += len(ch)
		chunkEnd[i] = off
	}
	frames, _, refErr := wire.SplitFrames(stream)
	sc := &scriptConn{chunks: chunks}
	if len(failBefore) > 0 {
		sc.failBefore, sc.emptyBefore = map[int]bool{}, map[int]bool{}
		for _, i := range failBefore {
			if i < 0 {
				sc.emptyBefore[-i-1] = true // (-i-1: an empty read instead of a timed-out one)
			} else {
				sc.failBefore[i] = true
			}
		}
	}
	conn := proto.NewSTUNConn(sc)
	// every stream ends with Close, also those that stop in the middle of a frame: whatever a
	// connection had buffered then must not show up in the next connection's stream
	defer conn.Close() //nolint:errcheck
	buf := make([]byte, bufSize)
	consumed := 0
	defer func() {
		if r := recover(); r != nil {
			rec.Violate("framer-panic", segName, "STUNConn.ReadFrom panicked (%v) on stream %x... cuts %v", r, head(stream), cuts)
		}
	}()
	for k := 0; k <= len(frames)+2; k++ {
		n, _, err := conn.ReadFrom(buf)
		for tries := 0; err != nil && tries < 4; tries++ {
			var te scriptTimeout
			if !errors.As(err, &te) {
				break
			}
			// a timed-out read consumed nothing: the caller reads again and the stream continues
			rec.Ev("transient-read-errors")
			n, _, err = conn.ReadFrom(buf)
		}
		if err == nil && n == 0 {
			rec.Violate("framer-spin", fmt.Sprintf("hdr=%x", head(stream[min(consumed, len(stream)):])[:min(4, len(stream)-min(consumed, len(stream)))]), "ReadFrom returned (0, nil) - no progress - at stream offset %d of %x... (%s cuts %v)", consumed, head(stream[min(consumed, len(stream)):]), segName, cuts)

			return
		}
		if k < len(frames) && len(frames[k]) > len(buf) {
			// the frame does not fit the caller's buffer: an error ends the stream, otherwise the
			// frame is gone (what was copied is its beginning) and the next frame follows intact
			want := frames[k]
			if err != nil {
				rec.Ev("oversized-frame-ends-stream")

				return
			}
			if m := min(n, len(buf)); !bytes.Equal(buf[:m], want[:m]) {
				rec.Violate("framer-mismatch", "oversized-frame/"+frameKind(want), "frame %d (%d bytes) read into %d bytes: got %x..., want its beginning %x... (%s cuts %v)", k, len(want), len(buf), head(buf[:m]), head(want), segName, cuts)

				return
			}
			consumed += len(want)
			rec.Ev("oversized-frames-skipped")

			continue
		}
		if k < len(frames) {
			want := frames[k]
			if err != nil {
				rec.Violate("framer-mismatch", "error-instead-of-frame/"+frameKind(want), "frame %d (%d bytes, %x...) not returned: err=%v (%s cuts %v, stream %d bytes)", k, len(want), head(want), err, segName, cuts, len(stream))

				return
			}
			if n != len(want) || (n <= len(buf) && !bytes.Equal(buf[:n], want)) {
				rec.Violate("framer-mismatch", "wrong-frame/"+frameKind(want), "frame %d: got %d bytes %x..., want %d bytes %x... (%s cuts %v)", k, n, head(buf[:min(n, len(buf))]), len(want), head(want), segName, cuts)

				return
			}
			consumed += len(want)
			// promptness: the frame is complete once the chunk holding its last byte was read
			needChunks := 0
			for i, e := range chunkEnd {
				if e >= consumed {
					needChunks = i + 1

					break
				}
			}
			if sc.touched > needChunks {
				rec.Violate("framer-late", fmt.Sprintf("%s/len%d", frameKind(want), min(len(want), 12)), "frame %d (%d bytes) was complete with segment %d but returned only after segment %d was read (%d reads, %s cuts %v)", k, len(want), needChunks, sc.touched, sc.reads, segName, cuts)

				return
			}
			rec.Ev("frames-compared")

			continue
		}
		// past the last complete frame: only an error is acceptable (incomplete tail, EOF or invalid bytes)
		if err == nil {
			kind := "framer-data-from-garbage"
			if refErr == nil {
				kind = "framer-mismatch"
			}
			rec.Violate(kind, "data-after-frames", "ReadFrom returned %d bytes %x... after all %d reference frames (reference tail error: %v) (%s cuts %v)", n, head(buf[:min(n, len(buf))]), len(frames), refErr, segName, cuts)

			return
		}

		return
	}
}

// checkPromptError: bytes that cannot begin a frame arrive over the connection and the sender
// goes on writing. The framer reports the error when it has read them - it does not wait for the
// connection to end, and it hands nothing of what follows to the caller as data.
func checkPromptError(rec *sim.Rec, stream []byte, nframes int, tailKind string) {
	more := append(append([]byte{}, stream...), wire.EncodeChannelData(0x4001, bytes.Repeat([]byte{0x55}, 36), true)...)
	more = append(more, wire.EncodeChannelData(0x4002, bytes.Repeat([]byte{0x66}, 36), true)...)
	cuts := []int{len(stream), len(more) - 40}
	chunks := cutStream(more, cuts)
	sc := &scriptConn{chunks: chunks}
	conn := proto.NewSTUNConn(sc)
	defer conn.Close() //nolint:errcheck
	defer func() {
		if r := recover(); r != nil {
			rec.Violate("framer-panic", "garbage-then-more", "STUNConn.ReadFrom panicked (%v)", r)
		}
	}()
	buf := make([]byte, 70000)
	for k := 0; k < nframes+4; k++ {
		n, _, err := conn.ReadFrom(buf)
		if err == nil && k < nframes {
			continue
		}
		if err == nil {
			rec.Violate("framer-data-from-garbage", "garbage-then-more/"+tailKind, "after %d good frames and a %s tail, ReadFrom returned %d bytes %x... as data", nframes, tailKind, n, head(buf[:n]))

			return
		}
		if sc.touched >= len(chunks) {
			rec.Violate("framer-late", "error/"+tailKind, "bytes that cannot begin a frame (%s) were followed by more traffic: ReadFrom reported %v only after it had read to the end of everything sent (%d reads)", tailKind, err, sc.reads)
		}
		rec.Ev("prompt-error-checks")

		return
	}
}

func frameKind(f []byte) string {
	if len(f) > 0 && f[0]>>6 == 1 {
		return "chan"
	}

	return "stun"
}

func c10Frame(rng *rand.Rand, tier string) []byte {
	switch rng.Intn(8) {
	case 0, 1, 2: // STUN, aligned body
		l := 4 * rng.Intn(376)
		if rng.Intn(3) == 0 {
			l = 4 * rng.Intn(8)
		}
		b := make([]byte, 20+l)
		rng.Read(b)
		b[0] &= 0x3F
		binary.BigEndian.PutUint16(b[2:4], uint16(l))
		binary.BigEndian.PutUint32(b[4:8], wire.MagicCookie)

		return b
	case 3: // STUN, unaligned body (accepted by the packetiser as the existing suite expects)
		l := rng.Intn(64)
		b := make([]byte, 20+l)
		rng.Read(b)
		b[0] &= 0x3F
		binary.BigEndian.PutUint16(b[2:4], uint16(l))
		binary.BigEndian.PutUint32(b[4:8], wire.MagicCookie)

		return b
	default: // ChannelData
		l := rng.Intn(1501)
		switch rng.Intn(4) {
		case 0:
			l = rng.Intn(9)
		case 1:
			l = 12 + rng.Intn(12)
		}
		num := pick(rng, []uint16{0x4000, 0x4001, 0x7FFE, 0x7FFF, uint16(0x4000 + rng.Intn(0x4000))})
		payload := make([]byte, l)
		rng.Read(payload)
		if l >= 4 && rng.Intn(3) == 0 {
			binary.BigEndian.PutUint32(payload[0:4], wire.MagicCookie) // looks like a STUN header at 4..8 of the frame
		}

		return wire.EncodeChannelData(num, payload, true)
	}
}

func runC10Stream(t *testing.T, rng *rand.Rand, rec *sim.Rec, tier string, caseNo int) {
	thorough := tier == "thorough"
	var stream []byte
	nf := 1 + rng.Intn(6)
	small := caseNo%2 == 0
	var desc []string
	for i := 0; i < nf; i++ {
		f := c10Frame(rng, tier)
		if small {
			// keep the whole stream <= 200 bytes so that cut enumeration is exhaustive
			for tries := 0; tries < 50 && len(stream)+len(f) > 200; tries++ {
				f = c10Frame(rng, tier)
			}
			if len(stream)+len(f) > 200 {
				break
			}
		}
		stream = append(stream, f...)
		desc = append(desc, fmt.Sprintf("%s:%d", frameKind(f), len(f)))
	}
	if len(stream) == 0 {
		stream = wire.EncodeChannelData(0x4000, nil, true)
		desc = []string{"chan:4"}
	}
	// optionally a tail: incomplete frame or bytes that cannot begin a frame
	tail := "none"
	switch rng.Intn(7) {
	case 3:
		// a complete, well-formed ChannelData message - but its number lies in 0x8000-0xFFFF,
		// which cannot begin a frame (first two bits 10 or 11)
		stream = append(stream, wire.EncodeChannelData(uint16(0x8000+rng.Intn(0x8000)), make([]byte, rng.Intn(40)), true)...)
		tail = "chan-number-high"
	case 0:
		f := c10Frame(rng, tier)
		stream = append(stream, f[:rng.Intn(len(f))]...)
		tail = "incomplete"
	case 1:
		g := make([]byte, 1+rng.Intn(40))
		rng.Read(g)
		g[0] |= 0x80 // first two bits 10/11: neither STUN nor ChannelData
		stream = append(stream, g...)
		tail = "garbage"
	case 2:
		g := make([]byte, 20+rng.Intn(20))
		rng.Read(g)
		g[0] &= 0x3F // STUN-like type bits but no magic cookie
		g[4] ^= 0xFF
		stream = append(stream, g...)
		tail = "stun-no-cookie"
	}
	if tail == "garbage" || tail == "stun-no-cookie" || tail == "chan-number-high" {
		if fr, _, _ := wire.SplitFrames(stream); true {
			checkPromptError(rec, stream, len(fr), tail)
		}
	}
	bufSize := 70000
	if caseNo%5 == 2 {
		// the caller reads into a buffer that some frames do not fit in (the client reads with 1600
		// bytes, the server with its inbound MTU): such a frame cannot be delivered whole, but it
		// must not damage the frames behind it
		bufSize = pick(rng, []int{1600, 1500, 576, 128, 24})
		rec.FP("stream/caller-buffer=%d", bufSize)
	}
	checkSegmentation(rec, stream, nil, "whole", bufSize)
	if len(stream) <= 6000 {
		cuts := make([]int, 0, len(stream))
		for i := 1; i < len(stream); i++ {
			cuts = append(cuts, i)
		}
		checkSegmentation(rec, stream, cuts, "bytewise", bufSize)
	}
	nseg := 2
	if len(stream) <= 200 {
		for i := 1; i < len(stream); i++ {
			checkSegmentation(rec, stream, []int{i}, "single", bufSize)
			nseg++
		}
		for i := 1; i < len(stream); i++ {
			for j := i + 1; j < len(stream); j++ {
				if !thorough && rng.Intn(12) != 0 {
					continue
				}
				checkSegmentation(rec, stream, []int{i, j}, "double", bufSize)
				nseg++
			}
		}
		rec.Ev("streams-with-exhaustive-single-cuts")
		if thorough {
			rec.Ev("streams-with-exhaustive-double-cuts")
		}
	}
	for k := 0; k < 25; k++ {
		ncut := 1 + rng.Intn(12)
		cuts := make([]int, 0, ncut)
		for i := 0; i < ncut; i++ {
			cuts = append(cuts, 1+rng.Intn(max(1, len(stream)-1)))
		}
		sortInts(cuts)
		if k%3 == 2 {
			// the same cuts with one or two reads timing out in between
			fb := []int{rng.Intn(len(cuts) + 1)}
			if rng.Intn(2) == 0 {
				fb = append(fb, rng.Intn(len(cuts)+1))
			}
			if k%6 == 5 {
				// ... or returning (0, nil): a transport may do that (net.Pipe after an empty write, TLS
				// after a zero-length record, any custom conn) and it is not the end of the stream
				for i := range fb {
					fb[i] = -fb[i] - 1
				}
				checkSegmentation(rec, stream, cuts, "random+empty-reads", bufSize, fb...)
				rec.Ev("segmentations-with-empty-reads")

				continue
			}
			checkSegmentation(rec, stream, cuts, "random+timeouts", bufSize, fb...)
		} else {
			checkSegmentation(rec, stream, cuts, "random", bufSize)
		}
		nseg++
	}
	rec.EvN("segmentations", nseg)
	rec.FP("stream/frames=%d/tail=%s/small=%v", len(desc), tail, len(stream) <= 200)
	rec.SetSample(map[string]any{"frames": desc, "tail": tail, "bytes": len(stream), "segmentations": nseg})
}

func sortInts(a []int) {
	for i := 1; i < len(a); i++ {
		for j := i; j > 0 && a[j] < a[j-1]; j-- {
			a[j], a[j-1] = a[j-1], a[j]
		}
	}
}

// runC10Extremes: length fields at the uint16 extremes.
func runC10Extremes(t *testing.T, rng *rand.Rand, rec *sim.Rec, tier string, caseNo int) {
	var lens []int
	for l := 0xFFE0; l <= 0xFFFF; l++ {
		lens = append(lens, l)
	}
	l := lens[caseNo%len(lens)]
	for _, kind := range []string{"stun", "chan"} {
		var frame []byte
		if kind == "stun" {
			frame = make([]byte, 20+l)
			rng.Read(frame[20:min(len(frame), 200)])
			binary.BigEndian.PutUint16(frame[2:4], uint16(l))
			binary.BigEndian.PutUint32(frame[4:8], wire.MagicCookie)
		} else {
			payload := make([]byte, l)
			rng.Read(payload[:64])
			frame = wire.EncodeChannelData(0x4000+uint16(rng.Intn(0x4000)), payload, true)
		}
		follow := wire.EncodeChannelData(0x4abc, []byte("after"), true)
		stream := append(append([]byte{}, frame...), follow...)
		checkSegmentation(rec, stream, nil, "whole", 70000)
		// header alone first (this is the prefix on which the size arithmetic used to wrap)
		checkSegmentation(rec, stream, []int{12}, "header-first", 70000)
		checkSegmentation(rec, stream, []int{4, 20, 1000, len(frame) - 1, len(frame)}, "staged", 70000)
		checkSegmentation(rec, stream[:12], nil, "header-only", 70000)
		rec.FP("extreme/%s/len=0x%04x", kind, l)
	}
	rec.SetSample(map[string]any{"length_field": fmt.Sprintf("0x%04x", l)})
}

// ---------------------------------------------------------------- BindConnection

type stubClient struct{}

func (stubClient) WriteTo([]byte, net.Addr) (int, error) { return 0, nil }
func (stubClient) PerformTransaction(*stun.Message, net.Addr, bool) (client.TransactionResult, error) {
	return client.TransactionResult{}, errors.New("stub")
}
func (stubClient) OnDeallocated(net.Addr) {}

// runC10BindHostile hands BindConnection a reply whose header announces a length at the uint16
// extremes (or any other length) that the stream then does or does not honour. The reference
// outcome: a STUN header announcing L body bytes is answered by reading exactly L more bytes;
// if the stream ends earlier the call returns an error; it never panics, and it never reads
// past the announced message.
func runC10BindHostile(rng *rand.Rand, rec *sim.Rec, alloc *client.TCPAllocation, caseNo int) {
	lens := []int{0xFFEC, 0xFFED, 0xFFF0, 0xFFF3, 0xFFF4, 0xFFFC, 0xFFFF, 0xFFE8, 0xFFEB, 0x8000, 0x7FFC, 0, 4, 3, 1}
	l := lens[caseNo%len(lens)]
	tid := [12]byte{}
	rng.Read(tid[:])
	hdr := make([]byte, 20)
	// ConnectionBind success (0x010b) or error (0x011b) response, magic cookie, tid
	typ := []uint16{0x010b, 0x011b, 0x0101, 0x0001}[rng.Intn(4)]
	hdr[0], hdr[1] = byte(typ>>8), byte(typ)
	hdr[2], hdr[3] = byte(l>>8), byte(l)
	hdr[4], hdr[5], hdr[6], hdr[7] = 0x21, 0x12, 0xA4, 0x42
	copy(hdr[8:], tid[:])
	// the stream carries: nothing more / a short body / the full body / the full body + app bytes
	avail := []int{0, rng.Intn(64), l, l + 1 + rng.Intn(30)}[rng.Intn(4)]
	body := make([]byte, avail)
	rng.Read(body)
	stream := append(hdr, body...)
	var cuts []int
	for k := rng.Intn(4); k > 0 && len(stream) > 1; k-- {
		cuts = append(cuts, 1+rng.Intn(len(stream)-1))
	}
	sortInts(cuts)
	sc := &scriptConn{chunks: cutStream(stream, cuts)}
	dc := &client.TCPConn{TCPConn: sc}
	var err error
	panicked := false
	func() {
		defer func() {
			if r := recover(); r != nil {
				panicked = true
				rec.Violate("framer-panic", fmt.Sprintf("BindConnection/len=%#x", l), "BindConnection panicked on a reply header announcing %#x body bytes (%d available, cuts %v): %v", l, avail, cuts, r)
			}
		}()
		err = alloc.BindConnection(dc, 7)
	}()
	if panicked {
		return
	}
	if avail < l && err == nil {
		rec.Violate("bind-seg-dependent", "short-accepted", "BindConnection succeeded although the stream ended %d bytes into a %#x-byte body", avail, l)
	}
	rest, _ := io.ReadAll(sc)
	if avail > l && len(rest) != avail-l {
		rec.Violate("bind-consumed-app-bytes", "hostile", "reply announced %#x body bytes, %d followed it; after BindConnection %d remain readable (want %d) err=%v", l, avail-l, len(rest), avail-l, err)
	}
	rec.Ev("bind-hostile-replies")
	rec.FP("bind-hostile/len=%#x/avail=%s/err=%v", l, map[bool]string{true: "short", false: "full"}[avail < l], err != nil)
	rec.SetSample(map[string]any{"announced": l, "available": avail, "err": fmt.Sprint(err)})
}

// gatedConn delivers its first chunk at once and holds every later read until its partner has
// had its first chunk too: two ConnectionBind replies arrive interleaved, piece by piece.
type gatedConn struct {
	*scriptConn
	first bool
	gate  *sync.WaitGroup
}

func (g *gatedConn) Read(b []byte) (int, error) {
	if !g.first {
		g.first = true
		n, err := g.scriptConn.Read(b)
		g.gate.Done()

		return n, err
	}
	g.gate.Wait()

	return g.scriptConn.Read(b)
}

// runC10BindConcurrent: two data connections of one allocation are bound at the same time (a Dial
// and an Accept, say) and both replies arrive split inside the 20-byte header. Each call parses
// its own reply and leaves its own application bytes alone.
func runC10BindConcurrent(rng *rand.Rand, rec *sim.Rec, alloc *client.TCPAllocation) {
	mk := func(success bool, app []byte) []byte {
		tid := [12]byte{}
		rng.Read(tid[:])
		var reply []byte
		if success {
			b := wire.NewBuilder(wire.MethodConnectionBind, wire.ClassSuccess, tid)
			b.Add(wire.AttrSoftware, []byte("verif-scripted-server-with-a-longer-name"))
			reply = b.Bytes()
		} else {
			b := wire.NewBuilder(wire.MethodConnectionBind, wire.ClassError, tid)
			b.Add(wire.AttrErrorCode, append([]byte{0, 0, 4, 0}, []byte("Bad Request")...))
			reply = b.Bytes()
		}

		return append(reply, app...)
	}
	okA, okB := rng.Intn(2) == 0, rng.Intn(2) == 0
	appA, appB := []byte("application bytes of connection A"), []byte("B's application data, longer than A's, follows its reply")
	sA, sB := mk(okA, appA), mk(okB, appB)
	var gate sync.WaitGroup
	gate.Add(2)
	cutA, cutB := 1+rng.Intn(19), 1+rng.Intn(19)
	ca := &gatedConn{scriptConn: &scriptConn{chunks: cutStream(sA, []int{cutA})}, gate: &gate}
	cb := &gatedConn{scriptConn: &scriptConn{chunks: cutStream(sB, []int{cutB})}, gate: &gate}
	type res struct {
		err  error
		rest []byte
	}
	run := func(g *gatedConn, out chan<- res) {
		dc := &client.TCPConn{TCPConn: g}
		var err error
		func() {
			defer func() {
				if r := recover(); r != nil {
					err = fmt.Errorf("panic: %v", r)
					rec.Violate("framer-panic", "BindConnection/concurrent", "BindConnection panicked: %v", r)
				}
			}()
			err = alloc.BindConnection(dc, 7)
		}()
		rest, _ := io.ReadAll(g.scriptConn)
		out <- res{err, rest}
	}
	outA, outB := make(chan res, 1), make(chan res, 1)
	go run(ca, outA)
	go run(cb, outB)
	ra, rb := <-outA, <-outB
	for _, x := range []struct {
		name string
		ok   bool
		r    res
		app  []byte
	}{{"A", okA, ra, appA}, {"B", okB, rb, appB}} {
		if x.ok != (x.r.err == nil) {
			rec.Violate("bind-seg-dependent", "concurrent", "two concurrent BindConnection calls with split reply headers: connection %s got err=%v for a %s reply", x.name, x.r.err, map[bool]string{true: "success", false: "error"}[x.ok])
		} else if !bytes.Equal(x.r.rest, x.app) {
			rec.Violate("bind-consumed-app-bytes", "concurrent", "two concurrent BindConnection calls: %d application bytes remain on connection %s, %d followed its reply", len(x.r.rest), x.name, len(x.app))
		}
	}
	rec.Ev("bind-concurrent-pairs")
	rec.FP("bind-concurrent/%v/%v", okA, okB)
}

func runC10Bind(t *testing.T, rng *rand.Rand, rec *sim.Rec, tier string, caseNo int) {
	alloc := client.NewTCPAllocation(&client.AllocationConfig{
		Client: stubClient{}, RelayedAddr: &net.TCPAddr{IP: net.IPv4(10, 0, 0, 2), Port: 4000},
		ServerAddr: &net.TCPAddr{IP: net.IPv4(10, 0, 0, 1), Port: 3478}, Lifetime: 10 * time.Minute,
		Username: stun.NewUsername("u"), Realm: stun.NewRealm("r"), Nonce: stun.NewNonce("n"),
		Integrity: stun.NewLongTermIntegrity("u", "r", "p"), Log: logging.NewDefaultLoggerFactory().NewLogger("x"),
	})
	defer alloc.Close() //nolint:errcheck
	if caseNo%4 == 2 {
		for k := 0; k < 20; k++ {
			runC10BindConcurrent(rng, rec, alloc)
		}

		return
	}
	if caseNo%4 == 3 {
		for k := 0; k < 15; k++ {
			runC10BindHostile(rng, rec, alloc, caseNo/4+k)
		}

		return
	}
	success := caseNo%3 != 0
	tid := [12]byte{}
	rng.Read(tid[:])
	var reply []byte
	if success {
		b := wire.NewBuilder(wire.MethodConnectionBind, wire.ClassSuccess, tid)
		b.AddU32(wire.AttrConnectionID, rng.Uint32())
		if rng.Intn(2) == 0 {
			b.Add(wire.AttrSoftware, []byte("verif-scripted-server"))
		}
		reply = b.Bytes()
	} else {
		b := wire.NewBuilder(wire.MethodConnectionBind, wire.ClassError, tid)
		b.Add(wire.AttrErrorCode, append([]byte{0, 0, 4, 0}, []byte("Bad Request")...))
		reply = b.Bytes()
	}
	app := make([]byte, rng.Intn(40))
	rng.Read(app)
	stream := append(append([]byte{}, reply...), app...)
	run := func(cuts []int, name string) {
		sc := &scriptConn{chunks: cutStream(stream, cuts)}
		dc := &client.TCPConn{TCPConn: sc}
		var err error
		func() {
			defer func() {
				if r := recover(); r != nil {
					rec.Violate("framer-panic", "BindConnection", "BindConnection panicked: %v", r)
				}
			}()
			err = alloc.BindConnection(dc, 7)
		}()
		if success != (err == nil) {
			rec.Violate("bind-seg-dependent", fmt.Sprintf("success=%v", success), "BindConnection over a %s reply cut at %v (%s): err=%v", map[bool]string{true: "success", false: "error"}[success], cuts, name, err)

			return
		}
		// everything after the reply belongs to the application
		rest, _ := io.ReadAll(sc)
		if !bytes.Equal(rest, app) {
			rec.Violate("bind-consumed-app-bytes", name, "after BindConnection %d application bytes remain readable, %d were sent after the reply (cuts %v)", len(rest), len(app), cuts)
		}
		rec.Ev("bind-replies-checked")
	}
	run(nil, "whole")
	for i := 1; i < len(stream); i++ {
		run([]int{i}, "single")
	}
	all := make([]int, 0, len(stream))
	for i := 1; i < len(stream); i++ {
		all = append(all, i)
	}
	run(all, "bytewise")
	for k := 0; k < 20; k++ {
		cuts := []int{1 + rng.Intn(len(stream)), 1 + rng.Intn(len(stream)), 1 + rng.Intn(len(stream))}
		sortInts(cuts)
		run(cuts, "random")
	}
	rec.FP("bind/success=%v/app=%v", success, len(app) > 0)
	rec.SetSample(map[string]any{"reply_bytes": len(reply), "app_bytes": len(app), "success": success})
}

func init() {
	register("C10", PropDef{
		Bubble: true,
		Cases: func(tier string) int {
			if tier == "thorough" {
				return 20000
			}

			return 420
		},
		Run: func(t *testing.T, rng *rand.Rand, rec *sim.Rec, tier string, caseNo int) {
			switch {
			case caseNo%10 == 8:
				runC10Extremes(t, rng, rec, tier, caseNo/10)
			case caseNo%10 == 9:
				runC10Bind(t, rng, rec, tier, caseNo/10)
			default:
				runC10Stream(t, rng, rec, tier, caseNo)
			}
		},
	})
}
