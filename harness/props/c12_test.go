package props

import (
	"bytes"
	"errors"
	"fmt"
	"math/rand"
	"net"
	"runtime"
	"sync"
	"testing"
	"time"

	"github.com/pion/stun/v3"
	"github.com/pion/turn/v5/verifharness/sim"
	"github.com/pion/turn/v5/verifharness/simnet"
	"github.com/pion/turn/v5/verifharness/wire"
)

// C12: client transactions match by id, retransmit on schedule and always terminate.
// A real turn.Client runs in the virtual-time bubble against a scripted server; the oracle is
// pure arithmetic over the server's wire log and the instants at which PerformTransaction
// returns.

func init() {
	sim.RegisterKind("rtx-schedule", "C12")
	sim.RegisterKind("rtx-count", "C12")
	sim.RegisterKind("rtx-after-completion", "C12")
	sim.RegisterKind("tr-wrong-response", "C12")
	sim.RegisterKind("tr-return-instant", "C12")
	sim.RegisterKind("tr-hang", "C12", "C18")
	sim.RegisterKind("tr-completed-twice", "C12")
	sim.RegisterKind("tr-left-in-table", "C12")
	sim.RegisterKind("tr-unexpected-result", "C12")
	sim.RegisterKind("tr-tid-reused", "C12")
	sim.RegisterKind("tr-foreign-response", "C12")
}

const maxRtx = 7

// schedule returns the offsets of the 7 transmissions and the failure instant for an RTO.
func schedule(rto time.Duration) (sends []time.Duration, fail time.Duration) {
	iv := rto
	at := time.Duration(0)
	for i := 0; i < maxRtx; i++ {
		sends = append(sends, at)
		at += iv
		iv *= 2
		if iv > 1600*time.Millisecond {
			iv = 1600 * time.Millisecond
		}
	}

	return sends, at
}

type trResult struct {
	at  time.Time
	tag string
	err error
	tid [12]byte
}

type c12 struct {
	t    *testing.T
	rng  *rand.Rand
	rec  *sim.Rec
	net  *simnet.Net
	srv  *sim.ScriptedServer
	rc   *sim.RealClient
	rto  time.Duration
	logs *sim.LogSink
}

func newC12(t *testing.T, rng *rand.Rand, rec *sim.Rec, rto time.Duration) *c12 {
	c12RespCode = 0
	if rng.Intn(4) == 0 {
		c12RespCode = pick(rng, []int{300, 400, 401, 420, 437, 438, 486, 500, 508, 599, 699})
		rec.FP("answers-are-error-responses/%d", c12RespCode/100)
	}
	n := simnet.New()
	// the transaction's destination is the configured TURN/STUN server or (1 in 3) some other
	// address, as with SendBindingRequestTo or a separate STUN server: every transmission of a
	// transaction goes to the destination it was started with
	srvIP := sim.ServerIP4
	if rng.Intn(3) == 0 {
		srvIP = net.IPv4(10, 0, 0, 9).To4()
	}
	srv, err := sim.NewScriptedServer(n, srvIP, 3478)
	if err != nil {
		t.Fatal(err)
	}
	rec.FP("destination/elsewhere=%v", !srvIP.Equal(sim.ServerIP4))
	logs := sim.NewLogSink()
	rc, err := sim.NewRealClient(n, net.IPv4(10, 1, 0, 1).To4(), 5000, "10.0.0.1:3478", "alice", "pw-a", "verif.test", rto, logs, nil)
	if err != nil {
		t.Fatal(err)
	}
	if err := rc.Client.Listen(); err != nil {
		t.Fatal(err)
	}

	return &c12{t: t, rng: rng, rec: rec, net: n, srv: srv, rc: rc, rto: rto, logs: logs}
}

func (x *c12) close() {
	x.rc.Client.Close()
	_ = x.rc.Conn.Close()
	x.srv.Close()
	x.net.CloseAll()
}

func (x *c12) request() (*stun.Message, [12]byte) {
	msg, err := stun.Build(stun.TransactionID, stun.BindingRequest)
	if err != nil {
		x.t.Fatal(err)
	}

	return msg, msg.TransactionID
}

// c12RespCode, when not 0, makes the scripted answers error responses with that code: an error
// response completes a transaction exactly as a success response does.
var c12RespCode int

func response(tid [12]byte, tag string) []byte {
	if c12RespCode != 0 {
		b := wire.NewBuilder(wire.MethodBinding, wire.ClassError, tid)
		b.Add(wire.AttrErrorCode, append([]byte{0, 0, byte(c12RespCode / 100), byte(c12RespCode % 100)}, []byte("scripted")...))
		b.Add(wire.AttrSoftware, []byte(tag))

		return b.Bytes()
	}
	b := wire.NewBuilder(wire.MethodBinding, wire.ClassSuccess, tid)
	b.AddXorAddr(wire.AttrXORMappedAddress, net.IPv4(10, 1, 0, 1).To4(), 5000)
	b.Add(wire.AttrSoftware, []byte(tag))

	return b.Bytes()
}

func tagOf(m *stun.Message) string {
	if m == nil {
		return ""
	}
	v, err := m.Get(stun.AttrSoftware)
	if err != nil {
		return ""
	}

	return string(v)
}

// perform runs PerformTransaction in its own goroutine and reports when/what it returned.
func (x *c12) perform(msg *stun.Message, out chan<- trResult) {
	go func() {
		res, err := x.rc.Client.PerformTransaction(msg, x.srv.Addr, false)
		out <- trResult{at: time.Now(), tag: tagOf(res.Msg), err: err, tid: msg.TransactionID}
	}()
}

// arrivals returns the arrival offsets (relative to t0) of requests with tid at the server.
func (x *c12) arrivals(tid [12]byte, t0 time.Time) []time.Duration {
	var out []time.Duration
	for _, ev := range x.srv.Log() {
		if ev.Dir == "in" && ev.Msg != nil && ev.Msg.TID == tid {
			out = append(out, ev.At.Sub(t0))
		}
	}

	return out
}

func (x *c12) checkTable(when string) {
	if n := x.rc.Client.VerifPendingTransactions(); n != 0 {
		x.rec.Violate("tr-left-in-table", when, "%d entries left in the client's transaction table after every transaction finished (%s)", n, when)
	}
	if held := x.rc.Client.VerifLocksHeld(); len(held) > 0 {
		x.rec.Violate("lock-held", "client/"+when, "client mutex held after transactions finished: %v", held)
	}
}

// checkSends compares observed transmissions with the expected prefix of the schedule.
func (x *c12) checkSends(got []time.Duration, wantN int, what string) {
	sends, _ := schedule(x.rto)
	if len(got) != wantN {
		x.rec.Violate("rtx-count", what, "%s: %d transmissions observed %v, want %d (schedule %v)", what, len(got), got, wantN, sends[:wantN])

		return
	}
	for i, g := range got {
		if g != sends[i] {
			x.rec.Violate("rtx-schedule", fmt.Sprintf("rto=%s/i=%d", x.rto, i), "%s: transmission %d at +%v, want +%v (RTO %v; all: %v)", what, i, g, sends[i], x.rto, got)

			return
		}
	}
}

// caseLoss: a subset of the 7 transmissions is lost; the first delivered one is answered after a delay.
func (x *c12) caseLoss(mask int, delayKind int) {
	sends, fail := schedule(x.rto)
	first := -1
	for i := 0; i < maxRtx; i++ {
		if mask&(1<<i) == 0 {
			first = i

			break
		}
	}
	var delay time.Duration
	if first >= 0 {
		next := fail
		if first+1 < maxRtx {
			next = sends[first+1]
		}
		gap := next - sends[first]
		switch delayKind {
		case 0:
			delay = 0
		case 1:
			delay = gap / 2
		case 2:
			delay = gap - time.Millisecond
		case 3:
			delay = gap + time.Millisecond
		case 4:
			delay = fail - sends[first] + 50*time.Millisecond // later than the whole schedule
		}
		if x.rto <= 2*time.Millisecond && (delayKind == 2 || delayKind == 1) {
			delay = 0
		}
	}
	msg, tid := x.request()
	count := 0
	x.srv.SetHandler(func(s *sim.ScriptedServer, from *net.UDPAddr, ev sim.SrvEvent) {
		if ev.Msg == nil || ev.Msg.TID != tid {
			return
		}
		i := count
		count++
		if i == first {
			s.Send(from, response(tid, "answer"), delay)
		}
	})
	t0 := time.Now()
	out := make(chan trResult, 1)
	x.perform(msg, out)
	var res trResult
	select {
	case res = <-out:
	case <-time.After(fail + 10*time.Second):
		x.rec.Violate("tr-hang", "loss", "PerformTransaction did not return within the schedule (+10 s): mask %07b delay %v RTO %v", mask, delay, x.rto)

		return
	}
	time.Sleep(5 * time.Second) // stray retransmissions would show up now
	got := x.arrivals(tid, t0)
	what := fmt.Sprintf("lost=%07b first-delivered=%d delay=%v rto=%v", mask, first, delay, x.rto)
	respAt := time.Duration(-1)
	if first >= 0 {
		respAt = sends[first] + delay
	}
	if first < 0 || respAt >= fail {
		// no (timely) response: 7 transmissions, failure exactly at the end of the schedule
		x.checkSends(got, maxRtx, what)
		if res.err == nil {
			x.rec.Violate("tr-unexpected-result", "late-response-accepted", "%s: PerformTransaction returned a response although none arrived before the schedule ended", what)
		} else if d := res.at.Sub(t0); d != fail {
			x.rec.Violate("tr-return-instant", fmt.Sprintf("fail/rto=%s", x.rto), "%s: failure returned at +%v, want +%v", what, d, fail)
		}
		x.rec.FP("loss/all-or-late/%s/rto=%s", map[bool]string{true: "none-delivered", false: "late"}[first < 0], x.rto)
	} else {
		wantN := first + 1 // the answered transmission itself and everything before it
		for i, s := range sends {
			if i > first && s < respAt {
				wantN++
			}
		}
		x.checkSends(got, wantN, what)
		if res.err != nil {
			x.rec.Violate("tr-unexpected-result", "response-ignored", "%s: PerformTransaction failed (%v) although a matching response arrived at +%v", what, res.err, respAt)
		} else {
			if res.tag != "answer" {
				x.rec.Violate("tr-wrong-response", "loss", "%s: returned response tagged %q", what, res.tag)
			}
			if d := res.at.Sub(t0); d != respAt {
				x.rec.Violate("tr-return-instant", "success", "%s: returned at +%v, response was delivered at +%v", what, d, respAt)
			}
		}
		x.rec.FP("loss/first=%d/delay=%d/rto=%s", first, delayKind, x.rto)
	}
	x.rec.Ev("loss-patterns")
	x.checkTable("loss")
	x.rec.SetSample(map[string]any{"kind": "loss", "lost_mask": fmt.Sprintf("%07b", mask), "delay": delay.String(), "rto": x.rto.String(), "arrivals": fmt.Sprint(got)})
}

// caseNoise: foreign-id responses, duplicates and late copies around the right one.
func (x *c12) caseNoise() {
	msg, tid := x.request()
	other := tid
	// a foreign id differs from the request's in exactly one of its 12 bytes - any of them
	other[x.rng.Intn(12)] ^= byte(1 << x.rng.Intn(8))
	plan := x.rng.Intn(4)
	x.srv.SetHandler(func(s *sim.ScriptedServer, from *net.UDPAddr, ev sim.SrvEvent) {
		if ev.Msg == nil || ev.Msg.TID != tid {
			return
		}
		switch plan {
		case 0: // foreign id first, then the right one, then a duplicate
			s.Send(from, response(other, "foreign"), 0)
			s.Send(from, response(tid, "first"), 0)
			s.Send(from, response(tid, "dup"), 0)
		case 1: // error-class response with a foreign id, then right one delayed, dup later
			s.Send(from, response(other, "foreign"), 0)
			s.Send(from, response(tid, "first"), x.rto/4)
			s.Send(from, response(tid, "dup"), x.rto/2)
		case 2: // request echoed back (a request, not a response) then the right one
			s.Send(from, ev.Raw, 0)
			s.Send(from, response(tid, "first"), 0)
		case 3: // garbage and an indication before the right one
			s.Send(from, []byte{0x80, 1, 2, 3, 4, 5, 6, 7, 8, 9, 10, 11, 12, 13, 14, 15, 16, 17, 18, 19, 20}, 0)
			ind := wire.NewBuilder(wire.MethodData, wire.ClassIndication, tid)
			s.Send(from, ind.Bytes(), 0)
			s.Send(from, response(tid, "first"), 0)
			s.Send(from, response(tid, "dup"), 3*time.Second)
		}
	})
	t0 := time.Now()
	out := make(chan trResult, 1)
	x.perform(msg, out)
	select {
	case res := <-out:
		if res.err != nil || res.tag != "first" {
			x.rec.Violate("tr-wrong-response", fmt.Sprintf("noise%d", plan), "noise plan %d: PerformTransaction returned tag %q err %v, want the first matching response", plan, res.tag, res.err)
		}
	case <-time.After(60 * time.Second):
		x.rec.Violate("tr-hang", "noise", "PerformTransaction did not return (noise plan %d)", plan)

		return
	}
	time.Sleep(6 * time.Second)
	if got := x.arrivals(tid, t0); len(got) < 1 || (plan != 1 && len(got) != 1) {
		x.rec.Violate("rtx-after-completion", fmt.Sprintf("noise%d", plan), "noise plan %d: %d transmissions %v although the first was answered at once", plan, len(got), got)
	}
	x.checkTable("noise")
	x.rec.FP("noise/plan%d/rto=%s", plan, x.rto)
	x.rec.SetSample(map[string]any{"kind": "noise", "plan": plan})
}

// caseConcurrent: several transactions in flight, responses permuted; each must get its own.
func (x *c12) caseConcurrent() {
	n := 2 + x.rng.Intn(7)
	type one struct {
		msg *stun.Message
		tid [12]byte
	}
	var trs []one
	// transaction ids chosen by the application may look alike: half of the time they share all
	// but one byte (a counter at the end, or at the start)
	alike := x.rng.Intn(2) == 0
	var base [12]byte
	x.rng.Read(base[:])
	pos := pick(x.rng, []int{0, 7, 8, 11})
	for i := 0; i < n; i++ {
		m, tid := x.request()
		if alike {
			tid = base
			tid[pos] = byte(i + 1)
			var err error
			if m, err = stun.Build(stun.NewTransactionIDSetter(tid), stun.BindingRequest); err != nil {
				x.t.Fatal(err)
			}
		}
		trs = append(trs, one{m, tid})
	}
	var mu sync.Mutex
	seen := map[[12]byte]*net.UDPAddr{}
	loseFirst := x.rng.Intn(2) == 0
	cnt := map[[12]byte]int{}
	perm := x.rng.Perm(n)
	x.srv.SetHandler(func(s *sim.ScriptedServer, from *net.UDPAddr, ev sim.SrvEvent) {
		if ev.Msg == nil {
			return
		}
		mu.Lock()
		defer mu.Unlock()
		cnt[ev.Msg.TID]++
		if loseFirst && cnt[ev.Msg.TID] == 1 {
			return
		}
		seen[ev.Msg.TID] = from
		if len(seen) == n {
			// answer everything at once, in a permuted order, each with its own id
			for _, i := range perm {
				s.Send(from, response(trs[i].tid, fmt.Sprintf("own-%d", i)), time.Duration(x.rng.Intn(3))*time.Millisecond)
			}
			seen = map[[12]byte]*net.UDPAddr{}
		}
	})
	out := make(chan trResult, n)
	for _, tr := range trs {
		x.perform(tr.msg, out)
	}
	for i := 0; i < n; i++ {
		select {
		case res := <-out:
			idx := -1
			for k, tr := range trs {
				if tr.tid == res.tid {
					idx = k
				}
			}
			if res.err != nil || res.tag != fmt.Sprintf("own-%d", idx) {
				x.rec.Violate("tr-wrong-response", "concurrent", "transaction %d of %d concurrent ones returned tag %q err %v", idx, n, res.tag, res.err)
			}
		case <-time.After(90 * time.Second):
			x.rec.Violate("tr-hang", "concurrent", "a concurrent transaction did not return")

			return
		}
	}
	time.Sleep(6 * time.Second)
	x.checkTable("concurrent")
	x.rec.FP("concurrent/n=%d/lose-first=%v", n, loseFirst)
	x.rec.SetSample(map[string]any{"kind": "concurrent", "n": n})
}

// caseClose: Client.Close while the transaction is pending.
func (x *c12) caseClose() {
	sends, fail := schedule(x.rto)
	k := x.rng.Intn(maxRtx)
	closeAt := sends[k] + x.rto/3 + time.Millisecond
	if closeAt >= fail {
		closeAt = fail - time.Millisecond
	}
	msg, tid := x.request()
	x.srv.SetHandler(nil)
	t0 := time.Now()
	out := make(chan trResult, 1)
	x.perform(msg, out)
	time.Sleep(closeAt)
	x.rc.Client.Close()
	closedAt := time.Now()
	select {
	case res := <-out:
		if res.err == nil {
			x.rec.Violate("tr-unexpected-result", "close", "PerformTransaction returned success after Close")
		}
		if res.at.After(closedAt) {
			x.rec.Violate("tr-return-instant", "close", "PerformTransaction returned %v after Close, want promptly", res.at.Sub(closedAt))
		}
	case <-time.After(fail + 10*time.Second):
		x.rec.Violate("tr-hang", "close", "PerformTransaction still blocked after Client.Close (closed at +%v, RTO %v)", closeAt, x.rto)

		return
	}
	time.Sleep(fail + 5*time.Second)
	got := x.arrivals(tid, t0)
	want := 0
	for _, s := range sends {
		if s < closeAt {
			want++
		}
	}
	if len(got) != want {
		x.rec.Violate("rtx-after-completion", "close", "%d transmissions %v, want %d: none may follow Close at +%v", len(got), got, want, closeAt)
	}
	x.checkTable("close")
	x.rec.FP("close/after-tx=%d/rto=%s", k, x.rto)
	x.rec.SetSample(map[string]any{"kind": "close", "close_at": closeAt.String(), "rto": x.rto.String()})
}

// caseWriteError: the socket write of transmission k fails.
func (x *c12) caseWriteError() {
	sends, fail := schedule(x.rto)
	k := x.rng.Intn(maxRtx) // 0 = the initial transmission
	msg, tid := x.request()
	x.srv.SetHandler(nil)
	var mu sync.Mutex
	writes := 0
	x.rc.Conn.WriteHook = func(b []byte, _ net.Addr) (int, error, bool) {
		mu.Lock()
		defer mu.Unlock()
		if m, err := wire.ParseSTUN(b); err != nil || m.TID != tid {
			return 0, nil, false
		}
		i := writes
		writes++
		if i == k {
			return 0, errors.New("injected write error"), true
		}

		return 0, nil, false
	}
	t0 := time.Now()
	out := make(chan trResult, 1)
	x.perform(msg, out)
	select {
	case res := <-out:
		if res.err == nil {
			x.rec.Violate("tr-unexpected-result", "write-error", "PerformTransaction returned success although transmission %d failed to write and no response came", k)
		}
		if d := res.at.Sub(t0); d != sends[k] {
			x.rec.Violate("tr-return-instant", fmt.Sprintf("write-error/k=%d", k), "write error on transmission %d (+%v): PerformTransaction returned at +%v", k, sends[k], d)
		}
	case <-time.After(fail + 10*time.Second):
		x.rec.Violate("tr-hang", "write-error", "PerformTransaction did not return after a write error on transmission %d", k)

		return
	}
	x.rc.Conn.WriteHook = nil
	time.Sleep(fail + 5*time.Second)
	if got := x.arrivals(tid, t0); len(got) != k {
		x.rec.Violate("rtx-after-completion", "write-error", "%d transmissions reached the server %v, want %d (write %d failed, nothing may follow)", len(got), got, k, k)
	}
	x.checkTable(fmt.Sprintf("write-error/k=%d", k))
	x.rec.FP("write-error/k=%d/rto=%s", k, x.rto)
	x.rec.SetSample(map[string]any{"kind": "write-error", "failing_transmission": k, "rto": x.rto.String()})
}

// caseSyncResponse: the response is delivered from inside the client's own WriteTo, i.e. before
// the retransmission timer is armed.
func (x *c12) caseSyncResponse() {
	msg, tid := x.request()
	x.srv.SetHandler(nil)
	_, fail := schedule(x.rto)
	x.rc.Conn.WriteHook = func(b []byte, _ net.Addr) (int, error, bool) {
		if m, err := wire.ParseSTUN(b); err == nil && m.TID == tid {
			x.rc.Conn.Inject(response(tid, "sync"), x.srv.Addr)
			time.Sleep(time.Millisecond) // let the client's read loop handle it before WriteTo returns
		}

		return 0, nil, false
	}
	t0 := time.Now()
	out := make(chan trResult, 1)
	x.perform(msg, out)
	select {
	case res := <-out:
		if res.err != nil || res.tag != "sync" {
			x.rec.Violate("tr-wrong-response", "sync", "response delivered during WriteTo: returned tag %q err %v", res.tag, res.err)
		}
	case <-time.After(fail + 10*time.Second):
		x.rec.Violate("tr-hang", "sync", "PerformTransaction did not return although the response was delivered during its WriteTo")

		return
	}
	x.rc.Conn.WriteHook = nil
	time.Sleep(fail + 5*time.Second)
	if got := x.arrivals(tid, t0); len(got) != 1 {
		x.rec.Violate("rtx-after-completion", "sync", "%d transmissions %v after a transaction completed during its first write", len(got), got)
	}
	x.checkTable("sync")
	x.rec.FP("sync-response/rto=%s", x.rto)
	x.rec.SetSample(map[string]any{"kind": "sync-response"})
}

// caseRtxWriteRace: the response arrives while retransmission k is being written (the client holds
// its transaction lock across that write), and the write then succeeds or fails. Whichever of the
// two wins, the transaction completes exactly once, nothing stays locked, and a later transaction
// that itself needs a retransmission still terminates.
func (x *c12) caseRtxWriteRace() {
	sends, fail := schedule(x.rto)
	k := 1 + x.rng.Intn(maxRtx-1) // a retransmission, not the initial write
	failWrite := x.rng.Intn(3) != 0
	msg, tid := x.request()
	x.srv.SetHandler(nil)
	var mu sync.Mutex
	writes := 0
	x.rc.Conn.WriteHook = func(b []byte, _ net.Addr) (int, error, bool) {
		if m, err := wire.ParseSTUN(b); err != nil || m.TID != tid {
			return 0, nil, false
		}
		mu.Lock()
		i := writes
		writes++
		mu.Unlock()
		if i != k {
			return 0, nil, false
		}
		x.rc.Conn.Inject(response(tid, "during-rtx"), x.srv.Addr)
		// the write is slow in scheduler terms only (a sleep here would stall the virtual clock
		// behind the client's own lock): give the read loop every chance to handle the response
		for j := 0; j < 300; j++ {
			runtime.Gosched()
		}
		if failWrite {
			return 0, errors.New("injected write error"), true
		}

		return 0, nil, false
	}
	t0 := time.Now()
	out := make(chan trResult, 2)
	x.perform(msg, out)
	select {
	case res := <-out:
		if res.err == nil && res.tag != "during-rtx" {
			x.rec.Violate("tr-wrong-response", "rtx-write-race", "returned tag %q", res.tag)
		}
		if d := res.at.Sub(t0); d != sends[k] {
			x.rec.Violate("tr-return-instant", fmt.Sprintf("rtx-write-race/k=%d", k), "response delivered during retransmission %d (+%v, write fails=%v): PerformTransaction returned at +%v err=%v", k, sends[k], failWrite, d, res.err)
		}
		if !failWrite && res.err != nil {
			x.rec.Violate("tr-unexpected-result", "rtx-write-race", "response delivered during a successful retransmission %d, PerformTransaction returned %v", k, res.err)
		}
		x.rec.FP("rtx-write-race/k=%d/fail=%v/got-err=%v", k, failWrite, res.err != nil)
	case <-time.After(fail + 10*time.Second):
		x.rec.Violate("tr-hang", "rtx-write-race", "PerformTransaction did not return (response during retransmission %d, write fails=%v)", k, failWrite)

		return
	}
	x.rc.Conn.WriteHook = nil
	time.Sleep(time.Millisecond) // the writer returns from its hook and releases the client's lock
	x.checkTable(fmt.Sprintf("rtx-write-race/k=%d/fail=%v", k, failWrite))
	if x.rec.Poisoned() {
		return
	}
	time.Sleep(fail + 5*time.Second)
	select {
	case res := <-out:
		x.rec.Violate("tr-completed-twice", "rtx-write-race", "a second result was produced for the same transaction: %q %v", res.tag, res.err)
	default:
	}
	wantN := k + 1
	if failWrite {
		wantN = k
	}
	if got := x.arrivals(tid, t0); len(got) != wantN {
		x.rec.Violate("rtx-after-completion", "rtx-write-race", "%d transmissions reached the server %v, want %d", len(got), got, wantN)
	}
	// a follow-up transaction whose first transmission is lost: it needs the retransmission path
	msg2, tid2 := x.request()
	seen := 0
	x.srv.SetHandler(func(s *sim.ScriptedServer, from *net.UDPAddr, ev sim.SrvEvent) {
		if ev.Msg == nil || ev.Msg.TID != tid2 {
			return
		}
		seen++
		if seen == 2 {
			s.Send(from, response(tid2, "follow-up"), 0)
		}
	})
	t1 := time.Now()
	x.perform(msg2, out)
	select {
	case res := <-out:
		if res.err != nil || res.tag != "follow-up" || res.at.Sub(t1) != sends[1] {
			x.rec.Violate("tr-wrong-response", "rtx-write-race/follow-up", "follow-up transaction: tag %q err %v at +%v (want the answer to its 2nd transmission at +%v)", res.tag, res.err, res.at.Sub(t1), sends[1])
		}
	case <-time.After(fail + 10*time.Second):
		x.rec.Violate("tr-hang", "rtx-write-race/follow-up", "a transaction after the raced one did not return")

		return
	}
	x.checkTable("rtx-write-race/follow-up")
	x.rec.SetSample(map[string]any{"kind": "rtx-write-race", "k": k, "write_fails": failWrite, "rto": x.rto.String()})
}

// caseCloseDuringRtxWrite: Client.Close lands while retransmission k is inside its (slow) socket
// write, which then fails or succeeds: the transaction ends once, with an error, and nothing blows up.
func (x *c12) caseCloseDuringRtxWrite() {
	_, fail := schedule(x.rto)
	k := x.rng.Intn(maxRtx) // 0: the request's first write, made by the caller of PerformTransaction itself
	if x.rng.Intn(3) == 0 {
		k = 0
	}
	failWrite := x.rng.Intn(2) == 0
	msg, tid := x.request()
	x.srv.SetHandler(nil)
	var mu sync.Mutex
	writes := 0
	closed := make(chan struct{})
	x.rc.Conn.WriteHook = func(b []byte, _ net.Addr) (int, error, bool) {
		if m, err := wire.ParseSTUN(b); err != nil || m.TID != tid {
			return 0, nil, false
		}
		mu.Lock()
		i := writes
		writes++
		mu.Unlock()
		if i != k {
			return 0, nil, false
		}
		go func() { x.rc.Client.Close(); close(closed) }()
		for j := 0; j < 300; j++ {
			runtime.Gosched() // (no sleep: the client holds its transaction lock across this write)
		}
		if failWrite {
			return 0, errors.New("injected write error"), true
		}

		return 0, nil, false
	}
	out := make(chan trResult, 2)
	x.perform(msg, out)
	select {
	case res := <-out:
		if res.err == nil {
			x.rec.Violate("tr-unexpected-result", "close-during-rtx-write", "PerformTransaction returned success although the client was closed during retransmission %d and no response came", k)
		}
	case <-time.After(fail + 10*time.Second):
		x.rec.Violate("tr-hang", "close-during-rtx-write", "PerformTransaction did not return (Close during the write of retransmission %d, write fails=%v)", k, failWrite)

		return
	}
	select {
	case <-closed:
	case <-time.After(10 * time.Second):
		x.rec.Violate("tr-hang", "close-during-rtx-write/close", "Client.Close did not return")

		return
	}
	x.rc.Conn.WriteHook = nil
	time.Sleep(fail + 5*time.Second)
	select {
	case res := <-out:
		x.rec.Violate("tr-completed-twice", "close-during-rtx-write", "a second result was produced: %q %v", res.tag, res.err)
	default:
	}
	x.rec.FP("close-during-rtx-write/k=%d/fail=%v", k, failWrite)
	x.rec.SetSample(map[string]any{"kind": "close-during-rtx-write", "k": k, "write_fails": failWrite, "rto": x.rto.String()})
}

// caseIgnoreResult: a fire-and-forget transaction (ignoreResult) follows the same schedule, stops at
// the first matching response and leaves the table empty, too.
func (x *c12) caseIgnoreResult() {
	sends, fail := schedule(x.rto)
	msg, tid := x.request()
	answerAt := x.rng.Intn(maxRtx + 1) // == maxRtx: never answered
	count := 0
	x.srv.SetHandler(func(s *sim.ScriptedServer, from *net.UDPAddr, ev sim.SrvEvent) {
		if ev.Msg == nil || ev.Msg.TID != tid {
			return
		}
		if count == answerAt {
			s.Send(from, response(tid, "answer"), 0)
		}
		count++
	})
	t0 := time.Now()
	if _, err := x.rc.Client.PerformTransaction(msg, x.srv.Addr, true); err != nil {
		x.rec.Violate("tr-unexpected-result", "ignore-result", "fire-and-forget PerformTransaction returned %v", err)
	}
	if d := time.Since(t0); d != 0 {
		x.rec.Violate("tr-return-instant", "ignore-result", "fire-and-forget PerformTransaction returned after %v", d)
	}
	// the call has returned: the application builds its next request in the same message value
	// (the retransmissions of the first one must still carry the first request's bytes)
	if other, err := stun.Build(stun.TransactionID, stun.BindingRequest); err == nil && len(other.Raw) == len(msg.Raw) {
		copy(msg.Raw, other.Raw)
		msg.TransactionID = other.TransactionID
	}
	time.Sleep(fail + 5*time.Second)
	want := answerAt + 1
	if answerAt >= maxRtx {
		want = maxRtx
	}
	x.checkSends(x.arrivals(tid, t0), want, fmt.Sprintf("fire-and-forget answered at transmission %d rto=%v", answerAt, x.rto))
	_ = sends
	x.checkTable("ignore-result")
	x.rec.FP("ignore-result/answer-at=%d/rto=%s", answerAt, x.rto)
	x.rec.SetSample(map[string]any{"kind": "ignore-result", "answer_at": answerAt, "rto": x.rto.String()})
}

var c12RTOs = []time.Duration{time.Millisecond, 100 * time.Millisecond, 200 * time.Millisecond, 800 * time.Millisecond, 1600 * time.Millisecond, 37 * time.Millisecond, 1100 * time.Millisecond}

func runC12(t *testing.T, rng *rand.Rand, rec *sim.Rec, tier string, caseNo int) {
	lossCases := 128
	if tier == "thorough" {
		lossCases = 128 * 5 * len(c12RTOs)
	}
	rto := pick(rng, c12RTOs)
	if caseNo < lossCases {
		mask := caseNo % 128
		dk := rng.Intn(5)
		if tier == "thorough" {
			dk = (caseNo / 128) % 5
			rto = c12RTOs[(caseNo/640)%len(c12RTOs)]
		}
		x := newC12(t, rng, rec, rto)
		defer x.close()
		x.caseLoss(mask, dk)
		rec.Ev("loss-subset-covered")

		return
	}
	if (caseNo-lossCases)%9 == 5 {
		runC12RealClientDuplicates(t, rng, rec)

		return
	}
	x := newC12(t, rng, rec, rto)
	defer x.close()
	switch (caseNo - lossCases) % 9 {
	case 8:
		x.caseCloseDuringRtxWrite()
	case 7:
		x.caseRtxWriteRace()
	case 6:
		x.caseIgnoreResult()
	case 0:
		x.caseNoise()
	case 1:
		x.caseConcurrent()
	case 2:
		x.caseClose()
	case 3:
		x.caseWriteError()
	case 4:
		x.caseSyncResponse()
	default:
		x.caseLoss(rng.Intn(128), rng.Intn(5))
	}
}

// runC12RealClientDuplicates: the whole client (turn.Client) on a network that delivers every
// response twice, the twin 20-400 ms later, while the Allocate success is held back longer than
// that: the late twin of the 401 arrives while the authenticated Allocate is pending. A response
// completes the transaction whose id it carries and no other; different requests therefore never
// share an id (the wire log shows every request the client wrote).
func runC12RealClientDuplicates(t *testing.T, rng *rand.Rand, rec *sim.Rec) {
	n := simnet.New()
	defer n.CloseAll()
	srv, err := sim.NewScriptedServer(n, sim.ServerIP4, 3478)
	if err != nil {
		t.Fatal(err)
	}
	defer srv.Close()
	dup := time.Duration(20+rng.Intn(380)) * time.Millisecond
	ts := &turnScript{rng: rand.New(rand.NewSource(rng.Int63())), relay: &net.UDPAddr{IP: sim.RelayIP4, Port: 50000}, nonce: "nonce-0", maxStale: 2,
		permW: [5]int{6, 0, 1, 2, 0}, bindW: [5]int{6, 0, 1, 2, 0}, noSilence: true, dup: dup, allocDelay: dup + time.Duration(10+rng.Intn(300))*time.Millisecond}
	srv.SetHandler(ts.handler)
	rc, err := sim.NewRealClient(n, net.IPv4(10, 1, 0, 1).To4(), 5000, "10.0.0.1:3478", "alice", "pw-a", "verif.test", time.Second, sim.NewLogSink(), nil)
	if err != nil {
		t.Fatal(err)
	}
	defer func() { _ = rc.Conn.Close() }()
	defer rc.Client.Close()
	if err := rc.Client.Listen(); err != nil {
		t.Fatal(err)
	}
	conn, err := rc.Client.Allocate()
	if err != nil {
		rec.Violate("tr-foreign-response", "allocate", "Allocate on a duplicating network (twin +%v, success +%v) failed: %v - the server answered the authenticated request with success", dup, ts.allocDelay, err)
	} else {
		if conn.LocalAddr().String() != ts.relay.String() {
			rec.Violate("tr-foreign-response", "relayed-address", "Allocate returned relayed address %v, the server granted %v", conn.LocalAddr(), ts.relay)
		}
		peers := 1 + rng.Intn(4)
		for i := 0; i < peers*3; i++ {
			_, _ = conn.WriteTo([]byte(fmt.Sprintf("dup-%d", i)), &net.UDPAddr{IP: net.IPv4(10, 2, 0, byte(1+i%peers)).To4(), Port: 7000 + i%peers})
			time.Sleep(time.Duration(rng.Intn(700)) * time.Millisecond)
		}
		if _, err := rc.Client.SendBindingRequest(); err != nil {
			rec.Violate("tr-foreign-response", "binding", "Binding request on a duplicating network failed: %v", err)
		}
		_ = conn.Close()
		time.Sleep(20 * time.Second)
	}
	seen := map[[12]byte][]byte{}
	reqs := 0
	for _, ev := range srv.Log() {
		if ev.Dir != "in" || ev.Msg == nil || ev.Msg.Class != wire.ClassRequest {
			continue
		}
		reqs++
		if first, ok := seen[ev.Msg.TID]; ok && !bytes.Equal(first, ev.Raw) {
			rec.Violate("tr-tid-reused", fmt.Sprintf("method=%x", ev.Msg.Method), "two different requests (method %x, %d and %d bytes) carry the same transaction id %x", ev.Msg.Method, len(first), len(ev.Raw), ev.Msg.TID)

			break
		}
		seen[ev.Msg.TID] = ev.Raw
	}
	if n := rc.Client.VerifPendingTransactions(); n != 0 {
		rec.Violate("tr-left-in-table", "real-client-duplicates", "%d transactions left in the table after the run", n)
	}
	rec.Ev("real-client-on-duplicating-network")
	rec.EvN("real-client-requests-seen", reqs)
	rec.FP("real-client-duplicates/requests=%d", min(reqs, 12))
	rec.SetSample(map[string]any{"kind": "real-client-duplicates", "twin_after": dup.String(), "allocate_success_after": ts.allocDelay.String(), "requests": reqs})
}

func init() {
	register("C12", PropDef{
		Bubble: true,
		Cases: func(tier string) int {
			if tier == "thorough" {
				return 128*5*len(c12RTOs) + 40000
			}

			return 128 + 720
		},
		Run: runC12,
	})
}
