package props

import (
	"math/rand"
	"net"
	"testing"
	"time"

	"github.com/pion/turn/v5/verifharness/sim"
	"github.com/pion/turn/v5/verifharness/wire"
)

// C08: channel bindings are one-to-one and in range.
//   - sweep cases: every channel-number value is offered once to a ChannelBind against a small
//     standing state (thorough: all 65536 values in 256 chunks; quick: range boundaries + random)
//   - history cases: bind / re-bind / both kinds of conflict / expiry / re-use sequences with a
//     tiny number range so that collisions are the norm.

const c08QuickSweepCases = 20

func c08Numbers(rng *rand.Rand, tier string, caseNo int) []uint16 {
	if tier == "thorough" {
		var out []uint16
		for i := 0; i < 256; i++ {
			out = append(out, uint16(caseNo*256+i))
		}

		return out
	}
	bound := []uint16{0, 1, 2, 0x3FFE, 0x3FFF, 0x4000, 0x4001, 0x4002, 0x7FFD, 0x7FFE, 0x7FFF, 0x8000, 0x8001, 0xBFFF, 0xC000, 0xFFFE, 0xFFFF}
	var out []uint16
	if caseNo == 0 {
		out = append(out, bound...)
	}
	for len(out) < 28 {
		out = append(out, uint16(rng.Intn(65536)))
	}

	return out
}

func runC08Sweep(t *testing.T, rng *rand.Rand, rec *sim.Rec, tier string, caseNo int) {
	cfg := sim.Config{
		Realm: "verif.test", Users: map[string]string{"alice": "pw-a"}, Lifetime: time.Hour,
		UDPListeners: []*net.UDPAddr{{IP: sim.ServerIP4, Port: 3478}},
	}
	w, err := sim.NewWorld(cfg, rec, rng, true)
	if err != nil {
		t.Fatal(err)
	}
	defer w.Shutdown()
	m := sim.NewModel(w)
	c, _ := w.NewUDPClient("c0", net.IPv4(10, 1, 0, 1).To4(), 5000, 0, "alice")
	resp := m.Allocate(c, sim.AllocOpts{})
	if resp == nil || resp.Class != wire.ClassSuccess {
		rec.Inconclusive("setup allocate failed")

		return
	}
	relay, _ := sim.RelayAddrOf(resp)
	nums := c08Numbers(rng, tier, caseNo)
	// standing state: two real peers bound to numbers that are not in this chunk
	standing := []uint16{0x4000 + uint16((int(nums[0])+0x1234)%0x4000), 0x4000 + uint16((int(nums[0])+0x2345)%0x4000)}
	var realPeers []*sim.Peer
	for i, n := range standing {
		p, _ := w.NewPeer("standing", net.IPv4(10, 2, 0, byte(1+i)).To4(), 7000+i)
		realPeers = append(realPeers, p)
		m.ChannelBind(c, n, p.Addr)
	}
	bound := 0
	for i, n := range nums {
		peer := &net.UDPAddr{IP: net.IPv4(10, 2, 1, byte(1+i%200)).To4(), Port: 10000 + i}
		var rp *sim.Peer
		if i%64 == 0 {
			rp, _ = w.NewPeer("swept", peer.IP, peer.Port)
		}
		r := m.ChannelBind(c, n, peer)
		rec.Ev("sweep-number-covered")
		rec.FP("sweep/%s/%v", rangeClassOf(n), r != nil && r.Class == wire.ClassSuccess)
		if r != nil && r.Class == wire.ClassSuccess {
			bound++
			// the freshly bound number must relay in both directions under exactly that number
			st := m.Begin()
			st.ClientChanData(c, n, []byte{byte(n >> 8), byte(n), 1, 2, 3, 4, 5, 6, 7}, true)
			if rp != nil {
				st.PeerSend(rp, relay, []byte{9, 9, byte(n >> 8), byte(n), 1, 2, 3, 4})
			}
			st.End()
		} else {
			st := m.Begin()
			st.ClientChanData(c, n, []byte{byte(n >> 8), byte(n), 0xEE}, true)
			st.End()
		}
		if i%16 == 15 {
			m.CrossCheck()
		}
		if len(rec.Violations()) > 0 {
			break
		}
	}
	// standing bindings still intact and relaying under their own numbers
	st := m.Begin()
	for i, p := range realPeers {
		st.PeerSend(p, relay, []byte{0xAA, byte(i), 1, 2, 3, 4, 5, 6})
		st.ClientChanData(c, standing[i], []byte{0xBB, byte(i), 1, 2, 3, 4, 5, 6}, false)
	}
	st.End()
	m.CrossCheck()
	rec.SetSample(map[string]any{"numbers_first": nums[0], "numbers_last": nums[len(nums)-1], "count": len(nums), "accepted": bound, "standing": standing})
}

func rangeClassOf(n uint16) string {
	switch {
	case n < 0x4000:
		return "below"
	case n == 0x4000:
		return "min"
	case n == 0x7FFF:
		return "max"
	case n <= 0x7FFF:
		return "mid"
	default:
		return "above"
	}
}

var c08HistKnobs = Knobs{
	Clients: [2]int{1, 3}, TCPClients: [2]int{0, 1}, Peers: [2]int{3, 6}, Steps: [2]int{20, 45}, V6: 10,
	TimeoutSets: [][3]time.Duration{{0, 0, 4 * time.Hour}, {2 * time.Minute, 30 * time.Second, 4 * time.Hour}, {30 * time.Second, 2 * time.Minute, 4 * time.Hour}},
	Lifetimes:   []int64{-1},
	W:           map[string]int{"allocate": 1, "chan": 16, "perm": 2, "data": 5, "probe": 8, "time": 2, "refresh": 1},
}

func init() {
	register("C08", PropDef{
		Bubble: true,
		Cases: func(tier string) int {
			if tier == "thorough" {
				return 256 + 30000
			}

			return c08QuickSweepCases + 500
		},
		Run: func(t *testing.T, rng *rand.Rand, rec *sim.Rec, tier string, caseNo int) {
			sweep := c08QuickSweepCases
			if tier == "thorough" {
				sweep = 256
			}
			if caseNo < sweep {
				runC08Sweep(t, rng, rec, tier, caseNo)

				return
			}
			newHist(t, rng, rec, c08HistKnobs).run()
		},
	})
}
