#!/usr/bin/env python3
"""Rewrites the seeded-changes table at the end of DESIGN.md from /verif/seeded/*/meta.json."""
import json, glob, os, re
rows = []
for m in sorted(glob.glob('/verif/seeded/*/meta.json')):
    d = json.load(open(m))
    patch = open(os.path.join(os.path.dirname(m), 'patch.diff')).read()
    files = sorted(set(re.findall(r'^\+\+\+ b/(\S+)', patch, re.M)))
    missed = d.get('initially_missed', '')
    rows.append((d['seed'], ', '.join(files), ', '.join(d['caught_by_checks']), d['first_violation_reported'].replace('|', '/'), ('**initially missed** — ' + missed) if missed else ''))
tab = ["## Appendix: seeded changes (independent) and the checks that catch them", "",
       "Each change was written by a sub-agent that saw only the property text and its own scratch worktree of /repo. "
       "I confirmed each in a scratch copy (suite passes with the change, demonstration fails with it and passes without it) and ran the checks against it with `tools/seedcheck.sh`. "
       "Files: `/verif/seeded/<seed>/{patch.diff, demo, notes.md, meta.json}`. To re-run: `tools/mutcheck.sh seeded/<seed>/patch.diff <check>`.", "",
       "| Seed | Touches | Caught by | First violation reported | Note |", "|---|---|---|---|---|"]
for r in rows:
    tab.append("| %s | %s | %s | %s | %s |" % r)
tab.append("")
s = open('/verif/DESIGN.md').read()
mark = "## Appendix: seeded changes (independent) and the checks that catch them"
if mark in s:
    s = s[:s.index(mark)]
s = s.rstrip('\n') + '\n\n' + '\n'.join(tab)
open('/verif/DESIGN.md', 'w').write(s)
print(len(rows), 'seeds')
