#!/usr/bin/env python3
"""mut_rerun.py <out.jsonl> <id>:<check,check,...> ...  — re-run single-line mutants recorded by
mutation_campaign.py (results-*.jsonl under .build/mut) against the *current* checks.
The scratch copy of /repo lives under /tmp and is removed after each mutant."""
import json, os, sys, glob, subprocess, shutil, re
recs = {}
for f in glob.glob('/verif/.build/mut/results-*.jsonl'):
    for l in open(f):
        try:
            d = json.loads(l); recs[d['id']] = d
        except Exception:
            pass
out = open(sys.argv[1], 'a')
env = dict(os.environ, GOFLAGS="-mod=mod", GOPROXY="off", GOSUMDB="off", GOTOOLCHAIN="local")
for spec in sys.argv[2:]:
    mid, checks = spec.split(':')
    r = recs[mid]
    d = f"/tmp/vmutr-{os.getpid()}"
    shutil.rmtree(d, ignore_errors=True)
    shutil.rmtree(f"/verif/.build/scratch-rerun{os.getpid()}", ignore_errors=True)
    subprocess.run(f"rsync -a --exclude .git /repo/ {d}/", shell=True, check=True)
    p = os.path.join(d, r['file'])
    lines = open(p).read().split("\n")
    if lines[r['line'] - 1].strip() != r['old']:
        print(mid, "source line changed since the campaign; skipped"); shutil.rmtree(d); continue
    lines[r['line'] - 1] = lines[r['line'] - 1].replace(r['old'], r['new'])
    open(p, 'w').write("\n".join(lines))
    res = {"id": mid, "file": r['file'], "line": r['line'], "new": r['new'], "checks": {}}
    for c in checks.split(','):
        pr = subprocess.run(f"VERIF_SCRATCH_TAG=rerun{os.getpid()} VERIF_REPO={d} VERIF_WORKERS={os.environ.get('VERIF_WORKERS','6')} ./check {c} quick", shell=True, cwd='/verif', env=env, capture_output=True, text=True)
        o = pr.stdout + pr.stderr
        m = re.search(r"^(violation|crash|hang|data races)[^\n]*", o, re.M)
        res["checks"][c] = [pr.returncode, (m.group(0)[:220] if m else "")]
        if pr.returncode == 1:
            break
    res["status"] = "caught" if any(v[0] == 1 for v in res["checks"].values()) else "SURVIVED"
    print(res["status"], mid, r['file'], r['line'], r['new'][:70], res["checks"], flush=True)
    out.write(json.dumps(res) + "\n"); out.flush()
    shutil.rmtree(d, ignore_errors=True)
    shutil.rmtree(f"/verif/.build/scratch-rerun{os.getpid()}", ignore_errors=True)
