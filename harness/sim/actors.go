package sim

import (
	"errors"
	"fmt"
	"net"
	"time"

	"github.com/pion/turn/v5/verifharness/simnet"
	"github.com/pion/turn/v5/verifharness/wire"
)

// Inbound is one message a raw client received from the server.
type Inbound struct {
	At      time.Time
	Raw     []byte
	From    string
	STUN    *wire.Msg // nil if not a STUN message
	IsChan  bool
	Chan    uint16
	Payload []byte
	Garbage bool // neither STUN nor ChannelData
	Seen    bool
}

// RawClient is a scripted TURN client that builds every byte itself.
type RawClient struct {
	W         *World
	Name      string
	Addr      net.Addr // own transport address as seen by the server
	UDP       *simnet.UDPConn
	TCP       *simnet.Conn
	Listener  int // index: UDP listeners first, then TCP listeners
	IsTCP     bool
	Server    *net.UDPAddr // for UDP transport
	tcpBuf    []byte
	StreamErr error

	User, Pass, Realm, Nonce string

	// MapPeersV6, when set, encodes the next XOR-PEER-ADDRESS of an IPv4 peer as an IPv4-mapped IPv6
	// address (family 0x02): the same peer in another notation. Consumed by one request.
	MapPeersV6    bool
	ExtraLifetime *uint32 // added (once) as a LIFETIME attribute to the next CreatePermission/ChannelBind
	// RefreshFamily, when non-zero, makes the next Refresh carry REQUESTED-ADDRESS-FAMILY (RFC 6156):
	// 1 = the allocation's own family (an ordinary, valid Refresh), 2 = the other family.
	RefreshFamily int

	Inbox []Inbound
	// pending: transaction ids of requests sent and not yet answered.
	Pending map[[12]byte]uint16
	// Responses counts responses per tid (C19: duplicates).
	Closed bool
}

// ListenerKey identifies the server listener a client talks to plus the client's address -
// the 5-tuple as the harness knows it.
func (c *RawClient) Key() string {
	return fmt.Sprintf("L%d|%s", c.Listener, c.Addr.String())
}

// NewUDPClient creates a raw client on its own UDP socket talking to UDP listener li.
func (w *World) NewUDPClient(name string, ip net.IP, port int, li int, user string) (*RawClient, error) {
	u, err := w.Net.ListenUDP(ip, port)
	if err != nil {
		return nil, err
	}
	c := &RawClient{
		W: w, Name: name, UDP: u, Addr: u.Addr(), Listener: li, Server: w.ServerUDP[li].Addr(),
		User: user, Pass: w.Cfg.Users[user], Realm: w.Cfg.Realm, Pending: map[[12]byte]uint16{},
	}
	w.Clients = append(w.Clients, c)

	return c, nil
}

// NewTCPClient creates a raw client with a TCP control connection to TCP listener li.
func (w *World) NewTCPClient(name string, ip net.IP, port int, li int, user string) (*RawClient, error) {
	l := w.ServerTCP[li]
	to := l.TCPAddr()
	if to.IP.IsUnspecified() {
		// a wildcard listener is reached at one of the host's concrete addresses
		to = &net.TCPAddr{IP: ServerIP4, Port: to.Port}
		if ip.To4() == nil {
			to.IP = ServerIP6
		}
	}
	conn, err := w.Net.DialTCP(ip, port, to)
	if err != nil {
		return nil, err
	}
	c := &RawClient{
		W: w, Name: name, TCP: conn, IsTCP: true, Addr: conn.LocalAddr(), Listener: len(w.ServerUDP) + li,
		User: user, Pass: w.Cfg.Users[user], Realm: w.Cfg.Realm, Pending: map[[12]byte]uint16{},
	}
	w.Clients = append(w.Clients, c)

	return c, nil
}

// ServerAddr returns the address of the listener this client talks to.
func (c *RawClient) ServerAddr() net.Addr {
	if c.IsTCP {
		return c.TCP.RemoteAddr()
	}

	return c.Server
}

// SendRaw transmits bytes to the server.
func (c *RawClient) SendRaw(b []byte) error {
	if c.IsTCP {
		_, err := c.TCP.Write(b)

		return err
	}
	_, err := c.UDP.WriteTo(b, c.Server)

	return err
}

func decodeInbound(raw []byte, from string) Inbound {
	in := Inbound{At: time.Now(), Raw: raw, From: from}
	if len(raw) > 0 && raw[0]>>6 == 0 {
		if m, err := wire.ParseSTUN(raw); err == nil {
			in.STUN = m

			return in
		}
	}
	if num, payload, ok := wire.ParseChannelData(raw); ok {
		in.IsChan = true
		in.Chan = num
		in.Payload = payload

		return in
	}
	// Out-of-range channel numbers: still decode the header so that C08 can flag them.
	if len(raw) >= 4 && raw[0]>>6 != 0 {
		in.Garbage = true
	} else {
		in.Garbage = true
	}

	return in
}

// Collect moves everything received so far into the inbox.
func (c *RawClient) Collect() {
	if c.IsTCP {
		data, _ := c.TCP.ReadAvailable()
		c.tcpBuf = append(c.tcpBuf, data...)
		for c.StreamErr == nil {
			n, _, err := wire.NextFrame(c.tcpBuf)
			if errors.Is(err, wire.ErrIncomplete) {
				break
			}
			if err != nil {
				c.StreamErr = err
				c.Inbox = append(c.Inbox, Inbound{At: time.Now(), Raw: c.tcpBuf, Garbage: true})

				break
			}
			frame := append([]byte{}, c.tcpBuf[:n]...)
			c.tcpBuf = c.tcpBuf[n:]
			c.Inbox = append(c.Inbox, decodeInbound(frame, c.TCP.RemoteAddr().String()))
		}

		return
	}
	for _, d := range c.UDP.Drain() {
		c.Inbox = append(c.Inbox, decodeInbound(d.Data, d.Src.String()))
	}
}

// TakeResponse removes and returns the response with the given transaction id.
func (c *RawClient) TakeResponse(tid [12]byte) *wire.Msg {
	for i, in := range c.Inbox {
		if in.STUN != nil && in.STUN.TID == tid && (in.STUN.Class == wire.ClassSuccess || in.STUN.Class == wire.ClassError) {
			c.Inbox = append(c.Inbox[:i], c.Inbox[i+1:]...)

			return in.STUN
		}
	}

	return nil
}

// TakeInbox returns and clears the inbox.
func (c *RawClient) TakeInbox() []Inbound {
	in := c.Inbox
	c.Inbox = nil

	return in
}

// NewTID draws a transaction id from the world's PRNG.
func (w *World) NewTID() (tid [12]byte) {
	for i := range tid {
		tid[i] = byte(w.Rng.Intn(256))
	}

	return tid
}

// Key returns the long-term key of the client's credentials.
func (c *RawClient) LTKey() []byte { return wire.LongTermKey(c.User, c.Realm, c.Pass) }

// AddAuth appends USERNAME, REALM, NONCE and MESSAGE-INTEGRITY.
func (c *RawClient) AddAuth(b *wire.Builder) *wire.Builder {
	b.Add(wire.AttrUsername, []byte(c.User))
	b.Add(wire.AttrRealm, []byte(c.Realm))
	b.Add(wire.AttrNonce, []byte(c.Nonce))

	return b.AddIntegrity(c.LTKey())
}

// Exchange sends a fully built request, waits for quiescence and returns the response (nil if none).
func (c *RawClient) Exchange(raw []byte, tid [12]byte) *wire.Msg {
	_ = c.SendRaw(raw)
	c.W.Settle()
	c.Collect()
	resp := c.TakeResponse(tid)
	// a slow lifecycle callback (a harness yield point) may be holding the answer back
	for i := 0; resp == nil && c.W.Bubble && c.W.CallbacksInFlight() > 0 && i < 60; i++ {
		c.W.Sleep(time.Second)
		c.Collect()
		resp = c.TakeResponse(tid)
	}

	return resp
}

// Do performs an authenticated request: build is called with a fresh transaction id and must add
// the method-specific attributes; credentials are appended. On 401/438 the nonce is adopted and
// the request retried once, like a real client does.
func (c *RawClient) Do(method uint16, build func(b *wire.Builder)) *wire.Msg {
	for attempt := 0; attempt < 3; attempt++ {
		tid := c.W.NewTID()
		b := wire.NewBuilder(method, wire.ClassRequest, tid)
		if build != nil {
			build(b)
		}
		if c.Nonce != "" {
			c.AddAuth(b)
		}
		resp := c.Exchange(b.Bytes(), tid)
		if resp == nil {
			return nil
		}
		if resp.Class == wire.ClassError {
			code := resp.ErrorCode()
			if code == 401 || code == 438 {
				if n, ok := resp.Get(wire.AttrNonce); ok {
					c.Nonce = string(n)
					if r, ok := resp.Get(wire.AttrRealm); ok {
						c.Realm = string(r)
					}

					continue
				}
			}
		}

		return resp
	}

	return nil
}

// AllocOpts are the options of an Allocate request.
type AllocOpts struct {
	Transport    byte // 17 UDP (default), 6 TCP
	Lifetime     *uint32
	Family       byte // 0 absent, 1 v4, 2 v6, other raw
	EvenPort     *bool
	Token        []byte
	DontFragment bool
}

// Allocate sends an Allocate request.
func (c *RawClient) Allocate(o AllocOpts) *wire.Msg {
	return c.Do(wire.MethodAllocate, func(b *wire.Builder) { o.apply(b) })
}

func (o AllocOpts) apply(b *wire.Builder) {
	tr := o.Transport
	if tr == 0 {
		tr = 17
	}
	b.Add(wire.AttrRequestedTransport, []byte{tr, 0, 0, 0})
	if o.Lifetime != nil {
		b.AddU32(wire.AttrLifetime, *o.Lifetime)
	}
	if o.Family != 0 {
		b.Add(wire.AttrRequestedAddressFamily, []byte{o.Family, 0, 0, 0})
	}
	if o.EvenPort != nil {
		v := byte(0)
		if *o.EvenPort {
			v = 0x80
		}
		b.Add(wire.AttrEvenPort, []byte{v})
	}
	if o.Token != nil {
		b.Add(wire.AttrReservationToken, o.Token)
	}
	if o.DontFragment {
		b.Add(wire.AttrDontFragment, nil)
	}
}

// Refresh sends a Refresh request; lifetime nil omits the attribute.
func (c *RawClient) Refresh(lifetime *uint32) *wire.Msg {
	return c.Do(wire.MethodRefresh, func(b *wire.Builder) {
		if lifetime != nil {
			b.AddU32(wire.AttrLifetime, *lifetime)
		}
	})
}

// CreatePermission sends a CreatePermission request for the given peers.
func (c *RawClient) CreatePermission(peers ...*net.UDPAddr) *wire.Msg {
	return c.Do(wire.MethodCreatePermission, func(b *wire.Builder) {
		for _, p := range peers {
			b.AddXorAddr(wire.AttrXORPeerAddress, p.IP, p.Port)
		}
	})
}

// ChannelBind sends a ChannelBind request.
func (c *RawClient) ChannelBind(num uint16, peer *net.UDPAddr) *wire.Msg {
	return c.Do(wire.MethodChannelBind, func(b *wire.Builder) {
		b.Add(wire.AttrChannelNumber, []byte{byte(num >> 8), byte(num), 0, 0})
		b.AddXorAddr(wire.AttrXORPeerAddress, peer.IP, peer.Port)
	})
}

// Connect sends an RFC 6062 Connect request.
func (c *RawClient) Connect(peer *net.TCPAddr) *wire.Msg {
	return c.Do(wire.MethodConnect, func(b *wire.Builder) {
		b.AddXorAddr(wire.AttrXORPeerAddress, peer.IP, peer.Port)
	})
}

// SendIndicationBytes builds a Send indication.
func (c *RawClient) SendIndicationBytes(peer *net.UDPAddr, data []byte) []byte {
	b := wire.NewBuilder(wire.MethodSend, wire.ClassIndication, c.W.NewTID())
	b.AddXorAddr(wire.AttrXORPeerAddress, peer.IP, peer.Port)
	b.Add(wire.AttrData, data)

	return b.Bytes()
}

// Binding performs a STUN Binding request.
func (c *RawClient) Binding() *wire.Msg {
	tid := c.W.NewTID()
	b := wire.NewBuilder(wire.MethodBinding, wire.ClassRequest, tid)

	return c.Exchange(b.Bytes(), tid)
}

// Close closes the client's socket/control connection.
func (c *RawClient) Close() {
	if c.Closed {
		return
	}
	c.Closed = true
	if c.IsTCP {
		_ = c.TCP.Close()
	} else {
		_ = c.UDP.Close()
	}
}

// Peer is a scripted UDP peer.
type Peer struct {
	W    *World
	Name string
	UDP  *simnet.UDPConn
	Addr *net.UDPAddr
}

// NewPeer creates a UDP peer.
func (w *World) NewPeer(name string, ip net.IP, port int) (*Peer, error) {
	u, err := w.Net.ListenUDP(ip, port)
	if err != nil {
		return nil, err
	}
	p := &Peer{W: w, Name: name, UDP: u, Addr: u.Addr()}
	w.Peers = append(w.Peers, p)

	return p, nil
}

// RelayAddrOf extracts XOR-RELAYED-ADDRESS from an Allocate success.
func RelayAddrOf(m *wire.Msg) (*net.UDPAddr, bool) {
	ip, port, ok := m.XorAddr(wire.AttrXORRelayedAddress)
	if !ok {
		return nil, false
	}

	return &net.UDPAddr{IP: ip, Port: port}, true
}

// U32 returns a pointer to v.
func U32(v uint32) *uint32 { return &v }
