package props

import (
	"bytes"
	"fmt"
	"hash/fnv"
	"math/rand"
	"os"
	"regexp"
	"runtime"
	"sort"
	"strconv"
	"strings"
	"sync"
	"sync/atomic"
	"testing"
	"testing/synctest"
	"time"

	"github.com/pion/turn/v5/verifharness/sim"
)

// PropDef describes how one property is explored.
type PropDef struct {
	// Cases returns the number of cases of a tier (a fixed count, never a time budget).
	Cases func(tier string) int
	// Run executes one case. It must be deterministic in (rng, tier, caseNo).
	Run func(t *testing.T, rng *rand.Rand, rec *sim.Rec, tier string, caseNo int)
	// Bubble runs each case inside a synctest bubble (virtual time).
	Bubble bool
}

var registry = map[string]PropDef{}

func register(id string, d PropDef) { registry[id] = d }

func caseSeed(seed int64, prop string, caseNo int) int64 {
	h := fnv.New64a()
	fmt.Fprintf(h, "%d/%s/%d", seed, prop, caseNo)

	return int64(h.Sum64() & 0x7fffffffffffffff)
}

func envInt(name string, def int) int {
	if v := os.Getenv(name); v != "" {
		if n, err := strconv.Atoi(v); err == nil {
			return n
		}
	}

	return def
}

var outMu sync.Mutex

func emit(f *os.File, s string) {
	outMu.Lock()
	defer outMu.Unlock()
	if f != nil {
		fmt.Fprintln(f, s)
	} else {
		fmt.Println(s)
	}
}

// TestProp is the single entry point used by the driver:
//
//	VERIF_PROP=C01 VERIF_TIER=quick VERIF_SEED=1 VERIF_WORKER=k VERIF_WORKERS=n VERIF_OUT=file
//	VERIF_CASE=i runs exactly one case (replay).
func TestProp(t *testing.T) {
	prop := os.Getenv("VERIF_PROP")
	if prop == "" {
		t.Skip("VERIF_PROP not set")
	}
	def, ok := registry[prop]
	if !ok {
		t.Fatalf("unknown property %s", prop)
	}
	tier := os.Getenv("VERIF_TIER")
	if tier == "" {
		tier = "quick"
	}
	seed := int64(envInt("VERIF_SEED", 1))
	worker, workers := envInt("VERIF_WORKER", 0), envInt("VERIF_WORKERS", 1)
	var out *os.File
	if p := os.Getenv("VERIF_OUT"); p != "" {
		f, err := os.OpenFile(p, os.O_CREATE|os.O_WRONLY|os.O_APPEND, 0o644)
		if err != nil {
			t.Fatal(err)
		}
		defer f.Close()
		out = f
	}
	total := def.Cases(tier)
	if os.Getenv("VERIF_MODE") == "count" {
		emit(out, fmt.Sprintf("COUNT %d", total))

		return
	}
	// In-binary wall-clock watchdog. A goroutine that waits forever for a sync.Mutex is not durably
	// blocked for testing/synctest, so a leaked or deadlocked library mutex freezes the virtual clock
	// and the case would hang until the driver's (long) watchdog. This goroutine runs outside any
	// bubble: when a case exceeds its wall budget it dumps all stacks, reports the pion/turn
	// goroutines parked in Mutex.Lock as a violation (or the case as inconclusive when there are
	// none) and abandons the process; the driver restarts the remaining cases.
	var caseStart atomic.Int64
	var caseNo atomic.Int64
	var watchRec atomic.Pointer[sim.Rec]
	wall := time.Duration(envInt("VERIF_CASE_WALL", 45)) * time.Second
	if tier == "thorough" {
		wall = time.Duration(envInt("VERIF_CASE_WALL", 900)) * time.Second
	}
	go func() {
		for {
			time.Sleep(time.Second)
			st := caseStart.Load()
			if st == 0 || time.Since(time.Unix(0, st)) < wall {
				continue
			}
			rec := watchRec.Load()
			i := int(caseNo.Load())
			wedged := mutexWedged()
			if len(wedged) > 0 {
				rec.Violate("mutex-wedged", firstFrame(wedged[0]), "case made no progress for %v of wall time; %d pion/turn goroutine(s) are parked in Mutex.Lock (a mutex was leaked or deadlocked): %s", wall, len(wedged), strings.Join(wedged, " || "))
			} else if spin := librarySpin(); len(spin) > 0 {
				rec.Violate("library-spin", firstFrame(spin[0]), "case made no progress for %v of wall time; %d pion/turn goroutine(s) were running or runnable in every one of 5 samples taken 200 ms apart (busy loop): %s", wall, len(spin), strings.Join(spin, " || "))
			} else {
				rec.Inconclusive("case exceeded its wall budget of %v without a goroutine parked on a library mutex", wall)
			}
			emit(out, "RESULT "+rec.Result(i, seed, true).JSON())
			emit(out, fmt.Sprintf("POISONED %d", i))
			os.Exit(0)
		}
	}()
	runOne := func(i int) {
		emit(out, fmt.Sprintf("START %d", i))
		rec := sim.NewRec(prop)
		curRec = rec
		watchRec.Store(rec)
		caseNo.Store(int64(i))
		caseStart.Store(time.Now().UnixNano())
		defer caseStart.Store(0)
		rng := rand.New(rand.NewSource(caseSeed(seed, prop, i)))
		finish := func() {
			if rec.Poisoned() {
				// the bubble cannot be wound down (see Rec.Violate): report and abandon the process;
				// the driver restarts the remaining cases of this worker in a fresh one
				emit(out, "RESULT "+rec.Result(i, seed, true).JSON())
				emit(out, fmt.Sprintf("POISONED %d", i))
				os.Exit(0)
			}
		}
		curFinish = finish
		// Each case is its own subtest: when the race detector flags something during a case only
		// that subtest is failed by the testing package and the remaining cases still run (race
		// reports are collected from the GORACE log by the driver).
		completed := false
		ok := t.Run(fmt.Sprintf("case%d", i), func(t *testing.T) {
			if def.Bubble {
				runBubble(t, rec, func(t *testing.T) { def.Run(t, rng, rec, tier, i); completed = true })
			} else {
				def.Run(t, rng, rec, tier, i)
				completed = true
				finish()
			}
		})
		if !ok {
			rec.Ev("subtest-failed-by-testing-package")
			if !completed && len(rec.Violations()) == 0 {
				// the case did not run to its end (t.Fatal in the harness' own set-up, not a race report
				// during a case that completed): nothing was decided
				rec.Inconclusive("the case was aborted by the testing package before it finished (harness set-up failure)")
			}
		}
		wantSample := i < 3 || os.Getenv("VERIF_CASE") != ""
		emit(out, "RESULT "+rec.Result(i, seed, wantSample).JSON())
	}
	if c := os.Getenv("VERIF_CASE"); c != "" {
		i, _ := strconv.Atoi(c)
		runOne(i)
		emit(out, "DONE")

		return
	}
	skipUntil := envInt("VERIF_SKIP_UNTIL", -1)
	for i := worker; i < total; i += workers {
		if i <= skipUntil {
			continue
		}
		runOne(i)
	}
	emit(out, "DONE")
}

var pionFn = regexp.MustCompile(`github\.com/pion/turn/v5[^\s(]*\.[A-Za-z_(*).]+`)

// bubbleCensus lists goroutines of the current bubble (other than the caller) that have a
// pion/turn frame on their stack, each as "state: frame < frame".
func bubbleCensus() []string {
	buf := make([]byte, 1<<20)
	buf = buf[:runtime.Stack(buf, true)]
	var out []string
	var mine []byte // "synctest bubble N" of the caller: goroutines abandoned by earlier bubbles are not ours
	for i, g := range bytes.Split(buf, []byte("\n\n")) {
		hdr, _, _ := bytes.Cut(g, []byte("\n"))
		if i == 0 {
			if j := bytes.Index(hdr, []byte("synctest bubble")); j >= 0 {
				mine = bytes.TrimRight(hdr[j:], "]:")
			}

			continue // the calling goroutine
		}
		if mine == nil || !bytes.Contains(hdr, mine) || !bytes.HasSuffix(bytes.TrimRight(hdr, ":"), append(append([]byte{}, mine...), ']')) {
			continue
		}
		var frames []string
		for _, l := range strings.Split(string(g), "\n") {
			if strings.Contains(l, "verifharness") {
				continue
			}
			if m := pionFn.FindString(l); m != "" && !strings.HasPrefix(l, "\t") && !strings.HasPrefix(l, "created by") {
				frames = append(frames, strings.TrimPrefix(m, "github.com/pion/turn/v5"))
			}
		}
		if len(frames) == 0 {
			continue
		}
		if len(frames) > 3 {
			frames = frames[:3]
		}
		if os.Getenv("VERIF_CENSUS_DUMP") != "" {
			fmt.Fprintf(os.Stderr, "CENSUS:\n%s\n\n", g)
		}
		state := string(hdr)
		if a, b := strings.Index(state, "["), strings.Index(state, "]"); a >= 0 && b > a {
			state = state[a+1 : b]
		}
		if j := strings.Index(state, ","); j > 0 {
			state = state[:j]
		}
		out = append(out, state+": "+strings.Join(frames, " < "))
	}

	return out
}

func firstFrame(s string) string {
	if i := strings.Index(s, ": "); i >= 0 {
		s = s[i+2:]
	}
	if i := strings.Index(s, " < "); i >= 0 {
		s = s[:i]
	}

	return s
}

var curFinish func()

// runBubble runs body inside a synctest bubble. After body returns, library goroutines that are
// still alive although the case closed everything are reported (instead of letting the bubble die
// with a bare deadlock panic), and a poisoned case abandons the process.
func runBubble(t *testing.T, rec *sim.Rec, body func(t *testing.T)) {
	defer func() {
		if r := recover(); r != nil {
			if msg := fmt.Sprint(r); strings.Contains(msg, "blocked goroutines remain") {
				rec.Ev("bubble-ended-with-blocked-goroutines")

				return
			}
			panic(r)
		}
	}()
	synctest.Test(t, func(t *testing.T) {
		body(t)
		if curFinish != nil {
			curFinish()
		}
		synctest.Wait()
		if left := bubbleCensus(); len(left) > 0 {
			rec.Violate("goroutines-left-blocked", firstFrame(left[0]), "%d goroutine(s) of pion/turn are still blocked after the case shut everything down: %s", len(left), strings.Join(left, " || "))
		}
	})
}

func inBubble(t *testing.T, body func(t *testing.T)) { runBubble(t, curRec, body) }

var curRec *sim.Rec

// librarySpin lists goroutines that have a pion/turn frame innermost (below runtime frames) and
// are running or runnable in each of five stack samples 200 ms apart: a busy loop in the library.
func librarySpin() []string {
	seen := map[string]int{}
	frame := map[string]string{}
	const samples = 5
	for k := 0; k < samples; k++ {
		buf := make([]byte, 8<<20)
		buf = buf[:runtime.Stack(buf, true)]
		for _, g := range bytes.Split(buf, []byte("\n\n")) {
			hdr, _, _ := bytes.Cut(g, []byte("\n"))
			if !bytes.Contains(hdr, []byte("[running")) && !bytes.Contains(hdr, []byte("[runnable")) {
				continue
			}
			id, _, _ := bytes.Cut(hdr, []byte(" ["))
			var frames []string
			harnessInner := false
			first := true
			for _, l := range strings.Split(string(g), "\n")[1:] {
				if strings.HasPrefix(l, "\t") || strings.HasPrefix(l, "created by") || strings.HasPrefix(l, "runtime.") || strings.HasPrefix(l, "time.") || strings.HasPrefix(l, "sync.") || strings.HasPrefix(l, "internal/") {
					continue
				}
				if first && strings.Contains(l, "verifharness") {
					harnessInner = true
				}
				first = false
				if m := pionFn.FindString(l); m != "" && !strings.Contains(l, "verifharness") {
					frames = append(frames, strings.TrimPrefix(m, "github.com/pion/turn/v5"))
				}
			}
			if len(frames) == 0 || harnessInner {
				continue
			}
			if len(frames) > 3 {
				frames = frames[:3]
			}
			seen[string(id)]++
			frame[string(id)] = strings.Join(frames, " < ")
		}
		time.Sleep(200 * time.Millisecond)
	}
	var out []string
	for id, n := range seen {
		if n == samples {
			out = append(out, frame[id])
		}
	}
	sort.Strings(out)

	return out
}

// mutexWedged lists goroutines with a pion/turn frame that are parked in sync.(*Mutex).Lock or
// sync.(*RWMutex).Lock/RLock, as "frame < frame".
func mutexWedged() []string {
	buf := make([]byte, 8<<20)
	buf = buf[:runtime.Stack(buf, true)]
	var out []string
	for _, g := range bytes.Split(buf, []byte("\n\n")) {
		hdr, _, _ := bytes.Cut(g, []byte("\n"))
		if !bytes.Contains(hdr, []byte("sync.Mutex.Lock")) && !bytes.Contains(hdr, []byte("sync.RWMutex")) && !bytes.Contains(hdr, []byte("semacquire")) {
			continue
		}
		var frames []string
		owner := "" // the innermost frame that is neither runtime nor sync: who asked for the lock
		for _, l := range strings.Split(string(g), "\n")[1:] {
			if strings.HasPrefix(l, "\t") || strings.HasPrefix(l, "created by") {
				continue
			}
			if owner == "" && !strings.HasPrefix(l, "runtime.") && !strings.HasPrefix(l, "sync.") && !strings.HasPrefix(l, "internal/") {
				owner = l
			}
			if strings.Contains(l, "verifharness") {
				continue
			}
			if m := pionFn.FindString(l); m != "" {
				frames = append(frames, strings.TrimPrefix(m, "github.com/pion/turn/v5"))
			}
		}
		if len(frames) == 0 || strings.Contains(owner, "verifharness") {
			continue // (a lock of the harness itself, contended for a moment, is not the library's)
		}
		if len(frames) > 3 {
			frames = frames[:3]
		}
		out = append(out, strings.Join(frames, " < "))
	}

	return out
}
