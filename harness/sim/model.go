package sim

import (
	"net"
	"time"
)

// Tri is a three-valued liveness.
type Tri int

const (
	Dead Tri = iota
	Live
	Maybe
)

func (t Tri) String() string { return [...]string{"dead", "live", "maybe"}[t] }

// Margin is the half-width of the window around a model expiry instant in which the
// statements do not determine the outcome (probes are placed at expiry-1s / expiry+1s).
const Margin = 500 * time.Millisecond

func triAt(exp, now time.Time) Tri {
	switch {
	case now.Before(exp.Add(-Margin)):
		return Live
	case now.After(exp.Add(Margin)):
		return Dead
	default:
		return Maybe
	}
}

// MChan is a channel binding in the model.
type MChan struct {
	Num  uint16
	Peer string
	Exp  time.Time
}

// MAlloc is an allocation in the model.
type MAlloc struct {
	C        *RawClient
	User     string
	Relay    string
	RelayUDP *net.UDPAddr
	TCP      bool
	Fam      int // 4 or 6
	Created  time.Time
	Exp      time.Time
	Gone     bool
	GoneAt   time.Time
	Perms    map[string]time.Time // peer IP -> expiry
	// PermUnsure[ip] = until: a multi-peer CreatePermission failed part-way; the permission may
	// or may not have been installed/refreshed with expiry `until`.
	PermUnsure map[string]time.Time
	Chans      []*MChan
	AllocTID   [12]byte
}

// Model is the reference model of a TURN server, fed only by what clients observe.
type Model struct {
	W           *World
	Rec         *Rec
	Allocs      map[string]*MAlloc   // client key -> latest allocation
	ByRelay     map[string]*MAlloc   // relay address -> latest allocation using it
	evSeen      int                  // lifecycle events consumed by lateEvents
	allocGoneAt map[string]time.Time // 5-tuple -> instant of its allocation-deleted callback
	// LoseNextResponse: the server's socket write fails for the answer to the next authenticated
	// non-Allocate request of a UDP client; the request is then retransmitted (see do).
	LoseNextResponse bool
	// NextTID, when set, is the transaction id of the next authenticated request made through the
	// model (once): histories use it to repeat an id another 5-tuple has used.
	NextTID *[12]byte
	// RelayMayRunOut: the server's relay address generator draws from a small range, a plain
	// Allocate may legitimately be answered 508 (Insufficient Capacity).
	RelayMayRunOut bool
	PermTO         time.Duration
	ChanTO         time.Duration
	DefLife        time.Duration
	MTU            int
	deny           map[string]bool
	// Unsure is set when an observation made the model lose track (lost response etc.).
	reqs map[[12]byte][]*reqInfo
	cur  *Step
}

type reqInfo struct {
	c         *RawClient
	method    uint16
	responses int
	// retransmits: how many extra copies of the request were sent (each may be answered)
	retransmits int
}

// NewModel creates the model for a world.
func NewModel(w *World) *Model {
	m := &Model{
		W: w, Rec: w.Rec, Allocs: map[string]*MAlloc{}, ByRelay: map[string]*MAlloc{},
		PermTO: w.Cfg.PermTimeout, ChanTO: w.Cfg.ChanTimeout, DefLife: w.Cfg.Lifetime, MTU: w.Cfg.InboundMTU,
		deny: map[string]bool{}, reqs: map[[12]byte][]*reqInfo{},
	}
	if m.PermTO == 0 {
		m.PermTO = 5 * time.Minute
	}
	if m.ChanTO == 0 {
		m.ChanTO = 10 * time.Minute
	}
	if m.DefLife == 0 {
		m.DefLife = 10 * time.Minute
	}
	if m.MTU == 0 {
		m.MTU = 1600
	}
	for _, ip := range w.Cfg.DenyPeerIPs {
		m.deny[net.ParseIP(ip).String()] = true
	}

	return m
}

// SetDenied records that the permission handler refuses (or admits again) peerIP from now on.
func (m *Model) SetDenied(peerIP net.IP, denied bool) {
	m.W.SetLateDeny(peerIP, denied)
	if denied {
		m.deny[peerIP.String()] = true
	} else {
		delete(m.deny, peerIP.String())
	}
}

// Denied reports whether the permission handler refuses peerIP for client c.
func (m *Model) Denied(c *RawClient, peerIP net.IP) bool {
	if m.deny[peerIP.String()] {
		return true
	}
	for _, ip := range m.W.Cfg.DenyPerClient[c.Addr.String()] {
		if net.ParseIP(ip).Equal(peerIP) {
			return true
		}
	}

	return false
}

// Alloc returns the model allocation of a client and its liveness now.
func (m *Model) Alloc(c *RawClient) (*MAlloc, Tri) {
	a := m.Allocs[c.Key()]
	if a == nil {
		return nil, Dead
	}

	return a, a.State()
}

// State returns the allocation's liveness now.
func (a *MAlloc) State() Tri {
	if a.Gone {
		return Dead
	}

	return triAt(a.Exp, time.Now())
}

// PermState returns the liveness of the permission for ip (ignoring the allocation's own state).
func (a *MAlloc) PermState(ip net.IP) Tri {
	now := time.Now()
	k := ip.String()
	st := Dead
	if exp, ok := a.Perms[k]; ok {
		st = triAt(exp, now)
	}
	if st == Live {
		return Live
	}
	if until, ok := a.PermUnsure[k]; ok && !now.After(until.Add(Margin)) {
		return Maybe
	}

	return st
}

// ChanByNum returns the binding of num and its liveness.
func (a *MAlloc) ChanByNum(num uint16) (*MChan, Tri) {
	now := time.Now()
	var best *MChan
	st := Dead
	for _, c := range a.Chans {
		if c.Num == num {
			if s := triAt(c.Exp, now); s != Dead {
				best, st = c, s
			}
		}
	}

	return best, st
}

// ChanByPeer returns the binding of peer and its liveness.
func (a *MAlloc) ChanByPeer(peer string) (*MChan, Tri) {
	now := time.Now()
	var best *MChan
	st := Dead
	for _, c := range a.Chans {
		if c.Peer == peer {
			if s := triAt(c.Exp, now); s != Dead {
				best, st = c, s
			}
		}
	}

	return best, st
}

func (a *MAlloc) gc() {
	now := time.Now()
	out := a.Chans[:0]
	for _, c := range a.Chans {
		if triAt(c.Exp, now) != Dead {
			out = append(out, c)
		}
	}
	a.Chans = out
}

// relayKey is the ByRelay key of a relayed transport address: UDP port n and TCP port n of the
// same host are different addresses.
func relayKey(addr string, tcp bool) string {
	if tcp {
		return "tcp/" + addr
	}

	return addr
}

// AllocByRelay finds the allocation that owns a relayed address (relayKey form).
func (m *Model) AllocByRelay(addr string) (*MAlloc, Tri) {
	a := m.ByRelay[addr]
	if a == nil {
		return nil, Dead
	}

	return a, a.State()
}

// LiveCount returns (definitely live, maybe) allocation counts.
func (m *Model) LiveCount() (live, maybe int) {
	for _, a := range m.Allocs {
		switch a.State() {
		case Live:
			live++
		case Maybe:
			maybe++
		}
	}

	return live, maybe
}

// GrantedLifetime is the lifetime rule of C06: the requested value when below one hour, the
// configured default otherwise (absent -> default). ok=false when the statement does not
// determine the outcome (requested 0 on Allocate).
func (m *Model) GrantedLifetime(requested *uint32) time.Duration {
	if requested == nil {
		return m.DefLife
	}
	if time.Duration(*requested)*time.Second < time.Hour {
		return time.Duration(*requested) * time.Second
	}

	return m.DefLife
}

func famOf(ip net.IP) int {
	if ip.To4() != nil {
		return 4
	}

	return 6
}
