#!/bin/sh
# Builds the verification driver and warms the build cache. Offline; uses only files on disk.
set -e
cd "$(dirname "$0")"
export GOFLAGS=-mod=mod GOPROXY=off GOSUMDB=off GOTOOLCHAIN=local
mkdir -p bin .build evidence replays
cp /repo/go.sum harness/go.sum.repo 2>/dev/null || true
( cd harness && go1.26.8 build -o ../bin/vcheck ./cmd/vcheck )
./bin/vcheck --warm || true
