package sim

import (
	"bytes"
	"errors"
	"fmt"
	"net"
	"time"

	"github.com/pion/turn/v5/verifharness/simnet"
	"github.com/pion/turn/v5/verifharness/wire"
)

// Verdict of the model for one data-plane submission.
type Verdict int

const (
	MustDrop Verdict = iota
	MustForward
	May
)

func (v Verdict) String() string { return [...]string{"must-drop", "must-forward", "may"}[v] }

// Expect is the model's expectation for one submission.
type Expect struct {
	V      Verdict
	Reason string
	Dir    string // "c2p" or "p2c"
	// c2p: emission leaves FromRelay toward To.
	FromRelay string
	To        string
	// p2c: emission reaches Client, attributed to Peer; allowed encapsulations.
	Client    *RawClient
	Peer      string
	AllowInd  bool
	AllowChan uint16 // 0 = not allowed
	Data      []byte
	matched   int
	desc      string
}

// Matched reports how many emissions the audit matched with this expectation.
func (e *Expect) Matched() int { return e.matched }

// emission is one observed data-plane output of the server.
type emission struct {
	Dir          string
	FromRelay    string
	To           string
	Client       *RawClient
	ToAddr       string // p2c over UDP: destination address
	ListenerSock *simnet.UDPConn
	Kind         string // "ind" "chan" "connattempt" "garbage"
	Peer         string
	Chan         uint16
	Data         []byte
	ConnID       uint32
}

func init() {
	// forwarded although the model says must-drop
	RegisterKind("fwd-noalloc", "C01", "C02", "C04")
	RegisterKind("fwd-alloc-dead", "C01", "C02", "C06")
	RegisterKind("fwd-perm-none", "C01", "C02")
	RegisterKind("fwd-perm-expired", "C01", "C02", "C07")
	RegisterKind("fwd-chan-none", "C01", "C02", "C08")
	RegisterKind("fwd-chan-expired", "C01", "C02", "C07")
	RegisterKind("fwd-chan-otherclient", "C01", "C04")
	RegisterKind("fwd-tcp-alloc", "C01")
	RegisterKind("fwd-other", "C01", "C02")
	// must-forward but nothing came out
	RegisterKind("lost-perm-live", "C01", "C02", "C05", "C07")
	RegisterKind("lost-chan-live", "C01", "C02", "C05", "C07")
	RegisterKind("lost-alloc-live", "C05", "C06")
	// emission that no submission explains
	RegisterKind("emit-misrouted", "C01", "C02", "C04", "C05")
	RegisterKind("emit-altered", "C05")
	RegisterKind("emit-duplicate", "C05")
	RegisterKind("emit-misattributed", "C05", "C02", "C04")
	RegisterKind("emit-spontaneous", "C01", "C02", "C04", "C05")
	RegisterKind("emit-badchannel", "C08", "C05")
	RegisterKind("emit-chan-unbound", "C08", "C02", "C07")
	RegisterKind("emit-garbage", "C05", "C09")
	// responses (C19)
	RegisterKind("resp-uncorrelated", "C19", "C04", "C03")
	RegisterKind("resp-duplicate", "C19")
	RegisterKind("resp-wrongdst", "C19", "C04")
	// snapshot cross-checks
	RegisterKind("snap-alloc-missing", "C06", "C04")
	RegisterKind("snap-alloc-ghost", "C06", "C04", "C03", "C15")
	RegisterKind("event-after-allocation-deleted", "C06", "C15")
	RegisterKind("snap-alloc-mismatch", "C04", "C19")
	RegisterKind("snap-perm-missing", "C07", "C04")
	RegisterKind("snap-perm-ghost", "C07", "C01", "C04", "C06")
	RegisterKind("snap-chan-missing", "C07", "C08", "C04")
	RegisterKind("snap-chan-ghost", "C07", "C08", "C01", "C04", "C06")
	RegisterKind("snap-chan-bijection", "C08")
	RegisterKind("snap-chan-range", "C08")
	RegisterKind("snap-family", "C01")
	RegisterKind("snap-denied", "C01")
	RegisterKind("lock-held", "C18", "C16", "C09", "C12", "C13")
	RegisterKind("snap-cross-effect", "C04")
	RegisterKind("goroutines-left-blocked", "C09", "C13", "C15", "C18")
	RegisterKind("mutex-wedged", "C09", "C12", "C13", "C16", "C18")
	RegisterKind("library-spin", "C09", "C18")
	RegisterKind("linearizability", "C04", "C18")
	RegisterKind("count-mismatch", "C04", "C06", "C15")
	// request outcomes
	RegisterKind("alloc-unexpected", "C19", "C06", "C04")
	RegisterKind("alloc-lifetime-rule", "C06", "C19")
	RegisterKind("alloc-mapped-addr", "C19")
	RegisterKind("alloc-relay-shared", "C19", "C04")
	RegisterKind("alloc-dup-5tuple", "C19", "C04")
	RegisterKind("refresh-unexpected", "C06", "C04")
	RegisterKind("refresh-lifetime-rule", "C06")
	RegisterKind("perm-accepted-denied", "C01")
	RegisterKind("perm-accepted-family", "C01")
	RegisterKind("perm-unexpected", "C07", "C01", "C04")
	RegisterKind("chan-accepted-denied", "C01")
	RegisterKind("chan-accepted-family", "C01")
	RegisterKind("chan-accepted-range", "C08")
	RegisterKind("chan-conflict-accepted", "C08")
	RegisterKind("chan-conflict-code", "C08")
	RegisterKind("chan-conflict-side-effect", "C08", "C02", "C01")
	RegisterKind("chan-rebind-rejected", "C08", "C07")
	RegisterKind("chan-unexpected", "C08", "C07", "C04")
}

// ---------------------------------------------------------------- request wrappers

func (m *Model) track(c *RawClient, tid [12]byte, method uint16) {
	m.reqs[tid] = append(m.reqs[tid], &reqInfo{c: c, method: method})
}

// Track registers a request sent outside the model's wrappers so that its response is accepted
// by the response monitor.
func (m *Model) Track(c *RawClient, tid [12]byte, method uint16) { m.track(c, tid, method) }

// Do performs an authenticated request through the model's response monitor.
func (m *Model) do(c *RawClient, method uint16, build func(b *wire.Builder)) (*wire.Msg, [12]byte) {
	var lastTID [12]byte
	for attempt := 0; attempt < 3; attempt++ {
		tid := m.W.NewTID()
		if m.NextTID != nil && c.Nonce != "" {
			tid, m.NextTID = *m.NextTID, nil // (a transaction id some other 5-tuple has used)
		}
		lastTID = tid
		b := wire.NewBuilder(method, wire.ClassRequest, tid)
		if build != nil {
			build(b)
		}
		if c.Nonce != "" {
			c.AddAuth(b)
		}
		m.track(c, tid, method)
		if m.LoseNextResponse && !c.IsTCP && c.Nonce != "" && method != wire.MethodAllocate && c.Listener < len(m.W.ServerUDP) {
			// the server's socket fails to send its answer to this request (ENOBUFS, say): the
			// request has been carried out, the client retransmits it and is answered then
			m.LoseNextResponse = false
			sock := m.W.ServerUDP[c.Listener]
			failed := false
			sock.SetWriteHook(func(p []byte, _ net.Addr) (int, error, bool) {
				if msg, err := wire.ParseSTUN(p); err == nil && msg.TID == tid && !failed {
					failed = true

					return 0, errors.New("injected: no buffer space available"), true
				}

				return 0, nil, false
			})
			first := c.Exchange(b.Bytes(), tid)
			sock.SetWriteHook(nil)
			if first == nil && failed {
				m.Retransmitted(c, tid)
				m.Rec.FP("response-lost-at-the-server-socket/m%x", method)
			}
		}
		resp := c.Exchange(b.Bytes(), tid)
		if c.IsTCP && resp != nil {
			m.checkResponse(resp, c, c.Addr.String())
		}
		if m.cur == nil { // inside an open data step the step's own audit judges everything
			m.Audit(nil)
		}
		if resp == nil {
			return nil, tid
		}
		if resp.Class == wire.ClassError {
			code := resp.ErrorCode()
			if code == 401 || code == 438 {
				if n, ok := resp.Get(wire.AttrNonce); ok {
					c.Nonce = string(n)
					if r, ok := resp.Get(wire.AttrRealm); ok {
						c.Realm = string(r)
					}

					continue
				}
			}
		}

		return resp, tid
	}

	return nil, lastTID
}

func isSuccess(m *wire.Msg) bool { return m != nil && m.Class == wire.ClassSuccess }

func codeOf(m *wire.Msg) int {
	if m == nil {
		return -1
	}
	if m.Class == wire.ClassSuccess {
		return 0
	}

	return m.ErrorCode()
}

// Allocate performs an Allocate and updates/checks the model. plain=true means the options are
// ones for which the statements determine success on a free 5-tuple.
func (m *Model) Allocate(c *RawClient, o AllocOpts) *wire.Msg {
	a, st := m.Alloc(c)
	resp, tid := m.do(c, wire.MethodAllocate, func(b *wire.Builder) { o.apply(b) })

	return m.allocPost(c, o, a, st, resp, tid)
}

// AllocateRaw sends a pre-built Allocate request (the caller keeps the bytes for retransmission).
func (m *Model) AllocateRaw(c *RawClient, o AllocOpts, raw []byte, tid [12]byte) *wire.Msg {
	a, st := m.Alloc(c)
	m.track(c, tid, wire.MethodAllocate)
	resp := c.Exchange(raw, tid)
	if c.IsTCP && resp != nil {
		m.checkResponse(resp, c, c.Addr.String())
	}
	m.Audit(nil)

	return m.allocPost(c, o, a, st, resp, tid)
}

// AdoptAllocation records an allocation created by a request sent outside the wrappers.
func (m *Model) AdoptAllocation(c *RawClient, resp *wire.Msg) {
	m.allocPost(c, AllocOpts{}, nil, Dead, resp, resp.TID)
}

func (m *Model) allocPost(c *RawClient, o AllocOpts, a *MAlloc, st Tri, resp *wire.Msg, tid [12]byte) *wire.Msg {
	code := codeOf(resp)
	m.Rec.Tracef("%s Allocate(tr=%d life=%v fam=%d) alloc=%s -> %d", c.Name, o.Transport, derefU32(o.Lifetime), o.Family, st, code)
	m.Rec.Ev("req/allocate")
	switch st {
	case Live:
		m.Rec.FP("allocate/on-live/%d", code)
		if code == 0 {
			m.Rec.Violate("alloc-dup-5tuple", "success-on-live", "%s: Allocate with a new transaction id succeeded on a 5-tuple that holds a live allocation (relay %s)", c.Name, a.Relay)
		} else if code != 437 {
			m.Rec.Violate("alloc-unexpected", fmt.Sprintf("on-live-%d", code), "%s: Allocate on live 5-tuple answered %d, want 437", c.Name, code)
		}

		return resp
	case Maybe:
		m.Rec.Ev("may/allocate-at-expiry")
	}
	// 5-tuple free (or maybe free).
	plain := (o.Transport == 0 || o.Transport == 17 || o.Transport == 6) && o.EvenPort == nil && o.Token == nil && !o.DontFragment &&
		(o.Family == 0 || o.Family == 1 || o.Family == 2) && !(o.Lifetime != nil && *o.Lifetime == 0)
	for _, u := range m.W.Cfg.QuotaDenyUsers {
		if u == c.User {
			plain = false
		}
	}
	if code == 0 {
		relay, ok := RelayAddrOf(resp)
		lt, ok2 := resp.Lifetime()
		if !ok || !ok2 {
			m.Rec.Violate("alloc-unexpected", "missing-attrs", "%s: Allocate success without XOR-RELAYED-ADDRESS/LIFETIME", c.Name)

			return resp
		}
		if o.Lifetime == nil || *o.Lifetime != 0 {
			if want := m.GrantedLifetime(o.Lifetime); time.Duration(lt)*time.Second != want {
				m.Rec.Violate("alloc-lifetime-rule", fmt.Sprintf("req=%v", derefU32(o.Lifetime)), "%s: Allocate requested lifetime %v (default %v) granted %ds, want %v", c.Name, derefU32(o.Lifetime), m.DefLife, lt, want)
			}
		}
		// XOR-MAPPED-ADDRESS must be the client's real source address.
		if ip, port, ok := resp.XorAddr(wire.AttrXORMappedAddress); ok {
			cip, cport := addrIPPort(c.Addr)
			if !ip.Equal(cip) || port != cport {
				m.Rec.Violate("alloc-mapped-addr", "mismatch", "%s: XOR-MAPPED-ADDRESS %s:%d != source %s", c.Name, ip, port, c.Addr)
			}
		} else {
			m.Rec.Violate("alloc-mapped-addr", "missing", "%s: Allocate success without XOR-MAPPED-ADDRESS", c.Name)
		}
		// The relayed address must not belong to another live allocation.
		if other, ost := m.AllocByRelay(relayKey(relay.String(), o.Transport == 6)); other != nil && ost == Live && other.C != c {
			m.Rec.Violate("alloc-relay-shared", "shared", "%s: relayed address %s also belongs to live allocation of %s", c.Name, relay, other.C.Name)
		}
		fam := 4
		if relay.IP.To4() == nil {
			fam = 6
		}
		na := &MAlloc{
			C: c, User: c.User, Relay: relay.String(), RelayUDP: relay, TCP: o.Transport == 6, Fam: fam,
			Created: time.Now(), Exp: time.Now().Add(time.Duration(lt) * time.Second),
			Perms: map[string]time.Time{}, PermUnsure: map[string]time.Time{}, AllocTID: tid,
		}
		m.Allocs[c.Key()] = na
		m.ByRelay[relayKey(na.Relay, na.TCP)] = na
		m.Rec.FP("allocate/ok/tr%d/fam%d/life%s", o.Transport, fam, lifeClass(o.Lifetime))
	} else {
		m.Rec.FP("allocate/err/%d", code)
		if plain && st == Dead && !(code == 508 && m.RelayMayRunOut) {
			m.Rec.Violate("alloc-unexpected", fmt.Sprintf("plain-%d", code), "%s: plain Allocate on a free 5-tuple answered %d", c.Name, code)
		}
	}

	return resp
}

func lifeClass(l *uint32) string {
	switch {
	case l == nil:
		return "absent"
	case *l == 0:
		return "0"
	case *l < 3600:
		return "<1h"
	case *l == 3600:
		return "=1h"
	default:
		return ">1h"
	}
}

func derefU32(p *uint32) any {
	if p == nil {
		return "absent"
	}

	return *p
}

func addrIPPort(a net.Addr) (net.IP, int) {
	switch t := a.(type) {
	case *net.UDPAddr:
		return t.IP, t.Port
	case *net.TCPAddr:
		return t.IP, t.Port
	}

	return nil, 0
}

// Refresh performs a Refresh and updates/checks the model.
func (m *Model) Refresh(c *RawClient, lifetime *uint32) *wire.Msg {
	a, st := m.Alloc(c)
	famOpt := c.RefreshFamily
	c.RefreshFamily = 0
	if a == nil {
		famOpt = 0
	}
	if lifetime != nil && *lifetime == 0 {
		m.LoseNextResponse = false // (a deletion is not repeatable: its retransmission finds nothing)
	}
	resp, _ := m.do(c, wire.MethodRefresh, func(b *wire.Builder) {
		if lifetime != nil {
			b.AddU32(wire.AttrLifetime, *lifetime)
		}
		if famOpt != 0 {
			fam := byte(1)
			if (a.Fam == 6) == (famOpt == 1) {
				fam = 2
			}
			b.Add(wire.AttrRequestedAddressFamily, []byte{fam, 0, 0, 0})
		}
	})
	code := codeOf(resp)
	m.Rec.Tracef("%s Refresh(%v famopt=%d) alloc=%s -> %d", c.Name, derefU32(lifetime), famOpt, st, code)
	m.Rec.Ev("req/refresh")
	userOK := a != nil && a.User == c.User
	switch {
	case famOpt == 2 && userOK && st != Dead:
		// the other family: the server may refuse (443); whatever it answers must be what it did
		m.Rec.FP("refresh/other-family/%d", code)
		if code == 0 {
			lt, _ := resp.Lifetime()
			if lt == 0 {
				a.Gone, a.GoneAt = true, time.Now()
			} else {
				a.Exp = time.Now().Add(time.Duration(lt) * time.Second)
			}
		}
	case st == Live && userOK:
		if code != 0 {
			m.Rec.Violate("refresh-unexpected", fmt.Sprintf("live-%d", code), "%s: Refresh on live allocation answered %d", c.Name, code)

			return resp
		}
		lt, _ := resp.Lifetime()
		want := m.GrantedLifetime(lifetime)
		if time.Duration(lt)*time.Second != want {
			m.Rec.Violate("refresh-lifetime-rule", fmt.Sprintf("req=%v", derefU32(lifetime)), "%s: Refresh requested %v granted %ds want %v", c.Name, derefU32(lifetime), lt, want)
		}
		if lt == 0 {
			a.Gone, a.GoneAt = true, time.Now()
			m.Rec.FP("refresh/delete")
		} else {
			a.Exp = time.Now().Add(time.Duration(lt) * time.Second)
			m.Rec.FP("refresh/ok/life%s/fam=%v", lifeClass(lifetime), famOpt == 1)
		}
	case st == Maybe && userOK:
		m.Rec.Ev("may/refresh-at-expiry")
		if code == 0 {
			lt, _ := resp.Lifetime()
			if lt == 0 {
				a.Gone, a.GoneAt = true, time.Now()
			} else {
				a.Exp = time.Now().Add(time.Duration(lt) * time.Second)
			}
		} else {
			a.Gone, a.GoneAt = true, time.Now()
		}
	default:
		m.Rec.FP("refresh/noalloc/%d", code)
		if code == 0 {
			m.Rec.Violate("refresh-unexpected", "success-without-allocation", "%s: Refresh answered success but the model holds no live allocation for this 5-tuple/user (state %s)", c.Name, st)
		}
	}

	return resp
}

// CreatePermission performs a CreatePermission and updates/checks the model.
func (m *Model) CreatePermission(c *RawClient, peers ...*net.UDPAddr) *wire.Msg {
	a, st := m.Alloc(c)
	mapped := c.MapPeersV6
	c.MapPeersV6 = false
	resp, _ := m.do(c, wire.MethodCreatePermission, func(b *wire.Builder) {
		for _, p := range peers {
			b.Add(wire.AttrXORPeerAddress, wire.EncodeXorAddr(p.IP, p.Port, b.TID, mapped && p.IP.To4() != nil))
		}
		if lt := c.ExtraLifetime; lt != nil {
			b.AddU32(wire.AttrLifetime, *lt)
		}
	})
	c.ExtraLifetime = nil
	if mapped {
		m.Rec.FP("createperm/peer-as-ipv4-mapped-ipv6")
	}
	code := codeOf(resp)
	m.Rec.Tracef("%s CreatePermission(%v) alloc=%s -> %d", c.Name, peers, st, code)
	m.Rec.Ev("req/createpermission")
	if a == nil || st == Dead || a.User != c.User {
		m.Rec.FP("createperm/noalloc/%d", code)
		if code == 0 {
			m.Rec.Violate("perm-unexpected", "success-without-allocation", "%s: CreatePermission success without live allocation", c.Name)
		}

		return resp
	}
	now := time.Now()
	firstBad := -1
	badKind := ""
	for i, p := range peers {
		switch {
		case famOf(p.IP) != a.Fam:
			firstBad, badKind = i, "family"
		case m.Denied(c, p.IP):
			firstBad, badKind = i, "denied"
		}
		if firstBad >= 0 {
			break
		}
	}
	if st == Maybe {
		m.Rec.Ev("may/createperm-at-expiry")
		if code == 0 && firstBad < 0 {
			for _, p := range peers {
				a.Perms[p.IP.String()] = now.Add(m.PermTO)
			}
		}

		return resp
	}
	if firstBad >= 0 {
		m.Rec.FP("createperm/%s/%d/n%d/at%d", badKind, code, len(peers), firstBad)
		if code == 0 {
			m.Rec.Violate("perm-accepted-"+badKind, "success", "%s: CreatePermission with %s peer %s answered success", c.Name, badKind, peers[firstBad])
		}
		// peers listed before the refused one may or may not have been installed
		for _, p := range peers[:firstBad] {
			a.PermUnsure[p.IP.String()] = now.Add(m.PermTO)
		}

		return resp
	}
	if len(peers) == 0 {
		m.Rec.FP("createperm/empty/%d", code)

		return resp
	}
	if code != 0 {
		m.Rec.Violate("perm-unexpected", fmt.Sprintf("valid-%d", code), "%s: valid CreatePermission answered %d", c.Name, code)

		return resp
	}
	for _, p := range peers {
		k := p.IP.String()
		if _, had := a.Perms[k]; had && a.PermState(p.IP) == Live {
			m.Rec.FP("createperm/refresh")
		} else {
			m.Rec.FP("createperm/install/fam%d", a.Fam)
		}
		a.Perms[k] = now.Add(m.PermTO)
		delete(a.PermUnsure, k)
	}

	return resp
}

// ChannelBind performs a ChannelBind and updates/checks the model.
// allocDigest renders the server-side state of c's allocation (hook) as a string.
func (m *Model) allocDigest(c *RawClient) string {
	mgrs := m.W.Srv.VerifManagers()
	if c.Listener >= len(mgrs) {
		return ""
	}
	snap, _, ok := mgrs[c.Listener].VerifSnapshot()
	if !ok {
		return "locked"
	}
	for _, s := range snap {
		if s.Src == c.Addr.String() {
			return fmt.Sprintf("perms=%v chans=%v", s.Permissions, s.Channels)
		}
	}

	return "absent"
}

func (m *Model) ChannelBind(c *RawClient, num uint16, peer *net.UDPAddr) *wire.Msg {
	a, st := m.Alloc(c)
	digestBefore := ""
	if m.cur == nil {
		digestBefore = m.allocDigest(c)
	}
	mapped := c.MapPeersV6 && peer.IP.To4() != nil
	c.MapPeersV6 = false
	resp, _ := m.do(c, wire.MethodChannelBind, func(b *wire.Builder) {
		b.Add(wire.AttrChannelNumber, []byte{byte(num >> 8), byte(num), 0, 0})
		b.Add(wire.AttrXORPeerAddress, wire.EncodeXorAddr(peer.IP, peer.Port, b.TID, mapped))
		if lt := c.ExtraLifetime; lt != nil {
			// a LIFETIME attribute means nothing in this request: bindings and permissions last
			// what the server is configured with
			b.AddU32(wire.AttrLifetime, *lt)
		}
	})
	c.ExtraLifetime = nil
	if mapped {
		m.Rec.FP("chanbind/peer-as-ipv4-mapped-ipv6")
	}
	code := codeOf(resp)
	m.Rec.Tracef("%s ChannelBind(0x%04x,%s) alloc=%s -> %d", c.Name, num, peer, st, code)
	m.Rec.Ev("req/channelbind")
	if a == nil || st == Dead || a.User != c.User {
		m.Rec.FP("chanbind/noalloc/%d", code)
		if code == 0 {
			m.Rec.Violate("chan-unexpected", "success-without-allocation", "%s: ChannelBind success without live allocation", c.Name)
		}

		return resp
	}
	now := time.Now()
	a.gc()
	ps := peer.String()
	install := func() {
		if ch, _ := a.ChanByNum(num); ch != nil && ch.Peer == ps {
			ch.Exp = now.Add(m.ChanTO)
		} else {
			a.Chans = append(a.Chans, &MChan{Num: num, Peer: ps, Exp: now.Add(m.ChanTO)})
		}
		a.Perms[peer.IP.String()] = now.Add(m.PermTO)
		delete(a.PermUnsure, peer.IP.String())
	}
	if st == Maybe {
		m.Rec.Ev("may/chanbind-at-expiry")
		if code == 0 {
			install()
		}

		return resp
	}
	switch {
	case !wire.ValidChannel(num):
		m.Rec.FP("chanbind/range/%s/%d", rangeClass(num), code)
		if code == 0 {
			m.Rec.Violate("chan-accepted-range", rangeClass(num), "%s: ChannelBind of out-of-range number 0x%04x answered success", c.Name, num)
			install() // keep the model in step with what the server now believes
		}

		return resp
	case famOf(peer.IP) != a.Fam:
		m.Rec.FP("chanbind/family/%d", code)
		if code == 0 {
			m.Rec.Violate("chan-accepted-family", "success", "%s: ChannelBind to peer %s of another family answered success", c.Name, peer)
		}

		return resp
	case m.Denied(c, peer.IP):
		m.Rec.FP("chanbind/denied/%d", code)
		if code == 0 {
			m.Rec.Violate("chan-accepted-denied", "success", "%s: ChannelBind to refused peer %s answered success", c.Name, peer)
		}

		return resp
	}
	byNum, nst := a.ChanByNum(num)
	byPeer, pst := a.ChanByPeer(ps)
	numConflict := byNum != nil && byNum.Peer != ps
	peerConflict := byPeer != nil && byPeer.Num != num
	switch {
	case (numConflict && nst == Maybe) || (peerConflict && pst == Maybe):
		m.Rec.Ev("may/chanbind-conflict-at-expiry")
		if code == 0 {
			// the conflicting entry had expired
			out := a.Chans[:0]
			for _, ch := range a.Chans {
				if (numConflict && ch == byNum) || (peerConflict && ch == byPeer) {
					continue
				}
				out = append(out, ch)
			}
			a.Chans = out
			install()
		}
	case numConflict || peerConflict:
		kind := "number"
		if peerConflict {
			kind = "peer"
		}
		if numConflict && peerConflict {
			kind = "both"
		}
		m.Rec.FP("chanbind/conflict-%s/%d", kind, code)
		if code != 0 && digestBefore != "" && digestBefore != "locked" {
			if after := m.allocDigest(c); after != digestBefore && after != "locked" {
				m.Rec.Violate("chan-conflict-side-effect", kind, "%s: rejected ChannelBind(0x%04x,%s) (%s conflict, answered %d) changed the allocation: %s -> %s", c.Name, num, peer, kind, code, digestBefore, after)
			}
		}
		if code == 0 {
			m.Rec.Violate("chan-conflict-accepted", kind, "%s: conflicting ChannelBind(0x%04x,%s) (%s conflict) answered success", c.Name, num, peer, kind)
		} else if code != 400 {
			m.Rec.Violate("chan-conflict-code", fmt.Sprintf("%s-%d", kind, code), "%s: conflicting ChannelBind answered %d, want 400", c.Name, code)
		}
	default:
		isRefresh := byNum != nil && nst == Live
		if code != 0 {
			if isRefresh {
				m.Rec.Violate("chan-rebind-rejected", fmt.Sprintf("%d", code), "%s: repeating the existing binding (0x%04x,%s) answered %d", c.Name, num, peer, code)
			} else {
				m.Rec.Violate("chan-unexpected", fmt.Sprintf("free-%d", code), "%s: ChannelBind(0x%04x,%s) on free number/peer answered %d", c.Name, num, peer, code)
			}

			return resp
		}
		if isRefresh {
			m.Rec.FP("chanbind/refresh")
		} else {
			m.Rec.FP("chanbind/install/%s", rangeClass(num))
		}
		install()
	}

	return resp
}

func rangeClass(n uint16) string {
	switch {
	case n < 0x4000:
		return "below"
	case n == 0x4000:
		return "min"
	case n == 0x7FFF:
		return "max"
	case n <= 0x7FFF:
		return "mid"
	default:
		return "above"
	}
}

// ClientClosed tells the model that a TCP control connection was closed (allocation removed).
func (m *Model) ClientClosed(c *RawClient) {
	if a, st := m.Alloc(c); a != nil && st != Dead {
		a.Gone, a.GoneAt = true, time.Now()
	}
}

// ---------------------------------------------------------------- data-plane steps

// Step is one batch of data-plane submissions judged together at the next quiescent point.
type Step struct {
	M   *Model
	exp []*Expect
}

// Begin starts a step. Anything emitted before is audited as spontaneous.
func (m *Model) Begin() *Step {
	m.Audit(nil)
	s := &Step{M: m}
	m.cur = s

	return s
}

// InStepControl runs a control request of client c (one of the Model's request wrappers) while the
// data submitted so far in this step is still in flight. Datagrams already sent toward c's relayed
// address race with the request inside the server (relay read loops run concurrently with the
// listener), so their verdicts become MAY; allowChan names the channel number a ChannelBind in
// flight may newly attach to a peer. Submissions made after the call get verdicts from the updated
// model, because the request has completed by then.
func (s *Step) InStepControl(c *RawClient, allowChan map[string]uint16, f func()) {
	for _, e := range s.exp {
		if e.Dir == "p2c" && e.Client == c {
			if e.V != May {
				s.M.Rec.Ev("verdict/relaxed-by-in-step-control")
			}
			e.V, e.Reason = May, "in-step-control"
			e.AllowInd = true
			if n, ok := allowChan[e.Peer]; ok && e.AllowChan == 0 {
				e.AllowChan = n
			}
		}
	}
	f()
}

// msgOversize reports whether a client message of n bytes is dropped by the inbound buffer.
func (m *Model) msgOversize(n int) bool { return n >= m.MTU }

// ClientSend submits a Send indication from c toward peer.
func (s *Step) ClientSend(c *RawClient, peer *net.UDPAddr, payload []byte) *Expect {
	m := s.M
	raw := c.SendIndicationBytes(peer, payload)
	e := &Expect{Dir: "c2p", To: peer.String(), Data: payload, Client: c}
	a, st := m.Alloc(c)
	switch {
	case a == nil:
		e.V, e.Reason = MustDrop, "noalloc"
	case st == Dead:
		e.V, e.Reason = MustDrop, "alloc-dead"
	case st == Maybe:
		e.V, e.Reason = May, "alloc-maybe"
	case a.TCP:
		e.V, e.Reason = MustDrop, "tcp-alloc"
	default:
		switch a.PermState(peer.IP) {
		case Live:
			e.V, e.Reason = MustForward, "perm-live"
		case Maybe:
			e.V, e.Reason = May, "perm-maybe"
		default:
			if _, had := a.Perms[peer.IP.String()]; had {
				e.V, e.Reason = MustDrop, "perm-expired"
			} else {
				e.V, e.Reason = MustDrop, "perm-none"
			}
		}
	}
	if a != nil {
		e.FromRelay = a.Relay
	}
	unsendable := len(raw)-wire.HeaderSize > 65535 || (!c.IsTCP && len(raw) > simnet.MaxUDPPayload)
	if e.V != MustDrop && (m.msgOversize(len(raw)) || len(payload) > simnet.MaxUDPPayload || unsendable) {
		e.V, e.Reason = May, "oversize"
		if len(payload) > simnet.MaxUDPPayload || unsendable {
			e.V, e.Reason = MustDrop, "oversize-udp"
		}
	}
	e.desc = fmt.Sprintf("%s Send->%s len=%d %s/%s", c.Name, peer, len(payload), e.V, e.Reason)
	m.Rec.Tracef("  submit %s", e.desc)
	m.Rec.Ev("submit/send")
	m.Rec.Ev("verdict/" + e.V.String())
	if e.V != May {
		m.Rec.FP("send/%s/%s/fam%d", e.Reason, transportOf(c), famOf(peer.IP))
	}
	if !unsendable { // a STUN message cannot carry more than 65535 attribute bytes; a UDP datagram not more than 65507
		_ = c.SendRaw(raw)
	}
	s.exp = append(s.exp, e)

	return e
}

func transportOf(c *RawClient) string {
	if c.IsTCP {
		return "tcp"
	}

	return "udp"
}

// ClientChanData submits a ChannelData message from c on channel num.
func (s *Step) ClientChanData(c *RawClient, num uint16, payload []byte, pad bool) *Expect {
	m := s.M
	raw := wire.EncodeChannelData(num, payload, pad || c.IsTCP)
	e := &Expect{Dir: "c2p", Data: payload, Client: c}
	a, st := m.Alloc(c)
	switch {
	case !wire.ValidChannel(num):
		e.V, e.Reason = MustDrop, "chan-invalid"
	case a == nil:
		e.V, e.Reason = MustDrop, "noalloc"
	case st == Dead:
		e.V, e.Reason = MustDrop, "alloc-dead"
	case st == Maybe:
		// at the allocation's expiry instant: either outcome, but if it is relayed then by the
		// route the binding (if any) prescribes
		e.V, e.Reason = May, "alloc-maybe"
		if ch, cst := a.ChanByNum(num); ch != nil && cst != Dead && !a.TCP {
			e.To = ch.Peer
		}
	case a.TCP:
		e.V, e.Reason = MustDrop, "tcp-alloc"
	default:
		ch, cst := a.ChanByNum(num)
		switch cst {
		case Live:
			e.V, e.Reason, e.To = MustForward, "chan-live", ch.Peer
		case Maybe:
			e.V, e.Reason, e.To = May, "chan-maybe", ch.Peer
		default:
			e.V, e.Reason = MustDrop, "chan-none"
			for _, old := range a.Chans {
				if old.Num == num {
					e.Reason = "chan-expired"
				}
			}
			// bound by some other client?
			for _, oa := range m.Allocs {
				if oa == a || oa.State() != Live {
					continue
				}
				if och, ost := oa.ChanByNum(num); och != nil && ost == Live {
					e.Reason = "chan-otherclient"
					e.To = och.Peer
				}
			}
		}
	}
	if a != nil {
		e.FromRelay = a.Relay
	}
	unsendable := !c.IsTCP && len(raw) > simnet.MaxUDPPayload
	if e.V != MustDrop && (m.msgOversize(len(raw)) || len(payload) > simnet.MaxUDPPayload || unsendable) {
		e.V, e.Reason = May, "oversize"
		if len(payload) > simnet.MaxUDPPayload || unsendable {
			e.V, e.Reason = MustDrop, "oversize-udp"
		}
	}
	e.desc = fmt.Sprintf("%s ChannelData[0x%04x] len=%d %s/%s", c.Name, num, len(payload), e.V, e.Reason)
	m.Rec.Tracef("  submit %s", e.desc)
	m.Rec.Ev("submit/chandata")
	m.Rec.Ev("verdict/" + e.V.String())
	if e.V != May {
		m.Rec.FP("chandata/%s/%s", e.Reason, transportOf(c))
	}
	_ = c.SendRaw(raw)
	s.exp = append(s.exp, e)

	return e
}

// PeerSend submits a datagram from a peer socket toward a relayed address.
func (s *Step) PeerSend(p *Peer, relay *net.UDPAddr, payload []byte) *Expect {
	m := s.M
	e := &Expect{Dir: "p2c", Peer: p.Addr.String(), Data: payload}
	a, st := m.AllocByRelay(relay.String())
	switch {
	case a == nil:
		e.V, e.Reason = MustDrop, "norelay"
	case st == Dead:
		e.V, e.Reason = MustDrop, "alloc-dead"
	case st == Maybe:
		// at the allocation's expiry instant: either outcome, but if it is delivered then in an
		// encapsulation the allocation's state (if it is still there) allows
		e.V, e.Reason = May, "alloc-maybe"
		if !a.TCP {
			e.Client = a.C
			if ch, cst := a.ChanByPeer(p.Addr.String()); ch != nil && cst != Dead {
				e.AllowChan = ch.Num
			}
			e.AllowInd = a.PermState(p.Addr.IP) != Dead
		}
	case a.TCP:
		e.V, e.Reason = MustDrop, "tcp-alloc"
	default:
		e.Client = a.C
		ch, cst := a.ChanByPeer(p.Addr.String())
		pst := a.PermState(p.Addr.IP)
		switch {
		case cst == Live:
			e.V, e.Reason, e.AllowChan = MustForward, "chan-live", ch.Num
		case cst == Maybe && pst == Live:
			e.V, e.Reason, e.AllowChan, e.AllowInd = MustForward, "chan-maybe-perm-live", ch.Num, true
		case cst == Maybe:
			e.V, e.Reason, e.AllowChan, e.AllowInd = May, "chan-maybe", ch.Num, pst != Dead
		case pst == Live:
			e.V, e.Reason, e.AllowInd = MustForward, "perm-live", true
		case pst == Maybe:
			e.V, e.Reason, e.AllowInd = May, "perm-maybe", true
		default:
			e.V, e.Reason = MustDrop, "perm-none"
			if _, had := a.Perms[p.Addr.IP.String()]; had {
				e.Reason = "perm-expired"
			}
		}
	}
	if a != nil && e.Client == nil {
		e.Client = a.C
	}
	if e.V != MustDrop && len(payload) > 1600 {
		// larger than the relay read buffer: may be dropped, must not be delivered altered
		e.V, e.Reason = May, "oversize"
		e.AllowInd = true
		if a != nil {
			if ch, cst := a.ChanByPeer(p.Addr.String()); cst != Dead {
				e.AllowChan = ch.Num
			}
		}
	}
	e.desc = fmt.Sprintf("%s(%s)->relay %s len=%d %s/%s", p.Name, p.Addr, relay, len(payload), e.V, e.Reason)
	m.Rec.Tracef("  submit %s", e.desc)
	m.Rec.Ev("submit/peer")
	m.Rec.Ev("verdict/" + e.V.String())
	if e.V != May {
		tr := "-"
		if e.Client != nil {
			tr = transportOf(e.Client)
		}
		m.Rec.FP("peer/%s/%s/fam%d", e.Reason, tr, famOf(p.Addr.IP))
	}
	_, _ = p.UDP.WriteTo(payload, relay)
	s.exp = append(s.exp, e)

	return e
}

// End waits for quiescence and judges the step.
func (s *Step) End() {
	s.M.W.Settle()
	s.M.cur = nil
	s.M.Audit(s.exp)
}

// ---------------------------------------------------------------- audit

// Audit collects everything the server emitted since the last audit and matches it against the
// expectations of the current step (nil = nothing may be emitted except responses to requests).
func (m *Model) Audit(exp []*Expect) { m.audit(exp, nil) }

// AuditIgnoring audits like Audit(nil) but disregards everything the server sent to client ig
// and everything that left relay sockets the model does not know (ig's own allocations): ig is an
// attacker whose own, possibly valid, traffic is not under test.
func (m *Model) AuditIgnoring(ig *RawClient) { m.audit(nil, ig) }

func (m *Model) audit(exp []*Expect, ig *RawClient) {
	w := m.W
	var ems []*emission
	for _, d := range w.Net.TakeSendLog() {
		if d.Sock == nil || !w.IsServerSock(d.Sock) {
			continue
		}
		if ig != nil {
			if d.Dst.String() == ig.Addr.String() {
				continue
			}
			if _, known := m.ByRelay[d.Src.String()]; !known {
				isL := false
				for _, l := range w.ServerUDP {
					if l == d.Sock {
						isL = true
					}
				}
				if !isL {
					continue
				}
			}
		}
		isListener := false
		for _, l := range w.ServerUDP {
			if l == d.Sock {
				isListener = true
			}
		}
		if !isListener {
			m.Rec.Ev("emit/relay->peer")
			ems = append(ems, &emission{Dir: "c2p", FromRelay: d.Src.String(), To: d.Dst.String(), Data: d.Data})

			continue
		}
		in := decodeInbound(d.Data, d.Src.String())
		var dstClient *RawClient
		for _, c := range w.Clients {
			if !c.IsTCP && c.UDP != nil && c.Listener < len(w.ServerUDP) && w.ServerUDP[c.Listener] == d.Sock && c.Addr.String() == d.Dst.String() {
				dstClient = c
			}
		}
		if em := m.classifyInbound(in, dstClient, d.Dst.String()); em != nil {
			em.ListenerSock = d.Sock
			ems = append(ems, em)
		}
	}
	for _, c := range w.Clients {
		if ig != nil && (c == ig || (c.Name == ig.Name)) {
			c.Collect()
			c.Inbox = nil

			continue
		}
		if c.IsTCP {
			c.Collect()
			keep := c.Inbox[:0]
			for _, in := range c.Inbox {
				if in.STUN != nil && (in.STUN.Class == wire.ClassSuccess || in.STUN.Class == wire.ClassError) {
					if !in.Seen {
						m.checkResponse(in.STUN, c, c.Addr.String())
						in.Seen = true
					}
					keep = append(keep, in)

					continue
				}
				if em := m.classifyInbound(in, c, c.Addr.String()); em != nil {
					ems = append(ems, em)
				}
			}
			c.Inbox = keep
		} else {
			// UDP clients: data-plane messages were already taken from the send log.
			c.Collect()
			keep := c.Inbox[:0]
			for _, in := range c.Inbox {
				if in.STUN != nil && (in.STUN.Class == wire.ClassSuccess || in.STUN.Class == wire.ClassError) {
					keep = append(keep, in)
				}
			}
			c.Inbox = keep
		}
	}
	// peers' receive queues are not needed (the send log is authoritative) - clear them.
	for _, p := range w.Peers {
		p.UDP.Drain()
	}
	m.match(exp, ems)
}

func (m *Model) checkResponse(msg *wire.Msg, dst *RawClient, dstAddr string) {
	var ri *reqInfo
	cands := m.reqs[msg.TID]
	sameParty := func(a, b *RawClient) bool { return a != nil && b != nil && a.Key() == b.Key() }
	for _, r := range cands {
		if sameParty(r.c, dst) && r.method == msg.Method {
			ri = r
		}
	}
	if ri == nil && len(cands) > 0 {
		ri = cands[0]
	}
	m.Rec.Ev("emit/response")
	switch {
	case ri == nil:
		m.Rec.Violate("resp-uncorrelated", "unknown-tid", "response (method %x class %d) to %s carries a transaction id no request used", msg.Method, msg.Class, dstAddr)
	case dst == nil || !sameParty(ri.c, dst):
		m.Rec.Violate("resp-wrongdst", "other-party", "response to request of %s was sent to %s", ri.c.Name, dstAddr)
	case ri.method != msg.Method:
		m.Rec.Violate("resp-uncorrelated", "method", "response method %x answers request method %x", msg.Method, ri.method)
	default:
		ri.responses++
		if ri.responses > 1+ri.retransmits {
			m.Rec.Violate("resp-duplicate", "dup", "request of %s (method %x) answered %d times", ri.c.Name, ri.method, ri.responses)
		}
	}
}

func (m *Model) classifyInbound(in Inbound, c *RawClient, dstAddr string) *emission {
	em := &emission{Dir: "p2c", Client: c, ToAddr: dstAddr}
	switch {
	case in.STUN != nil && (in.STUN.Class == wire.ClassSuccess || in.STUN.Class == wire.ClassError):
		if c == nil || !c.IsTCP {
			m.checkResponse(in.STUN, c, dstAddr)
		}

		return nil
	case in.STUN != nil && in.STUN.Class == wire.ClassIndication && in.STUN.Method == wire.MethodData:
		em.Kind = "ind"
		if ip, port, ok := in.STUN.XorAddr(wire.AttrXORPeerAddress); ok {
			em.Peer = (&net.UDPAddr{IP: ip, Port: port}).String()
		}
		em.Data, _ = in.STUN.Get(wire.AttrData)
		m.Rec.Ev("emit/data-indication")
	case in.STUN != nil && in.STUN.Class == wire.ClassIndication && in.STUN.Method == wire.MethodConnectionAttempt:
		em.Kind = "connattempt"
		if ip, port, ok := in.STUN.XorAddr(wire.AttrXORPeerAddress); ok {
			em.Peer = (&net.TCPAddr{IP: ip, Port: port}).String()
		}
		if v, ok := in.STUN.Get(wire.AttrConnectionID); ok && len(v) == 4 {
			em.ConnID = uint32(v[0])<<24 | uint32(v[1])<<16 | uint32(v[2])<<8 | uint32(v[3])
		}
		m.Rec.Ev("emit/connection-attempt")
	case in.IsChan:
		em.Kind = "chan"
		em.Chan = in.Chan
		em.Data = in.Payload
		m.Rec.Ev("emit/channeldata")
	default:
		em.Kind = "garbage"
		em.Data = in.Raw
		if len(in.Raw) >= 4 && in.Raw[0]>>6 != 0 {
			num := uint16(in.Raw[0])<<8 | uint16(in.Raw[1])
			m.Rec.Violate("emit-badchannel", rangeClass(num), "server sent a ChannelData-like message with out-of-range number 0x%04x to %s", num, dstAddr)

			return nil
		}
		m.Rec.Ev("emit/garbage")
	}

	return em
}

// ConnAttempts collects ConnectionAttempt emissions for the TCP-relay checks (set by Audit).
func (m *Model) match(exp []*Expect, ems []*emission) {
	for _, em := range ems {
		if em.Kind == "connattempt" {
			// judged by the C16 monitor; keep for it
			m.W.mu.Lock()
			m.W.connAttempts = append(m.W.connAttempts, ConnAttempt{Client: em.Client, Peer: em.Peer, ID: em.ConnID, At: time.Now()})
			m.W.mu.Unlock()

			continue
		}
		var hit *Expect
		for pass := 0; pass < 2 && hit == nil; pass++ {
			for _, e := range exp {
				if e.matched > 0 || e.V == MustDrop {
					continue
				}
				if (pass == 0) != (e.V == MustForward) {
					continue
				}
				if emissionMatches(e, em) {
					hit = e

					break
				}
			}
		}
		if hit != nil {
			hit.matched++
			m.Rec.Ev("matched/" + hit.V.String())

			continue
		}
		m.explain(exp, em)
	}
	for _, e := range exp {
		if e.V == MustForward && e.matched == 0 {
			kind := "lost-" + e.Reason
			if _, ok := kindProps[kind]; !ok {
				kind = "lost-perm-live"
				if e.Reason == "chan-live" || e.Reason == "chan-maybe-perm-live" {
					kind = "lost-chan-live"
				}
			}
			m.Rec.Violate(kind, e.Dir+"/"+lenClass(len(e.Data)), "authorised datagram was not relayed: %s", e.desc)
		}
		if e.V == MustDrop {
			m.Rec.Ev("dropped-silently")
		}
	}
}

func lenClass(n int) string {
	switch {
	case n <= 1500:
		return "<=1500"
	case n <= 1600:
		return "1501-1600"
	default:
		return ">1600"
	}
}

func emissionMatches(e *Expect, em *emission) bool {
	if e.Dir != em.Dir || !bytes.Equal(e.Data, em.Data) {
		return false
	}
	if e.Dir == "c2p" {
		return e.FromRelay == em.FromRelay && e.To == em.To
	}
	if e.Client == nil || em.Client == nil || em.Client.Key() != e.Client.Key() {
		return false
	}
	switch em.Kind {
	case "ind":
		return e.AllowInd && em.Peer == e.Peer
	case "chan":
		return e.AllowChan != 0 && em.Chan == e.AllowChan
	}

	return false
}

// explain classifies an emission that no open expectation justifies.
func (m *Model) explain(exp []*Expect, em *emission) {
	desc := fmt.Sprintf("%s emission relay=%s to=%s kind=%s peer=%s chan=0x%04x len=%d toaddr=%s", em.Dir, em.FromRelay, em.To, em.Kind, em.Peer, em.Chan, len(em.Data), em.ToAddr)
	// same payload?
	for _, e := range exp {
		if e.Dir != em.Dir || !bytes.Equal(e.Data, em.Data) {
			continue
		}
		if em.Dir == "p2c" && em.Kind == "chan" && e.AllowChan != em.Chan {
			// ChannelData toward a client under a number that is not (or no longer) bound to the sender
			m.Rec.Violate("emit-chan-unbound", e.Reason, "ChannelData 0x%04x reached %s for a datagram of %s, but that number is not bound to this peer now (model: %s): %s", em.Chan, em.ToAddr, e.Peer, e.Reason, e.desc)
		}
		switch {
		case emissionMatches(e, em) && e.matched > 0:
			m.Rec.Violate("emit-duplicate", em.Dir, "datagram relayed more than once: %s", e.desc)
		case e.V == MustDrop && routeMatches(e, em):
			kind := "fwd-" + e.Reason
			if _, ok := kindProps[kind]; !ok {
				kind = "fwd-other"
			}
			m.Rec.Violate(kind, em.Dir, "datagram relayed although it must be dropped (%s): %s -> %s", e.Reason, e.desc, desc)
		case e.Dir == "p2c" && em.Client != nil && e.Client != nil && em.Client.Key() == e.Client.Key():
			m.Rec.Violate("emit-misattributed", em.Kind, "payload delivered with wrong attribution: %s -> %s", e.desc, desc)
		default:
			m.Rec.Violate("emit-misrouted", em.Dir, "payload left by a wrong route: %s -> %s", e.desc, desc)
		}

		return
	}
	// same route, different payload?
	for _, e := range exp {
		if e.Dir == em.Dir && e.matched == 0 && routeMatches(e, em) {
			m.Rec.Violate("emit-altered", fmt.Sprintf("%s/%s", em.Dir, lenClass(len(e.Data))), "payload altered in transit (sent %d bytes, emitted %d bytes): %s -> %s", len(e.Data), len(em.Data), e.desc, desc)

			return
		}
	}
	if em.Kind == "garbage" {
		m.Rec.Violate("emit-garbage", em.Dir, "server sent undecodable bytes: %s", desc)

		return
	}
	m.Rec.Violate("emit-spontaneous", em.Dir, "server emitted data no submission explains: %s", desc)
}

func routeMatches(e *Expect, em *emission) bool {
	if e.Dir == "c2p" {
		return (e.FromRelay == "" || e.FromRelay == em.FromRelay) && (e.To == "" || e.To == em.To)
	}

	return true
}

// ConnAttempt is a ConnectionAttempt indication observed by a client.
type ConnAttempt struct {
	Client *RawClient
	Peer   string
	ID     uint32
	At     time.Time
}

// TakeConnAttempts returns and clears the observed ConnectionAttempt indications.
func (w *World) TakeConnAttempts() []ConnAttempt {
	w.mu.Lock()
	defer w.mu.Unlock()
	out := w.connAttempts
	w.connAttempts = nil

	return out
}

// Retransmitted tells the response monitor that the request with tid was sent again by c.
func (m *Model) Retransmitted(c *RawClient, tid [12]byte) {
	for _, r := range m.reqs[tid] {
		if r.c == c {
			r.retransmits++
		}
	}
}

// Connect performs an RFC 6062 Connect request through the response monitor.
func (m *Model) Connect(c *RawClient, peer *net.TCPAddr) *wire.Msg {
	resp, _ := m.do(c, wire.MethodConnect, func(b *wire.Builder) {
		b.AddXorAddr(wire.AttrXORPeerAddress, peer.IP, peer.Port)
	})
	m.Rec.Ev("req/connect")

	return resp
}
