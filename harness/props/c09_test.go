package props

import (
	"bytes"
	"crypto/ecdsa"
	"crypto/elliptic"
	crand "crypto/rand"
	"crypto/tls"
	"crypto/x509"
	"crypto/x509/pkix"
	"encoding/binary"
	"fmt"
	"github.com/pion/turn/v5"
	"math/big"
	"math/rand"
	"net"
	"runtime"
	"strings"
	"sync"
	"testing"
	"time"

	"testing/synctest"

	"github.com/pion/turn/v5/verifharness/sim"
	"github.com/pion/turn/v5/verifharness/simnet"
	"github.com/pion/turn/v5/verifharness/wire"
)

// C09 (server side): no byte string delivered to a listener can crash, wedge or spin the
// server, and afterwards it still serves well-formed traffic from the same and other parties.
//
// Oracles: process survival (driver: a dead child with pion/turn frames is a violation),
// quiescence after every input (synctest.Wait returns; a spin trips the log-call budget and
// panics with the spinning stack), and a liveness probe after every batch: Binding from the
// attacker and from a bystander, an authenticated Refresh of a bystander's allocation made
// before the attack, relay through the bystander's permission and channel in both directions,
// bystander state snapshot unchanged.

func init() {
	sim.RegisterKind("liveness-binding", "C09")
	sim.RegisterKind("liveness-refresh", "C09")
	sim.RegisterKind("liveness-relay", "C09")
	sim.RegisterKind("victim-state-changed", "C09", "C04")
	sim.RegisterKind("client-classification", "C09")
	sim.RegisterKind("client-blocked", "C09", "C13")
	sim.RegisterKind("client-liveness", "C09")
}

type fuzzGen struct {
	rng   *rand.Rand
	w     *sim.World
	att   *sim.RawClient
	peers []*net.UDPAddr
	mtu   int
}

func (g *fuzzGen) tid() (tid [12]byte) {
	if g.w != nil {
		return g.w.NewTID()
	}
	g.rng.Read(tid[:])

	return tid
}

// validMsg builds a well-formed message of a random method/class with plausible attributes.
func (g *fuzzGen) validMsg(signed bool) *wire.Builder {
	methods := []uint16{wire.MethodBinding, wire.MethodAllocate, wire.MethodRefresh, wire.MethodSend, wire.MethodData, wire.MethodCreatePermission,
		wire.MethodChannelBind, wire.MethodConnect, wire.MethodConnectionBind, wire.MethodConnectionAttempt, uint16(g.rng.Intn(0x1000))}
	method := pick(g.rng, methods)
	class := uint8(g.rng.Intn(4))
	if g.rng.Intn(3) != 0 {
		class = wire.ClassRequest
		if method == wire.MethodSend || method == wire.MethodData || method == wire.MethodConnectionAttempt {
			class = wire.ClassIndication
		}
	}
	b := wire.NewBuilder(method, class, g.tid())
	p := pick(g.rng, g.peers)
	nattr := g.rng.Intn(6)
	for i := 0; i < nattr; i++ {
		switch g.rng.Intn(14) {
		case 0:
			b.Add(wire.AttrRequestedTransport, []byte{byte(pick(g.rng, []int{17, 6, 0, 255})), 0, 0, 0})
		case 1:
			b.AddU32(wire.AttrLifetime, pick(g.rng, []uint32{0, 1, 600, 3600, 1<<32 - 1}))
		case 2:
			b.AddXorAddr(wire.AttrXORPeerAddress, p.IP, p.Port)
		case 3:
			b.Add(wire.AttrChannelNumber, []byte{byte(0x40 + g.rng.Intn(0x40)), byte(g.rng.Intn(256)), 0, 0})
		case 4:
			d := make([]byte, g.rng.Intn(64))
			g.rng.Read(d)
			b.Add(wire.AttrData, d)
		case 5:
			b.Add(wire.AttrEvenPort, []byte{byte(g.rng.Intn(256))})
		case 6:
			tok := make([]byte, 8)
			g.rng.Read(tok)
			b.Add(wire.AttrReservationToken, tok)
		case 7:
			b.Add(wire.AttrRequestedAddressFamily, []byte{byte(g.rng.Intn(4)), 0, 0, 0})
		case 8:
			b.AddU32(wire.AttrConnectionID, g.rng.Uint32())
		case 9:
			b.Add(wire.AttrDontFragment, nil)
		case 10:
			b.Add(uint16(g.rng.Intn(0x8000)), make([]byte, g.rng.Intn(12))) // comprehension-required, mostly unknown
		case 11:
			b.Add(uint16(0x8000+g.rng.Intn(0x8000)), make([]byte, g.rng.Intn(12)))
		case 12: // raw attribute with a wrong size for a known type
			typ := pick(g.rng, []uint16{wire.AttrRequestedTransport, wire.AttrLifetime, wire.AttrXORPeerAddress, wire.AttrChannelNumber, wire.AttrEvenPort, wire.AttrReservationToken, wire.AttrRequestedAddressFamily, wire.AttrConnectionID, wire.AttrErrorCode, wire.AttrXORMappedAddress})
			v := make([]byte, g.rng.Intn(24))
			g.rng.Read(v)
			if len(v) >= 2 && g.rng.Intn(2) == 0 {
				v[0], v[1] = 0, byte(1+g.rng.Intn(2))
			}
			b.Add(typ, v)
		case 13:
			b.Add(wire.AttrSoftware, []byte("fuzz"))
		}
	}
	if signed {
		g.att.AddAuth(b)
	}
	if g.rng.Intn(4) == 0 {
		b.AddFingerprint()
	}

	return b
}

func (g *fuzzGen) mutate(raw []byte) []byte {
	b := append([]byte{}, raw...)
	if len(b) == 0 {
		return b
	}
	switch g.rng.Intn(9) {
	case 0: // bit flips
		for i := 0; i < 1+g.rng.Intn(4); i++ {
			b[g.rng.Intn(len(b))] ^= 1 << g.rng.Intn(8)
		}
	case 1: // message length field
		if len(b) >= 4 {
			binary.BigEndian.PutUint16(b[2:4], pick(g.rng, []uint16{0, 1, 3, 4, uint16(len(b)), uint16(len(b) - 19), uint16(len(b) - 21), 0xFFEC, 0xFFF0, 0xFFFC, 0xFFFF, uint16(g.rng.Intn(65536))}))
		}
	case 2: // truncate
		b = b[:g.rng.Intn(len(b))]
	case 3: // attribute length overrun
		if len(b) >= 24 {
			binary.BigEndian.PutUint16(b[22:24], pick(g.rng, []uint16{uint16(len(b)), 0xFFFF, uint16(len(b) - 23), 0x8000, uint16(g.rng.Intn(65536))}))
		}
	case 4: // append garbage
		extra := make([]byte, 1+g.rng.Intn(40))
		g.rng.Read(extra)
		b = append(b, extra...)
	case 5: // type field: every class/method pair incl. undefined, and the two leading bits
		if len(b) >= 2 {
			binary.BigEndian.PutUint16(b[0:2], uint16(g.rng.Intn(65536)))
		}
	case 6: // duplicate the attribute area
		if len(b) > 20 {
			b = append(b, b[20:]...)
			binary.BigEndian.PutUint16(b[2:4], uint16(len(b)-20))
		}
	case 7: // cookie
		if len(b) >= 8 {
			b[4+g.rng.Intn(4)] ^= byte(1 + g.rng.Intn(255))
		}
	case 8: // byte overwrite
		b[g.rng.Intn(len(b))] = byte(g.rng.Intn(256))
	}

	return b
}

// sized builds a well-formed frame whose total size sits at a buffer boundary: the configured
// inbound MTU, the default 1600, or just beside them.
func (g *fuzzGen) sized() []byte {
	mtu := g.mtu
	if mtu == 0 {
		mtu = 1600
	}
	total := pick(g.rng, []int{mtu - 4, mtu - 1, mtu, mtu + 1, mtu + 4, mtu + 100, (mtu + 1600) / 2, 1596, 1599, 1600, 1601, 1604, 2000})
	if total < 24 {
		total = 24
	}
	if total > 60000 {
		total = 60000
	}
	if g.rng.Intn(2) == 0 {
		return wire.EncodeChannelData(uint16(0x4000+g.rng.Intn(0x4000)), make([]byte, (total-4)&^3), true)
	}
	p := pick(g.rng, g.peers)
	b := wire.NewBuilder(wire.MethodSend, wire.ClassIndication, g.tid())
	b.AddXorAddr(wire.AttrXORPeerAddress, p.IP, p.Port)
	n := total - 20 - 4 - len(wire.EncodeXorAddr(p.IP, p.Port, [12]byte{}, false)) - 4
	if n < 0 {
		n = 0
	}
	b.Add(wire.AttrData, make([]byte, n&^3))

	return b.Bytes()
}

// hostileNonce: a well-formed request with USERNAME, REALM and MESSAGE-INTEGRITY whose NONCE the
// attacker made up: empty, one or two characters, not base36, far too long, or the server's own
// nonce cut short, extended or with one character changed.
func (g *fuzzGen) hostileNonce() []byte {
	own := g.att.Nonce
	cands := []string{"", "0", "1", "z", "ZZ", "00", "zzzz", "0000", "-1", "+", " ", "\x00", "!!!!", "zzzzzzzzzzzzzzzzzzzzzzzzzzzzzzzzzzzzzzzzzzzzzzzz",
		strings.Repeat("z", 128), strings.Repeat("9", 763), "0" + own, own + "0", strings.ToLower(own)}
	if len(own) > 1 {
		cands = append(cands, own[:1], own[:len(own)/2], own[1:], own[:len(own)-1])
		k := g.rng.Intn(len(own))
		cands = append(cands, own[:k]+string("0Zz-"[g.rng.Intn(4)])+own[k+1:])
	}
	b := g.validMsg(false)
	b.Add(wire.AttrUsername, []byte(g.att.User))
	b.Add(wire.AttrRealm, []byte(g.att.Realm))
	b.Add(wire.AttrNonce, []byte(pick(g.rng, cands)))
	b.AddIntegrity(g.att.LTKey())

	return b.Bytes()
}

func (g *fuzzGen) input() ([]byte, string) {
	if g.rng.Intn(10) == 0 {
		return g.sized(), "sized-near-buffer"
	}
	if g.rng.Intn(12) == 0 {
		return g.hostileNonce(), "made-up-nonce-signed"
	}
	switch g.rng.Intn(12) {
	case 0: // pure random
		b := make([]byte, g.rng.Intn(120))
		g.rng.Read(b)

		return b, "random"
	case 1: // structural extremes: every 2-bit prefix x length fields
		b := make([]byte, pick(g.rng, []int{0, 1, 3, 4, 8, 12, 19, 20, 21, 24, 100}))
		g.rng.Read(b)
		if len(b) > 0 {
			b[0] = b[0]&0x3F | byte(g.rng.Intn(4))<<6
		}
		if len(b) >= 4 {
			binary.BigEndian.PutUint16(b[2:4], pick(g.rng, []uint16{0, 4, 0xFFEC, 0xFFED, 0xFFF0, 0xFFF8, 0xFFFC, 0xFFFD, 0xFFFE, 0xFFFF}))
		}
		if len(b) >= 8 && g.rng.Intn(2) == 0 {
			binary.BigEndian.PutUint32(b[4:8], wire.MagicCookie)
		}

		return b, "extreme-header"
	case 2: // ChannelData shapes
		l := pick(g.rng, []int{0, 1, 3, 4, 5, 100})
		num := pick(g.rng, []uint16{0x4000, 0x4001, 0x7FFF, 0x3FFF, 0x8000, uint16(g.rng.Intn(65536))})
		b := wire.EncodeChannelData(num, make([]byte, l), g.rng.Intn(2) == 0)
		if g.rng.Intn(2) == 0 {
			binary.BigEndian.PutUint16(b[2:4], pick(g.rng, []uint16{0xFFF8, 0xFFFC, 0xFFFF, uint16(l + 1), uint16(l + 5)}))
		}

		return b, "channeldata-shape"
	case 3, 4, 5:
		return g.validMsg(true).Bytes(), "valid-signed"
	case 6:
		return g.validMsg(false).Bytes(), "valid-unsigned"
	case 7, 8:
		return g.mutate(g.validMsg(true).Bytes()), "signed-then-mutated"
	default:
		// mutate first, sign afterwards: malformed attributes under a valid MESSAGE-INTEGRITY
		b := g.validMsg(false)
		typ := pick(g.rng, []uint16{wire.AttrXORPeerAddress, wire.AttrChannelNumber, wire.AttrLifetime, wire.AttrRequestedTransport, wire.AttrConnectionID, wire.AttrReservationToken, wire.AttrEvenPort, wire.AttrRequestedAddressFamily, wire.AttrData})
		v := make([]byte, g.rng.Intn(24))
		g.rng.Read(v)
		if len(v) >= 2 {
			v[0], v[1] = 0, byte(1+g.rng.Intn(2))
		}
		b.Add(typ, v)
		g.att.AddAuth(b)

		return b.Bytes(), "malformed-then-signed"
	}
}

func runC09Server(t *testing.T, rng *rand.Rand, rec *sim.Rec, tier string, caseNo int) {
	cfg := sim.Config{
		Realm: "verif.test", Users: map[string]string{"alice": "pw-a", "mallory": "pw-m"},
		UDPListeners: []*net.UDPAddr{{IP: sim.ServerIP4, Port: 3478}},
		TCPListeners: []*net.TCPAddr{{IP: sim.ServerIP4, Port: 3478}},
		InboundMTU:   pick(rng, []int{0, 0, 512, 1000, 1200, 9000}),
	}
	w, err := sim.NewWorld(cfg, rec, rng, true)
	if err != nil {
		t.Fatal(err)
	}
	defer w.Shutdown()
	w.Log.Budget = 400000 // a busy loop in the library trips this and panics with the spinning stack
	m := sim.NewModel(w)
	victim, _ := w.NewUDPClient("victim", net.IPv4(10, 1, 0, 1).To4(), 5000, 0, "alice")
	bystander, _ := w.NewUDPClient("bystander", net.IPv4(10, 1, 0, 2).To4(), 5001, 0, "alice")
	p1, _ := w.NewPeer("p1", net.IPv4(10, 2, 0, 1).To4(), 7000)
	p2, _ := w.NewPeer("p2", net.IPv4(10, 2, 0, 2).To4(), 7001)
	m.Allocate(victim, sim.AllocOpts{Lifetime: sim.U32(3000)})
	m.CreatePermission(victim, p1.Addr)
	m.ChannelBind(victim, 0x4444, p2.Addr)
	va, _ := m.Alloc(victim)
	if va == nil {
		rec.Inconclusive("setup failed")

		return
	}
	overTCP := caseNo%3 == 2
	var att *sim.RawClient
	newAttacker := func() *sim.RawClient {
		var c *sim.RawClient
		if overTCP {
			c, err = w.NewTCPClient("attacker", net.IPv4(10, 1, 0, 66).To4(), 0, 0, "mallory")
			if err == nil && rng.Intn(2) == 0 {
				segRng := rand.New(rand.NewSource(rng.Int63()))
				c.TCP.Peer().SetSeg(func(avail int) int { return 1 + segRng.Intn(min(avail, 7)) })
			}
		} else {
			c, err = w.NewUDPClient("attacker", net.IPv4(10, 1, 0, 66).To4(), 6666, 0, "mallory")
		}
		if err != nil {
			t.Fatal(err)
		}
		// a nonce, so that signed inputs pass authentication and reach the handlers
		tid := w.NewTID()
		if r := c.Exchange(wire.NewBuilder(wire.MethodRefresh, wire.ClassRequest, tid).Bytes(), tid); r != nil {
			if n, ok := r.Get(wire.AttrNonce); ok {
				c.Nonce = string(n)
			}
		}

		return c
	}
	att = newAttacker()
	g := &fuzzGen{rng: rng, w: w, att: att, mtu: cfg.InboundMTU, peers: []*net.UDPAddr{p1.Addr, p2.Addr, {IP: net.IPv4(10, 2, 0, 9).To4(), Port: 9}, {IP: net.ParseIP("fd00:2::1"), Port: 7}}}
	if rng.Intn(2) == 0 {
		// attacker has an allocation of its own, so that authenticated inputs reach allocation code
		att.Allocate(sim.AllocOpts{})
	}
	victimSnap := func() string {
		for _, mgr := range w.Srv.VerifManagers() {
			snap, _, ok := mgr.VerifSnapshot()
			if !ok {
				return "locked"
			}
			for _, s := range snap {
				if s.Src == victim.Addr.String() {
					return fmt.Sprintf("%s %s %v %v", s.UserID, s.Relay, s.Permissions, s.Channels)
				}
			}
		}

		return "absent"
	}
	snap0 := victimSnap()
	batches := 8
	perBatch := 25
	for bi := 0; bi < batches && len(rec.Violations()) == 0; bi++ {
		rec.SetStep(bi)
		for k := 0; k < perBatch; k++ {
			in, class := g.input()
			rec.Ev("input/" + class)
			rec.FP("input/%s/%s/len%s", transportName(overTCP), class, lenBucket(len(in)))
			if overTCP && att.TCP.Closed() {
				att = newAttacker()
				g.att = att
			}
			if !overTCP && len(in) > 65507 {
				in = in[:65507]
			}
			_ = att.SendRaw(in)
			if overTCP && rng.Intn(3) == 0 {
				// the server closes connections that carry un-frameable bytes; keep feeding new ones
				w.Settle()
				if att.TCP.PeerClosedWrite() {
					att.Close()
					att = newAttacker()
					g.att = att
				}
			}
			if rng.Intn(4) == 0 {
				w.Settle()
			}
		}
		w.Settle()
		att.Collect()
		att.TakeInbox()
		m.AuditIgnoring(att)
		// ---- liveness probe
		for _, c := range []*sim.RawClient{bystander} {
			tid := w.NewTID()
			m.Track(c, tid, wire.MethodBinding)
			r := c.Exchange(wire.NewBuilder(wire.MethodBinding, wire.ClassRequest, tid).Bytes(), tid)
			if r == nil || r.Class != wire.ClassSuccess {
				rec.Violate("liveness-binding", c.Name, "after hostile input the server did not answer a Binding request of %s", c.Name)
			}
		}
		if !overTCP {
			tid := w.NewTID()
			m.Track(att, tid, wire.MethodBinding)
			r := att.Exchange(wire.NewBuilder(wire.MethodBinding, wire.ClassRequest, tid).Bytes(), tid)
			if r == nil || r.Class != wire.ClassSuccess {
				rec.Violate("liveness-binding", "same-party", "after hostile input the server did not answer a Binding request of the attacker's own address")
			}
		}
		if r := m.Refresh(victim, sim.U32(3000)); r == nil || r.Class != wire.ClassSuccess {
			rec.Violate("liveness-refresh", "victim", "authenticated Refresh of the pre-existing allocation failed after hostile input (%d)", codeOfMsg(r))
		}
		m.CreatePermission(victim, p1.Addr)
		st := m.Begin()
		st.ClientSend(victim, p1.Addr, []byte(fmt.Sprintf("live-%d-send", bi)))
		st.ClientChanData(victim, 0x4444, []byte(fmt.Sprintf("live-%d-chan", bi)), true)
		st.PeerSend(p1, va.RelayUDP, []byte(fmt.Sprintf("live-%d-p1", bi)))
		st.PeerSend(p2, va.RelayUDP, []byte(fmt.Sprintf("live-%d-p2", bi)))
		st.End()
		if s := victimSnap(); s != snap0 {
			rec.Violate("victim-state-changed", "snapshot", "hostile input from another 5-tuple changed the bystander's allocation: %q -> %q", snap0, s)
		}
		for _, mgr := range w.Srv.VerifManagers() {
			if held := mgr.VerifLocksHeld(); len(held) > 0 {
				rec.Violate("lock-held", "after-fuzz", "mutex held after hostile input: %v", held)
			}
		}
		rec.Ev("liveness-probes")
		// the next ChannelBind refresh keeps the channel alive for long cases
		m.ChannelBind(victim, 0x4444, p2.Addr)
		w.Sleep(time.Duration(rng.Intn(20)) * time.Second)
		m.Audit(nil)
	}
	rec.SetSample(map[string]any{"transport": transportName(overTCP), "inbound_mtu": cfg.InboundMTU, "inputs": batches * perBatch, "log_calls": w.Log.TotalCalls()})
}

func lenBucket(n int) string {
	switch {
	case n < 4:
		return "<4"
	case n < 20:
		return "<20"
	case n < 100:
		return "<100"
	default:
		return ">=100"
	}
}

func init() {
	register("C09", PropDef{
		Bubble: true,
		Cases: func(tier string) int {
			if tier == "thorough" {
				return 20000
			}

			return 600
		},
		Run: func(t *testing.T, rng *rand.Rand, rec *sim.Rec, tier string, caseNo int) {
			if caseNo%40 == 19 {
				// the client's other parser of untrusted bytes: the ConnectionBind reply read
				// off a fresh data connection (same routine as C10 uses, hostile lengths only)
				runC10Bind(t, rng, rec, tier, 3+4*(caseNo/40))

				return
			}
			if caseNo%40 == 22 {
				runC09TLS(t, rng, rec, tier, caseNo)

				return
			}
			if caseNo%40 == 20 || caseNo%40 == 21 {
				runC09ClientStream(t, rng, rec, tier, caseNo/40*2+caseNo%40-20)

				return
			}
			if caseNo%40 == 16 || caseNo%40 == 18 || caseNo%40 == 17 {
				runC09HostileServer(t, rng, rec, tier, caseNo%40)

				return
			}
			if caseNo%40 == 23 || caseNo%40 == 24 {
				runC09OddLifetime(t, rng, rec, tier, caseNo/40*2+caseNo%40-23)

				return
			}
			if caseNo%4 == 3 {
				runC09Client(t, rng, rec, tier, caseNo/4)

				return
			}
			runC09Server(t, rng, rec, tier, caseNo)
		},
	})
}

// ---------------------------------------------------------------- client side

// runC09OddLifetime: a server whose Allocate success (and Refresh successes) carry a LIFETIME the
// client cannot halve into a sensible refresh period: 0, 1, or the largest 32-bit value. The
// client process must survive, must not flood the server with Refresh requests, and must still
// carry out a transaction afterwards.
func runC09OddLifetime(t *testing.T, rng *rand.Rand, rec *sim.Rec, tier string, caseNo int) {
	n := simnet.New()
	srv, err := sim.NewScriptedServer(n, sim.ServerIP4, 3478)
	if err != nil {
		t.Fatal(err)
	}
	lives := []uint32{0, 1, 0xFFFFFFFF, 0x80000000, 2, 60, 59, 61, 120, 119, 30, 3600, 600}
	life := lives[caseNo%len(lives)]
	var mu sync.Mutex
	refreshes := 0
	srv.SetHandler(func(s *sim.ScriptedServer, from *net.UDPAddr, ev sim.SrvEvent) {
		if ev.Msg == nil || ev.Msg.Class != wire.ClassRequest {
			return
		}
		m := ev.Msg
		_, hasMI := m.Get(wire.AttrMessageIntegrity)
		switch {
		case m.Method == wire.MethodBinding:
			b := wire.NewBuilder(wire.MethodBinding, wire.ClassSuccess, m.TID)
			b.AddXorAddr(wire.AttrXORMappedAddress, from.IP, from.Port)
			s.Send(from, b.Bytes(), 0)
		case !hasMI:
			s.Send(from, errResp(m.Method, m.TID, 401, "nonce-0"), 0)
		case m.Method == wire.MethodAllocate:
			b := wire.NewBuilder(wire.MethodAllocate, wire.ClassSuccess, m.TID)
			b.AddXorAddr(wire.AttrXORRelayedAddress, sim.RelayIP4, 50000)
			b.AddU32(wire.AttrLifetime, life)
			b.AddXorAddr(wire.AttrXORMappedAddress, from.IP, from.Port)
			s.Send(from, b.Bytes(), 0)
		case m.Method == wire.MethodRefresh:
			mu.Lock()
			refreshes++
			over := refreshes > 5000
			mu.Unlock()
			if over {
				return
			}
			b := wire.NewBuilder(wire.MethodRefresh, wire.ClassSuccess, m.TID)
			b.AddU32(wire.AttrLifetime, life)
			s.Send(from, b.Bytes(), 0)
		default:
			s.Send(from, wire.NewBuilder(m.Method, wire.ClassSuccess, m.TID).Bytes(), 0)
		}
	})
	defer srv.Close()
	logs := sim.NewLogSink()
	logs.Budget = 400000
	rc, err := sim.NewRealClient(n, net.IPv4(10, 1, 0, 1).To4(), 5000, "10.0.0.1:3478", "alice", "pw-a", "verif.test", 100*time.Millisecond, logs, nil)
	if err != nil {
		t.Fatal(err)
	}
	defer func() { rc.Client.Close(); _ = rc.Conn.Close() }()
	if err := rc.Client.Listen(); err != nil {
		t.Fatal(err)
	}
	done := make(chan error, 1)
	var conn net.PacketConn
	go func() {
		c, err := rc.Client.Allocate()
		conn = c
		done <- err
	}()
	select {
	case err = <-done:
	case <-time.After(5 * time.Minute):
		rec.Violate("client-blocked", "odd-lifetime/allocate", "Allocate did not return within 5 virtual minutes (server grants LIFETIME %d)", life)

		return
	}
	rec.FP("client/odd-lifetime/%d/allocate-err=%v", life, err != nil)
	// ten virtual seconds with such an allocation (if the client took it)
	time.Sleep(10 * time.Second)
	mu.Lock()
	r := refreshes
	mu.Unlock()
	if r > 100 {
		rec.Violate("client-blocked", "odd-lifetime/refresh-flood", "the client sent %d Refresh requests within 10 s after an Allocate success with LIFETIME %d", r, life)

		return
	}
	bdone := make(chan error, 1)
	go func() { _, err := rc.Client.SendBindingRequest(); bdone <- err }()
	select {
	case err := <-bdone:
		if err != nil {
			rec.Violate("client-liveness", "odd-lifetime/follow-up", "Binding transaction after an Allocate success with LIFETIME %d failed: %v", life, err)
		}
	case <-time.After(time.Minute):
		rec.Violate("client-blocked", "odd-lifetime/follow-up", "Binding transaction after an Allocate success with LIFETIME %d did not return", life)
	}
	if conn != nil {
		_ = conn.Close()
	}
	rec.SetSample(map[string]any{"kind": "odd-lifetime", "lifetime": life, "refreshes_in_10s": r})
}

// runC09HostileServer: every request of the client is answered by a well-formed but unhelpful
// response - 438 Stale Nonce with yet another nonce, for ever. Each API call must give up after a
// bounded number of requests (the client's own retry cap is 3) instead of spinning; the server
// stops answering after 300 requests so that even an unbounded retry loop ends in this run.
func runC09HostileServer(t *testing.T, rng *rand.Rand, rec *sim.Rec, tier string, caseNo int) {
	n := simnet.New()
	srv, err := sim.NewScriptedServer(n, sim.ServerIP4, 3478)
	if err != nil {
		t.Fatal(err)
	}
	ts := &turnScript{rng: rand.New(rand.NewSource(rng.Int63())), relay: &net.UDPAddr{IP: sim.RelayIP4, Port: 50000}, nonce: "nonce-0", permW: [5]int{1, 0, 0, 0, 0}, bindW: [5]int{1, 0, 0, 0, 0}}
	var mu sync.Mutex
	hostile := map[uint16]bool{}
	counts := map[uint16]int{}
	total := 0
	srv.SetHandler(func(s *sim.ScriptedServer, from *net.UDPAddr, ev sim.SrvEvent) {
		if ev.Msg == nil || ev.Msg.Class != wire.ClassRequest {
			return
		}
		mu.Lock()
		h := hostile[ev.Msg.Method]
		_, hasMI := ev.Msg.Get(wire.AttrMessageIntegrity)
		if h && hasMI {
			counts[ev.Msg.Method]++
			total++
			c := total
			mu.Unlock()
			if c > 300 {
				return // (lets a spinning client run into its transaction timeout)
			}
			s.Send(from, errResp(ev.Msg.Method, ev.Msg.TID, 438, fmt.Sprintf("stale-%d", c)), 0)

			return
		}
		mu.Unlock()
		ts.handler(s, from, ev)
	})
	logs := sim.NewLogSink()
	logs.Budget = 400000
	rc, err := sim.NewRealClient(n, net.IPv4(10, 1, 0, 1).To4(), 5000, "10.0.0.1:3478", "alice", "pw-a", "verif.test", 100*time.Millisecond, logs, nil)
	if err != nil {
		t.Fatal(err)
	}
	if err := rc.Client.Listen(); err != nil {
		t.Fatal(err)
	}
	x := &c13{t: t, rng: rng, rec: rec, net: n, srv: srv, rc: rc, ts: ts}
	defer x.close()
	set := func(m uint16, on bool) {
		mu.Lock()
		hostile[m] = on
		counts[m] = 0
		mu.Unlock()
	}
	got := func(m uint16) int {
		mu.Lock()
		defer mu.Unlock()

		return counts[m]
	}
	call := func(what string, m uint16, f func() error) bool {
		set(m, true)
		done := make(chan error, 1)
		go func() { done <- f() }()
		select {
		case err := <-done:
			if err == nil {
				rec.Violate("client-liveness", "hostile/"+what, "%s returned success although the server answered every request with 438", what)
			}
		case <-time.After(5 * time.Minute):
			rec.Violate("client-blocked", "hostile/"+what, "%s did not return within 5 minutes of virtual time while the server answered every request with 438", what)

			return false
		}
		if c := got(m); c > 12 {
			rec.Violate("client-blocked", "hostile-spin/"+what, "%s sent %d requests in a row while the server kept answering 438 Stale Nonce (the client's retry cap is 3)", what, c)

			return false
		}
		rec.FP("client/hostile-438/%s/requests=%d", what, got(m))
		set(m, false)

		return true
	}
	which := caseNo % 3
	if which == 0 {
		if !call("Allocate", wire.MethodAllocate, func() error { _, err := rc.Client.Allocate(); return err }) {
			return
		}
	}
	conn, err := rc.Client.Allocate()
	if err != nil {
		rec.Violate("client-liveness", "hostile/allocate-after", "Allocate against a now well-behaved server failed after the hostile phase: %v", err)

		return
	}
	x.conn = conn
	peer := &net.UDPAddr{IP: net.IPv4(10, 2, 0, 1).To4(), Port: 7000}
	x.peers = []*net.UDPAddr{peer}
	if which == 1 {
		if !call("WriteTo/CreatePermission", wire.MethodCreatePermission, func() error { _, err := conn.WriteTo([]byte("to:00000#000000|x"), peer); return err }) {
			return
		}
	}
	if which == 2 {
		set(wire.MethodChannelBind, true)
		_, _ = conn.WriteTo([]byte("to:00000#000000|y"), peer) // the binding is attempted in the background
		time.Sleep(2 * time.Minute)
		if c := got(wire.MethodChannelBind); c > 40 {
			rec.Violate("client-blocked", "hostile-spin/ChannelBind", "%d ChannelBind requests in two minutes while the server kept answering 438", c)

			return
		}
		rec.FP("client/hostile-438/ChannelBind/requests=%d", min(got(wire.MethodChannelBind), 9))
		set(wire.MethodChannelBind, false)
	}
	x.liveness("after-hostile-438")
	rec.SetSample(map[string]any{"kind": "client-vs-server-that-always-answers-438", "phase": which})
}

// runC09ClientStream: a real client whose link to the server is a TCP stream (turn.NewSTUNConn)
// receives bytes that cannot begin a frame, a truncated frame followed by EOF, or valid frames
// followed by garbage. Its read loop must end (or carry on) without spinning, and Close returns.
func runC09ClientStream(t *testing.T, rng *rand.Rand, rec *sim.Rec, tier string, caseNo int) {
	n := simnet.New()
	defer n.CloseAll()
	l, err := n.ListenTCP(sim.ServerIP4, 3478)
	if err != nil {
		t.Fatal(err)
	}
	ctrl, err := n.DialTCP(net.IPv4(10, 1, 1, 1).To4(), 0, l.TCPAddr())
	if err != nil {
		t.Fatal(err)
	}
	srvEnd, err := l.Accept()
	if err != nil {
		t.Fatal(err)
	}
	logs := sim.NewLogSink()
	logs.Budget = 200000
	cl, err := turn.NewClient(&turn.ClientConfig{
		STUNServerAddr: "10.0.0.1:3478", TURNServerAddr: "10.0.0.1:3478", Conn: turn.NewSTUNConn(ctrl),
		Username: "alice", Password: "pw-a", Realm: "verif.test", RTO: 100 * time.Millisecond,
		Net: &simnet.VNet{N: n, HostIP4: net.IPv4(10, 1, 1, 1).To4()}, LoggerFactory: logs,
	})
	if err != nil {
		t.Fatal(err)
	}
	if err := cl.Listen(); err != nil {
		t.Fatal(err)
	}
	kind := []string{"garbage", "stun-no-cookie", "valid-then-garbage", "truncated-then-eof", "chan-out-of-range", "chan-max-length", "stun-max-length"}[caseNo%7]
	var in []byte
	switch kind {
	case "garbage":
		in = make([]byte, 20+rng.Intn(60))
		rng.Read(in)
		in[0] |= 0x80
	case "stun-no-cookie":
		in = make([]byte, 24+rng.Intn(20))
		rng.Read(in)
		in[0] &= 0x3F
		in[4] ^= 0xFF
	case "valid-then-garbage":
		b := wire.NewBuilder(wire.MethodBinding, wire.ClassSuccess, [12]byte{1, 2, 3})
		b.AddXorAddr(wire.AttrXORMappedAddress, net.IPv4(10, 1, 1, 1).To4(), 1234)
		in = append(b.Bytes(), bytes.Repeat([]byte{0xFF}, 24+rng.Intn(40))...)
	case "truncated-then-eof":
		in = wire.EncodeChannelData(0x4001, make([]byte, 100), true)[:20+rng.Intn(60)]
	case "chan-out-of-range":
		in = wire.EncodeChannelData(uint16(0x8000+rng.Intn(0x7FFF)), make([]byte, 32), true)
	case "chan-max-length":
		// the largest frames a stream can carry: 4 + 65532..65535 payload bytes (+ padding)
		in = wire.EncodeChannelData(0x4000, make([]byte, 65532+rng.Intn(4)), true)
		in = append(in, wire.EncodeChannelData(0x4000, []byte("next"), true)...)
	case "stun-max-length":
		in = make([]byte, 20+0xFFFC)
		binary.BigEndian.PutUint16(in[0:2], 0x0101)
		binary.BigEndian.PutUint16(in[2:4], 0xFFFC)
		binary.BigEndian.PutUint32(in[4:8], wire.MagicCookie)
	}
	_, _ = srvEnd.Write(in)
	if kind == "truncated-then-eof" {
		_ = srvEnd.Close()
	}
	// virtual time only passes if nothing in the bubble is runnable: a spinning read loop would
	// keep this sleep from ever returning (the wall-clock watchdog then names the spinning frames)
	time.Sleep(2 * time.Second)
	done := make(chan struct{})
	go func() { cl.Close(); close(done) }()
	select {
	case <-done:
	case <-time.After(30 * time.Second):
		rec.Violate("client-blocked", "stream/"+kind, "Client.Close did not return after the stream delivered %s", kind)
	}
	_ = srvEnd.Close()
	_ = ctrl.Close()
	rec.Ev("client-stream-inputs")
	rec.FP("client/stream/%s", kind)
	rec.SetSample(map[string]any{"kind": "client-over-tcp-stream", "input": kind, "bytes": len(in)})
}

// c09TLSConfig returns a throw-away server certificate and a client configuration trusting it.
func c09TLSConfig() (*tls.Config, *tls.Config, error) {
	key, err := ecdsa.GenerateKey(elliptic.P256(), crand.Reader)
	if err != nil {
		return nil, nil, err
	}
	tmpl := &x509.Certificate{
		SerialNumber: big.NewInt(1), Subject: pkix.Name{CommonName: "turn.verif.test"},
		NotBefore: time.Unix(0, 0), NotAfter: time.Unix(4102444800, 0),
		KeyUsage: x509.KeyUsageDigitalSignature, ExtKeyUsage: []x509.ExtKeyUsage{x509.ExtKeyUsageServerAuth},
		DNSNames: []string{"turn.verif.test"},
	}
	der, err := x509.CreateCertificate(crand.Reader, tmpl, tmpl, &key.PublicKey, key)
	if err != nil {
		return nil, nil, err
	}
	cert := tls.Certificate{Certificate: [][]byte{der}, PrivateKey: key}

	return &tls.Config{Certificates: []tls.Certificate{cert}, MinVersion: tls.VersionTLS12},
		&tls.Config{InsecureSkipVerify: true, ServerName: "turn.verif.test", MinVersion: tls.VersionTLS12}, nil //nolint:gosec
}

// runC09TLS: a TLS listener. Parties that connect and send nothing, a few bytes, a TLS record
// header, or garbage (prefixes of a TLS stream) must not keep anybody else from being served: a
// second party's Binding request over TLS is answered while they linger.
func runC09TLS(t *testing.T, rng *rand.Rand, rec *sim.Rec, tier string, caseNo int) {
	n := simnet.New()
	defer n.CloseAll()
	srvCfg, cliCfg, err := c09TLSConfig()
	if err != nil {
		t.Fatal(err)
	}
	inner, err := n.ListenTCP(sim.ServerIP4, 5349)
	if err != nil {
		t.Fatal(err)
	}
	logs := sim.NewLogSink()
	logs.Budget = 400000
	srv, err := turn.NewServer(turn.ServerConfig{
		Realm: "verif.test",
		AuthHandler: func(ra *turn.RequestAttributes) (string, []byte, bool) {
			return ra.Username, wire.LongTermKey(ra.Username, ra.Realm, "pw-a"), ra.Username == "alice"
		},
		ListenerConfigs: []turn.ListenerConfig{{Listener: tls.NewListener(inner, srvCfg), RelayAddressGenerator: &simpleGen{n: n}}},
		LoggerFactory:   logs,
	})
	if err != nil {
		t.Fatal(err)
	}
	defer srv.Close() //nolint:errcheck
	lingerers := 1 + rng.Intn(4)
	var held []*simnet.Conn
	for i := 0; i < lingerers; i++ {
		c, err := n.DialTCP(net.IPv4(10, 1, 2, byte(1+i)).To4(), 0, inner.TCPAddr())
		if err != nil {
			t.Fatal(err)
		}
		held = append(held, c)
		switch rng.Intn(4) {
		case 1:
			_, _ = c.Write([]byte{0x16, 0x03, 0x01}) // the start of a handshake record header
		case 2:
			_, _ = c.Write([]byte{0x16, 0x03, 0x01, 0x02, 0x00, 0x01, 0x00, 0x01, 0xfc}) // header + start of a ClientHello
		case 3:
			g := make([]byte, 1+rng.Intn(40))
			rng.Read(g)
			_, _ = c.Write(g)
		}
	}
	time.Sleep(time.Duration(rng.Intn(3000)) * time.Millisecond)
	// the honest party
	raw, err := n.DialTCP(net.IPv4(10, 1, 1, 1).To4(), 0, inner.TCPAddr())
	if err != nil {
		t.Fatal(err)
	}
	tc := tls.Client(raw, cliCfg)
	done := make(chan error, 1)
	var resp *wire.Msg
	go func() {
		if err := tc.Handshake(); err != nil {
			done <- err

			return
		}
		var tid [12]byte
		copy(tid[:], "verif-tls-01")
		if _, err := tc.Write(wire.NewBuilder(wire.MethodBinding, wire.ClassRequest, tid).Bytes()); err != nil {
			done <- err

			return
		}
		buf := make([]byte, 1500)
		k, err := tc.Read(buf)
		if err == nil {
			resp, err = wire.ParseSTUN(buf[:k])
		}
		done <- err
	}()
	select {
	case err := <-done:
		if err != nil || resp == nil || resp.Class != wire.ClassSuccess {
			rec.Violate("liveness-binding", "tls", "Binding over TLS failed while %d other connections linger in their handshake: %v", lingerers, err)
		}
	case <-time.After(5 * time.Second):
		rec.Violate("liveness-binding", "tls/blocked", "a Binding request over TLS was not answered within 5 s while %d other connection(s) sat silent or half-way in their TLS handshake", lingerers)
	}
	_ = raw.Close()
	for _, c := range held {
		_ = c.Close()
	}
	rec.Ev("tls-lingerers")
	rec.FP("tls/lingerers=%d", lingerers)
	rec.SetSample(map[string]any{"kind": "tls-listener-with-lingering-connections", "lingerers": lingerers})
}

// runC09Client hands hostile datagrams to a real client's inbound path, directly through
// Client.HandleInbound (with a blocked-call detector and the documented classification table as
// oracle) and through its socket, in several client states, then checks that it still works.
func runC09Client(t *testing.T, rng *rand.Rand, rec *sim.Rec, tier string, caseNo int) {
	n := simnet.New()
	srv, err := sim.NewScriptedServer(n, sim.ServerIP4, 3478)
	if err != nil {
		t.Fatal(err)
	}
	ts := &turnScript{rng: rand.New(rand.NewSource(rng.Int63())), relay: &net.UDPAddr{IP: sim.RelayIP4, Port: 50000}, nonce: "nonce-0", permW: [5]int{1, 0, 0, 0, 0}, bindW: [5]int{1, 0, 0, 0, 0}}
	srv.SetHandler(ts.handler)
	logs := sim.NewLogSink()
	logs.Budget = 400000
	state := []string{"no-allocation", "udp-allocation", "tcp-allocation", "udp-queue-full", "stun-only"}[caseNo%5]
	rc, err := sim.NewRealClient(n, net.IPv4(10, 1, 0, 1).To4(), 5000, "10.0.0.1:3478", "alice", "pw-a", "verif.test", 100*time.Millisecond, logs, func(c *turn.ClientConfig) {
		if state == "stun-only" {
			c.TURNServerAddr = "" // a client that only ever does Binding requests
		}
	})
	if err != nil {
		t.Fatal(err)
	}
	if err := rc.Client.Listen(); err != nil {
		t.Fatal(err)
	}
	x := &c13{t: t, rng: rng, rec: rec, net: n, srv: srv, rc: rc, ts: ts}
	defer x.close()
	peer := &net.UDPAddr{IP: net.IPv4(10, 2, 0, 1).To4(), Port: 7000}
	x.peers = []*net.UDPAddr{peer}
	var tcpAlloc interface{ Close() error }
	switch state {
	case "udp-allocation", "udp-queue-full":
		conn, err := rc.Client.Allocate()
		if err != nil {
			rec.Inconclusive("allocate: %v", err)

			return
		}
		x.conn = conn
		_, _ = conn.WriteTo(c13Payload(0, 1, 20, rng), peer) // creates a permission and a binding
		time.Sleep(time.Second)
		if state == "udp-queue-full" {
			for k := 0; k < 1024; k++ {
				x.inboundInd(peer, []byte(fmt.Sprintf("fill-%d", k)))
			}
			time.Sleep(time.Millisecond)
		}
	case "tcp-allocation":
		a, err := rc.Client.AllocateTCP()
		if err != nil {
			rec.Inconclusive("allocateTCP: %v", err)

			return
		}
		tcpAlloc = a
		for i := 0; i < pick(rng, []int{0, 9, 10}); i++ {
			b := wire.NewBuilder(wire.MethodConnectionAttempt, wire.ClassIndication, [12]byte{7, byte(i)})
			b.AddXorAddr(wire.AttrXORPeerAddress, net.IPv4(10, 2, 0, byte(1+i)).To4(), 9000+i)
			b.AddU32(wire.AttrConnectionID, uint32(1000+i))
			srv.Send(rc.Conn.Addr(), b.Bytes(), 0)
		}
		time.Sleep(time.Millisecond)
	}
	dummy := &sim.RawClient{User: "u", Pass: "p", Realm: "r", Nonce: "n"}
	g := &fuzzGen{rng: rng, att: dummy, peers: []*net.UDPAddr{peer, {IP: net.ParseIP("fd00:2::1"), Port: 7}}}
	other := &net.UDPAddr{IP: net.IPv4(10, 9, 9, 9).To4(), Port: 999}
	for bi := 0; bi < 6 && len(rec.Violations()) == 0; bi++ {
		for k := 0; k < 30; k++ {
			in, class := g.input()
			if rng.Intn(3) == 0 {
				// responses / indications a server could send, then mutated
				b := g.validMsg(false).Bytes()
				if len(b) >= 2 {
					cls := uint8(1 + rng.Intn(3))
					m := pick(rng, []uint16{wire.MethodData, wire.MethodConnectionAttempt, wire.MethodAllocate, wire.MethodChannelBind, wire.MethodBinding})
					tf := wire.TypeField(m, cls)
					b[0], b[1] = byte(tf>>8), byte(tf)
				}
				if rng.Intn(2) == 0 {
					b = g.mutate(b)
				}
				in, class = b, "server-like"
			}
			from := srv.Addr
			if rng.Intn(3) == 0 {
				from = other
			}
			rec.Ev("client-input/" + class)
			rec.FP("client/%s/%s/from-server=%v", state, class, from == srv.Addr)
			if rng.Intn(2) == 0 {
				// through the socket (the client's own read loop)
				rc.Conn.Inject(in, from)
				if !clientLocksFree(rec, rc, "socket input "+class) {
					return
				}

				continue
			}
			// direct call with blocked-call detector
			type res struct {
				handled bool
				err     error
			}
			done := make(chan res, 1)
			go func() {
				h, err := rc.Client.HandleInbound(in, from)
				done <- res{h, err}
			}()
			if !clientLocksFree(rec, rc, "HandleInbound "+class) {
				return
			}
			synctest.Wait()
			select {
			case r := <-done:
				_, _, isChan := wire.ParseChannelData(in)
				isSTUN := len(in) >= 20 && binary.BigEndian.Uint32(in[4:8]) == wire.MagicCookie
				want := isChan || isSTUN || from == srv.Addr
				if r.handled != want {
					rec.Violate("client-classification", fmt.Sprintf("handled=%v", r.handled), "HandleInbound(%x..., from server=%v) handled=%v err=%v; documented classification says handled=%v (ChannelData=%v STUN=%v)", head(in), from == srv.Addr, r.handled, r.err, want, isChan, isSTUN)
				}
				if !r.handled && r.err != nil {
					rec.Violate("client-classification", "false-with-error", "HandleInbound returned (false, %v): the documented table excludes this combination", r.err)
				}
			default:
				rec.Violate("client-blocked", state, "HandleInbound(%x... len %d) is durably blocked (state %s)", head(in), len(in), state)

				return
			}
		}
		time.Sleep(time.Millisecond)
		// liveness: a transaction completes; relayed data still gets through
		x.liveness("after-hostile-input/" + state)
		if x.conn != nil && state == "udp-allocation" {
			x.queue = nil
			buf := make([]byte, 70000)
			for { // drop whatever well-formed indications the fuzz produced
				_ = x.conn.SetReadDeadline(time.Now().Add(time.Millisecond))
				if _, _, err := x.conn.ReadFrom(buf); err != nil {
					break
				}
			}
			x.inboundInd(peer, []byte(fmt.Sprintf("still-alive-%d", bi)))
			time.Sleep(time.Millisecond)
			x.drainAndCompare()
		}
		rec.Ev("client-liveness-probes")
	}
	if tcpAlloc != nil {
		_ = tcpAlloc.Close()
	}
	rec.SetSample(map[string]any{"side": "client", "state": state, "log_calls": logs.TotalCalls()})
}

// clientLocksFree probes the client's mutexes without needing virtual time to pass: the read loop
// and timers hold them only for microseconds, so a mutex that is still held after yielding the
// processor a few hundred times has been leaked. (Waiting on the virtual clock instead would hang:
// a goroutine queued on that mutex is not durably blocked.)
func clientLocksFree(rec *sim.Rec, rc *sim.RealClient, when string) bool {
	var held []string
	for try := 0; try < 400; try++ {
		// the number of yields grows: under heavy machine load a preempted lock holder may need
		// milliseconds of wall time (which the bubble cannot measure) to be scheduled again
		for i := 0; i < 50+try*50; i++ {
			runtime.Gosched()
		}
		if held = rc.Client.VerifLocksHeld(); len(held) == 0 {
			return true
		}
	}
	rec.Violate("lock-held", "client/"+held[0], "client mutex still held after %s: %v", when, held)

	return false
}
