#!/usr/bin/env python3
"""archive_seed2.py <prop> <a|b> <caught_csv> <first_violation> [initially_missed note] — archive a confirmed round-10 seed as <prop>-q/-r."""
import sys, os, json, shutil, re
prop, v, caught, first = sys.argv[1:5]
note = sys.argv[5] if len(sys.argv) > 5 else ""
info = json.load(open(f"/tmp/seed10-{prop}-{v}.json"))
src = f"/tmp/seed10-{prop}/seed/{v}"
name = {'a': 's', 'b': 't'}[v]
dst = f"/verif/seeded/{prop}-{name}"
os.makedirs(dst, exist_ok=True)
for f in ("patch.diff", "notes.md", info['demo']):
    shutil.copy(os.path.join(src, f), os.path.join(dst, os.path.basename(f)))
notes = open(os.path.join(src, "notes.md")).read()
meta = {
    "property": prop, "seed": f"{prop}-{name}", "round": 10,
    "origin": "written by a sub-agent that saw only the property text, short descriptions of the round-1 seeds of this property, and a scratch worktree of /repo (nothing from /verif)",
    "patch": "patch.diff",
    "demo": {"file": info['demo'], "place_in_tree": info['dest'], "run": f"cd <tree>/{info['dest']} && GOPROXY=off go test -mod=mod -vet=off -count=1 {info['flags']} -run '{info['rx']}' ."},
    "needs_to_manifest": " ".join(notes.split('\n', 1)[1].split())[:900],
    "confirmed_by_me": {"how": f"tools/process_seed10.py {prop} (tools/seedcheck.sh on a scratch copy of /repo under /tmp, removed afterwards)",
                        "suite_passes_with_change": True, "demo_passes_without_change": True, "demo_fails_with_change": True},
    "caught_by_checks": caught.split(","), "first_violation_reported": first,
}
if note:
    meta["initially_missed"] = note
json.dump(meta, open(os.path.join(dst, "meta.json"), "w"), indent=1)
print("archived", dst)
