package props

import (
	"bytes"
	"encoding/binary"
	"fmt"
	"math/rand"
	"net"
	"testing"
	"time"

	"github.com/pion/stun/v3"
	"github.com/pion/turn/v5/internal/proto"
	"github.com/pion/turn/v5/verifharness/sim"
	"github.com/pion/turn/v5/verifharness/wire"
)

// C11: wire codecs. Every call of the codec under test is compared with the independent
// reference codec of package wire (written from the RFC layouts). In-process, no bubble.

func init() {
	sim.RegisterKind("chandata-number-altered", "C11", "C08")
}

func init() {
	sim.RegisterKind("chandata-encode", "C11")
	sim.RegisterKind("chandata-roundtrip", "C11")
	sim.RegisterKind("chandata-decode-predicate", "C11")
	sim.RegisterKind("chandata-decode-bytes", "C11")
	sim.RegisterKind("chandata-ischanneldata", "C11")
	sim.RegisterKind("attr-roundtrip", "C11")
	sim.RegisterKind("attr-raw-accept", "C11")
	sim.RegisterKind("attr-raw-value", "C11")
	sim.RegisterKind("attr-encode-layout", "C11")
	sim.RegisterKind("codec-panic", "C11", "C09")
}

func guard(rec *sim.Rec, what string, f func()) {
	defer func() {
		if r := recover(); r != nil {
			rec.Violate("codec-panic", what, "%s panicked: %v", what, r)
		}
	}()
	f()
}

// reused is a ChannelData value whose Raw buffer is recycled across encodes, the way a relay loop
// reuses one message object: it is dirtied with 0xFF before each use.
var reusedDirt = bytes.Repeat([]byte{0xFF}, 65535)

func c11ChanReuse(rec *sim.Rec, num uint16, payload []byte) {
	guard(rec, "ChannelData.Encode(reused)", func() {
		var cd proto.ChannelData
		cd.Number, cd.Data = 0x7FFF, reusedDirt[:min(len(payload)+9, 65535)]
		cd.Encode()
		cd.Number, cd.Data = proto.ChannelNumber(num), payload
		cd.Encode()
		want := wire.EncodeChannelData(num, payload, true)
		if !bytes.Equal(cd.Raw, want) {
			rec.Violate("chandata-encode", fmt.Sprintf("reused/len%%4=%d", len(payload)%4), "Encode into a reused buffer (num=0x%04x,len=%d) = %x..%x, reference %x..%x (padding must be zero)", num, len(payload), head(cd.Raw), tail(cd.Raw), head(want), tail(want))
		}
	})
}

func tail(b []byte) []byte {
	if len(b) > 8 {
		return b[len(b)-8:]
	}

	return b
}

// c11ChanOversize: a payload that the 16-bit length field cannot announce. What Encode makes of
// the length is outside the statement; the channel number on the wire is still the message's.
func c11ChanOversize(rec *sim.Rec, num uint16, n int) {
	guard(rec, "ChannelData.Encode(oversize)", func() {
		cd := proto.ChannelData{Number: proto.ChannelNumber(num), Data: make([]byte, n)}
		cd.Encode()
		if len(cd.Raw) < 4 || binary.BigEndian.Uint16(cd.Raw[:2]) != num {
			rec.Violate("chandata-number-altered", fmt.Sprintf("oversize/%d", n>>16), "Encode(num=0x%04x, %d payload bytes) put channel number 0x%x on the wire", num, n, head(cd.Raw)[:min(2, len(cd.Raw))])
		}
		rec.FP("chandata/oversize-number-intact/%d", n>>16)
	})
}

func c11ChanRoundTrip(rec *sim.Rec, num uint16, payload []byte) {
	c11ChanReuse(rec, num, payload)
	if len(payload)%1024 == 3 && num%257 == 0 {
		c11ChanOversize(rec, num, 65536+len(payload))
		c11ChanOversize(rec, num, 3*65536+len(payload))
	}
	guard(rec, "ChannelData.Encode/Decode", func() {
		cd := proto.ChannelData{Number: proto.ChannelNumber(num), Data: payload}
		cd.Encode()
		want := wire.EncodeChannelData(num, payload, true)
		if !bytes.Equal(cd.Raw, want) {
			rec.Violate("chandata-encode", fmt.Sprintf("len%%4=%d", len(payload)%4), "Encode(num=0x%04x,len=%d) = %d bytes %x..., reference %d bytes %x...", num, len(payload), len(cd.Raw), head(cd.Raw), len(want), head(want))

			return
		}
		dec := proto.ChannelData{Raw: append([]byte{}, cd.Raw...)}
		err := dec.Decode()
		valid := wire.ValidChannel(num)
		if valid != (err == nil) {
			rec.Violate("chandata-decode-predicate", fmt.Sprintf("valid=%v", valid), "Decode of encoded (num=0x%04x,len=%d) err=%v, number valid=%v", num, len(payload), err, valid)

			return
		}
		if err == nil && (uint16(dec.Number) != num || !bytes.Equal(dec.Data, payload) || dec.Length != len(payload)) {
			rec.Violate("chandata-roundtrip", fmt.Sprintf("len%%4=%d", len(payload)%4), "round trip of (num=0x%04x,len=%d) gave (num=0x%04x,len=%d,Length=%d)", num, len(payload), uint16(dec.Number), len(dec.Data), dec.Length)
		}
		if err != nil {
			return
		}
		// the decoded value is encoded again as it stands (Data is a sub-slice of Raw, Length is
		// set): a relay that forwards what it has decoded does exactly this
		dec.Encode()
		if !bytes.Equal(dec.Raw, want) {
			rec.Violate("chandata-encode", fmt.Sprintf("re-encode-decoded/len%%4=%d", len(payload)%4), "Decode then Encode of the same value (num=0x%04x,len=%d) = %d bytes %x..%x, reference %d bytes %x..%x", num, len(payload), len(dec.Raw), head(dec.Raw), tail(dec.Raw), len(want), head(want), tail(want))

			return
		}
		// ... and then used for another message without Reset: Length is a leftover of the decode
		// ("ignored while encoding, len(Data) is used")
		for _, next := range [][]byte{nil, payload[:len(payload)/2], {0xAA}} {
			dec.Data = next
			dec.Encode()
			if w2 := wire.EncodeChannelData(num, next, true); !bytes.Equal(dec.Raw, w2) {
				rec.Violate("chandata-encode", fmt.Sprintf("stale-length/next-len=%d", min(len(next), 2)), "value decoded from a %d-byte payload, then Data set to %d bytes and encoded: %d bytes %x..%x, reference %d bytes %x..%x", len(payload), len(next), len(dec.Raw), head(dec.Raw), tail(dec.Raw), len(w2), head(w2), tail(w2))

				return
			}
		}
		rec.Ev("chandata-struct-reuse-checks")
	})
}

func head(b []byte) []byte {
	if len(b) > 12 {
		return b[:12]
	}

	return b
}

func c11ChanRaw(rec *sim.Rec, raw []byte) {
	guard(rec, "ChannelData.Decode(raw)", func() {
		dec := proto.ChannelData{Raw: append([]byte{}, raw...)}
		err := dec.Decode()
		num, payload, ok := wire.ParseChannelData(raw)
		if ok != (err == nil) {
			rec.Violate("chandata-decode-predicate", fmt.Sprintf("ref=%v", ok), "Decode(%x... len %d) err=%v, reference accepts=%v", head(raw), len(raw), err, ok)

			return
		}
		if ok && (uint16(dec.Number) != num || !bytes.Equal(dec.Data, payload)) {
			rec.Violate("chandata-decode-bytes", "mismatch", "Decode(%x... len %d) returned num=0x%04x %d bytes, reference num=0x%04x %d bytes", head(raw), len(raw), uint16(dec.Number), len(dec.Data), num, len(payload))
		}
		if is := proto.IsChannelData(raw); is != ok {
			rec.Violate("chandata-ischanneldata", fmt.Sprintf("ref=%v", ok), "IsChannelData(%x... len %d)=%v but Decode/reference accept=%v", head(raw), len(raw), is, ok)
		}
	})
}

// attrCase decodes a raw attribute value with the codec under test and compares with the reference.
type attrCodec struct {
	name string
	typ  stun.AttrType
	// decode returns a canonical rendering of the decoded value or an error
	decode func(m *stun.Message) (string, error)
	// ref returns the canonical rendering the RFC layout gives for a raw value, ok=false if the
	// value is malformed (wrong size / undefined content)
	ref func(v []byte, tid [12]byte) (string, bool)
}

func xorRef(v []byte, tid [12]byte) (string, bool) {
	if len(v) < 4 {
		return "", false
	}
	ip, port, err := wire.DecodeXorAddr(v, tid)
	if err != nil || v[0] != 0 {
		return "", false
	}

	return fmt.Sprintf("%s|%d", ip.String(), port), true
}

var attrCodecs = []attrCodec{
	{"CHANNEL-NUMBER", stun.AttrChannelNumber, func(m *stun.Message) (string, error) {
		var n proto.ChannelNumber
		err := n.GetFrom(m)

		return fmt.Sprint(uint16(n)), err
	}, func(v []byte, _ [12]byte) (string, bool) {
		if len(v) != 4 {
			return "", false
		}

		return fmt.Sprint(binary.BigEndian.Uint16(v)), true
	}},
	{"LIFETIME", stun.AttrLifetime, func(m *stun.Message) (string, error) {
		var l proto.Lifetime
		err := l.GetFrom(m)

		return fmt.Sprint(int64(l.Duration / time.Second)), err
	}, func(v []byte, _ [12]byte) (string, bool) {
		if len(v) != 4 {
			return "", false
		}

		return fmt.Sprint(binary.BigEndian.Uint32(v)), true
	}},
	{"XOR-PEER-ADDRESS", stun.AttrXORPeerAddress, func(m *stun.Message) (string, error) {
		var a proto.PeerAddress
		err := a.GetFrom(m)

		return fmt.Sprintf("%s|%d", a.IP.String(), a.Port), err
	}, xorRef},
	{"XOR-RELAYED-ADDRESS", stun.AttrXORRelayedAddress, func(m *stun.Message) (string, error) {
		var a proto.RelayedAddress
		err := a.GetFrom(m)

		return fmt.Sprintf("%s|%d", a.IP.String(), a.Port), err
	}, xorRef},
	{"DATA", stun.AttrData, func(m *stun.Message) (string, error) {
		var d proto.Data
		err := d.GetFrom(m)

		return fmt.Sprintf("%x", []byte(d)), err
	}, func(v []byte, _ [12]byte) (string, bool) { return fmt.Sprintf("%x", v), true }},
	{"REQUESTED-TRANSPORT", stun.AttrRequestedTransport, func(m *stun.Message) (string, error) {
		var r proto.RequestedTransport
		err := r.GetFrom(m)

		return fmt.Sprint(byte(r.Protocol)), err
	}, func(v []byte, _ [12]byte) (string, bool) {
		if len(v) != 4 {
			return "", false
		}

		return fmt.Sprint(v[0]), true
	}},
	{"REQUESTED-ADDRESS-FAMILY", stun.AttrRequestedAddressFamily, func(m *stun.Message) (string, error) {
		var f proto.RequestedAddressFamily
		err := f.GetFrom(m)

		return fmt.Sprint(byte(f)), err
	}, func(v []byte, _ [12]byte) (string, bool) {
		if len(v) != 4 || (v[0] != 1 && v[0] != 2) {
			return "", false
		}

		return fmt.Sprint(v[0]), true
	}},
	{"EVEN-PORT", stun.AttrEvenPort, func(m *stun.Message) (string, error) {
		var e proto.EvenPort
		err := e.GetFrom(m)

		return fmt.Sprint(e.ReservePort), err
	}, func(v []byte, _ [12]byte) (string, bool) {
		if len(v) != 1 {
			return "", false
		}

		return fmt.Sprint(v[0]&0x80 != 0), true // R is the most significant bit, the rest is RFFU
	}},
	{"RESERVATION-TOKEN", stun.AttrReservationToken, func(m *stun.Message) (string, error) {
		var r proto.ReservationToken
		err := r.GetFrom(m)

		return fmt.Sprintf("%x", []byte(r)), err
	}, func(v []byte, _ [12]byte) (string, bool) {
		if len(v) != 8 {
			return "", false
		}

		return fmt.Sprintf("%x", v), true
	}},
	{"CONNECTION-ID", stun.AttrConnectionID, func(m *stun.Message) (string, error) {
		var c proto.ConnectionID
		err := c.GetFrom(m)

		return fmt.Sprint(uint32(c)), err
	}, func(v []byte, _ [12]byte) (string, bool) {
		if len(v) != 4 {
			return "", false
		}

		return fmt.Sprint(binary.BigEndian.Uint32(v)), true
	}},
	{"DONT-FRAGMENT", stun.AttrDontFragment, func(m *stun.Message) (string, error) {
		var d proto.DontFragment
		err := d.GetFrom(m)

		return "set", err
	}, func(v []byte, _ [12]byte) (string, bool) { return "set", len(v) == 0 }},
}

func c11AttrRaw(rec *sim.Rec, ac attrCodec, v []byte, tid [12]byte) {
	guard(rec, ac.name+".GetFrom", func() {
		m := stun.New()
		m.TransactionID = tid
		m.Add(ac.typ, v)
		m.WriteHeader()
		wireMsg := &stun.Message{Raw: append([]byte{}, m.Raw...)}
		if err := wireMsg.Decode(); err != nil {
			return
		}
		got, err := ac.decode(wireMsg)
		want, ok := ac.ref(v, tid)
		if ok != (err == nil) {
			cls := "accepted-malformed"
			if ok {
				cls = "rejected-wellformed"
			}
			rec.Violate("attr-raw-accept", fmt.Sprintf("%s/%s/len%d", ac.name, cls, len(v)), "%s: raw value %x (len %d): codec err=%v decoded=%q, reference well-formed=%v", ac.name, head(v), len(v), err, got, ok)

			return
		}
		if ok && got != want {
			rec.Violate("attr-raw-value", ac.name, "%s: raw value %x decodes to %q, reference %q", ac.name, head(v), got, want)
		}
	})
}

// c11AttrRoundTrip encodes typed values with the codec under test and checks layout + decode.
func c11AttrRoundTrip(rec *sim.Rec, rng *rand.Rand, n int) {
	tid := [12]byte{}
	rng.Read(tid[:])
	chk := func(name string, typ stun.AttrType, add func(m *stun.Message) error, wantRaw []byte, dec func(m *stun.Message) (string, error), want string) {
		guard(rec, name+".AddTo/GetFrom", func() {
			m := stun.New()
			m.TransactionID = tid
			if err := add(m); err != nil {
				rec.Violate("attr-roundtrip", name+"/addto", "%s.AddTo failed: %v", name, err)

				return
			}
			m.WriteHeader()
			w2 := &stun.Message{Raw: append([]byte{}, m.Raw...)}
			if err := w2.Decode(); err != nil {
				rec.Violate("attr-roundtrip", name+"/decode", "%s: encoded message does not decode: %v", name, err)

				return
			}
			raw, _ := w2.Get(typ)
			if name == "EVEN-PORT" && len(raw) == 1 && len(wantRaw) == 1 {
				// only the R bit is fixed by what the codec promises; the statement says nothing about RFFU
				raw, wantRaw = []byte{raw[0] & 0x80}, []byte{wantRaw[0] & 0x80}
			}
			if wantRaw != nil && !bytes.Equal(raw, wantRaw) {
				rec.Violate("attr-encode-layout", name, "%s: encoded value %x, RFC layout %x", name, raw, wantRaw)
			}
			got, err := dec(w2)
			if err != nil || got != want {
				rec.Violate("attr-roundtrip", name, "%s: decode(encode(%s)) = %q err=%v", name, want, got, err)
			}
		})
	}
	for i := 0; i < n; i++ {
		u32 := pick(rng, []uint32{0, 1, 2, 599, 600, 3599, 3600, 1 << 31, 1<<32 - 1, rng.Uint32()})
		chk("LIFETIME", stun.AttrLifetime, proto.Lifetime{Duration: time.Duration(u32) * time.Second}.AddTo,
			binary.BigEndian.AppendUint32(nil, u32), attrCodecs[1].decode, fmt.Sprint(u32))
		chk("CONNECTION-ID", stun.AttrConnectionID, proto.ConnectionID(u32).AddTo,
			binary.BigEndian.AppendUint32(nil, u32), attrCodecs[9].decode, fmt.Sprint(u32))
		var ip net.IP
		switch rng.Intn(3) {
		case 0:
			ip = net.IPv4(byte(rng.Intn(256)), byte(rng.Intn(256)), byte(rng.Intn(256)), byte(rng.Intn(256))).To4()
		case 1:
			ip = make(net.IP, 16)
			rng.Read(ip)
			ip[0] = 0x20
		default:
			ip = net.IPv4(byte(rng.Intn(256)), byte(rng.Intn(256)), byte(rng.Intn(256)), byte(rng.Intn(256))) // 16-byte IPv4-mapped
		}
		port := pick(rng, []int{0, 1, 1023, 1024, 3478, 49152, 65535, rng.Intn(65536)})
		wantAddr := fmt.Sprintf("%s|%d", ip.String(), port)
		chk("XOR-PEER-ADDRESS", stun.AttrXORPeerAddress, proto.PeerAddress{IP: ip, Port: port}.AddTo,
			wire.EncodeXorAddr(ip, port, tid, false), attrCodecs[2].decode, wantAddr)
		chk("XOR-RELAYED-ADDRESS", stun.AttrXORRelayedAddress, proto.RelayedAddress{IP: ip, Port: port}.AddTo,
			wire.EncodeXorAddr(ip, port, tid, false), attrCodecs[3].decode, wantAddr)
		d := make([]byte, pick(rng, []int{0, 1, 2, 3, 4, 5, 1500, rng.Intn(4000), 65535 - 24}))
		rng.Read(d)
		chk("DATA", stun.AttrData, proto.Data(d).AddTo, d, attrCodecs[4].decode, fmt.Sprintf("%x", d))
		tok := make([]byte, 8)
		rng.Read(tok)
		chk("RESERVATION-TOKEN", stun.AttrReservationToken, proto.ReservationToken(tok).AddTo, tok, attrCodecs[8].decode, fmt.Sprintf("%x", tok))
	}
	for p := 0; p < 256; p++ {
		chk("REQUESTED-TRANSPORT", stun.AttrRequestedTransport, proto.RequestedTransport{Protocol: proto.Protocol(p)}.AddTo,
			[]byte{byte(p), 0, 0, 0}, attrCodecs[5].decode, fmt.Sprint(p))
	}
	for _, f := range []byte{1, 2} {
		chk("REQUESTED-ADDRESS-FAMILY", stun.AttrRequestedAddressFamily, proto.RequestedAddressFamily(f).AddTo,
			[]byte{f, 0, 0, 0}, attrCodecs[6].decode, fmt.Sprint(f))
	}
	chk("EVEN-PORT", stun.AttrEvenPort, proto.EvenPort{ReservePort: true}.AddTo, []byte{0x80}, attrCodecs[7].decode, "true")
	chk("EVEN-PORT", stun.AttrEvenPort, proto.EvenPort{ReservePort: false}.AddTo, []byte{0x00}, attrCodecs[7].decode, "false")
	chk("DONT-FRAGMENT", stun.AttrDontFragment, proto.DontFragment{}.AddTo, []byte{}, attrCodecs[10].decode, "set")
	// decode into a value that already holds something else (codecs are used on reused structs)
	guard(rec, "EVEN-PORT reuse", func() {
		m := stun.New()
		m.Add(stun.AttrEvenPort, []byte{0x00})
		m.WriteHeader()
		e := proto.EvenPort{ReservePort: true}
		if err := e.GetFrom(m); err != nil || e.ReservePort {
			rec.Violate("attr-roundtrip", "EVEN-PORT/reused-target", "EVEN-PORT value 0x00 decoded into a reused struct gives ReservePort=%v err=%v", e.ReservePort, err)
		}
	})
}

const (
	c11QuickCases    = 16 + 8 + 8 + 12
	c11ThoroughCases = 16 + 64 + 64 + 48
)

func runC11(t *testing.T, rng *rand.Rand, rec *sim.Rec, tier string, caseNo int) {
	thorough := tier == "thorough"
	nNum, nLen, nRaw := 16, 8, 8
	if thorough {
		nLen, nRaw = 64, 64
	}
	switch {
	case caseNo < nNum:
		// all channel numbers of this 4096-slice x small lengths, sampled large lengths
		big := make([]byte, 65535)
		rng.Read(big)
		for n := caseNo * 4096; n < (caseNo+1)*4096; n++ {
			for _, l := range []int{0, 1, 2, 3, 4, 5, 7, 8} {
				c11ChanRoundTrip(rec, uint16(n), big[:l])
			}
			if n%64 == 0 || thorough && n%8 == 0 {
				c11ChanRoundTrip(rec, uint16(n), big[:1500])
				c11ChanRoundTrip(rec, uint16(n), big)
			}
			rec.Ev("chan-number-covered")
		}
		rec.FP("chan-numbers/slice%d", caseNo)
		rec.SetSample(map[string]any{"kind": "numbers", "from": caseNo * 4096, "to": (caseNo+1)*4096 - 1, "lengths": []int{0, 1, 2, 3, 4, 5, 7, 8, 1500, 65535}})
	case caseNo < nNum+nLen:
		// all payload lengths of this slice x three numbers
		i := caseNo - nNum
		per := 65536 / nLen
		maxLen := 65536
		if !thorough {
			per = 520
			maxLen = 520 * 8
		}
		big := make([]byte, 65535)
		rng.Read(big)
		for l := i * per; l < (i+1)*per && l < maxLen && l <= 65535; l++ {
			for _, n := range []uint16{0x4000, 0x7FFF, uint16(0x4000 + rng.Intn(0x4000))} {
				c11ChanRoundTrip(rec, n, big[:l])
			}
			rec.Ev("chan-length-covered")
		}
		if !thorough {
			for k := 0; k < 60; k++ {
				c11ChanRoundTrip(rec, 0x4000, big[:4160+rng.Intn(65535-4160+1)])
			}
		}
		rec.FP("chan-lengths/slice%d", i)
		rec.SetSample(map[string]any{"kind": "lengths", "from": i * per, "to": (i+1)*per - 1})
	case caseNo < nNum+nLen+nRaw:
		// raw buffers: header classes x declared/actual relations
		i := caseNo - nNum - nLen
		numbers := []uint16{0, 1, 0x3FFF, 0x4000, 0x4001, 0x7FFE, 0x7FFF, 0x8000, 0x8001, 0xBFFF, 0xC000, 0xFFFF}
		if thorough {
			for n := i * 1024; n < (i+1)*1024; n++ {
				numbers = append(numbers, uint16(n))
			}
		} else {
			for k := 0; k < 300; k++ {
				numbers = append(numbers, uint16(rng.Intn(65536)))
			}
		}
		for _, n := range numbers {
			for _, declared := range []int{0, 1, 2, 3, 4, 5, 8, 100, 1499, 65535} {
				for _, delta := range []int{-5, -1, 0, 1, 2, 3, 7} {
					actual := declared + delta
					if actual < 0 || (declared > 2000 && delta > 0 && n%16 != 0) {
						continue
					}
					raw := make([]byte, 4+actual)
					rng.Read(raw[4:min(len(raw), 36)])
					binary.BigEndian.PutUint16(raw[0:2], n)
					binary.BigEndian.PutUint16(raw[2:4], uint16(declared))
					c11ChanRaw(rec, raw)
					rec.FP("raw/%s/declared-vs-actual=%d", rangeClassOf(n), sign(delta))
				}
			}
		}
		for l := 0; l < 4; l++ {
			c11ChanRaw(rec, make([]byte, l))
			c11ChanRaw(rec, bytes.Repeat([]byte{0x40}, l))
		}
		rec.SetSample(map[string]any{"kind": "raw-buffers", "numbers": len(numbers)})
	default:
		// attributes
		i := caseNo - nNum - nLen - nRaw
		c11AttrRoundTrip(rec, rng, 40)
		tid := [12]byte{}
		rng.Read(tid[:])
		perLen := 100
		if thorough {
			perLen = 500
		}
		// exhaustive short strings are split over the cases by first byte
		nAttrCases := 12
		if thorough {
			nAttrCases = 48
		}
		for _, ac := range attrCodecs {
			if i == 0 {
				c11AttrRaw(rec, ac, nil, tid)
				for a := 0; a < 256; a++ {
					c11AttrRaw(rec, ac, []byte{byte(a)}, tid)
				}
			}
			for a := i; a < 256; a += nAttrCases {
				for b := 0; b < 256; b++ {
					c11AttrRaw(rec, ac, []byte{byte(a), byte(b)}, tid)
				}
				rec.Ev("attr-2byte-prefix-covered")
			}
			for l := 3; l <= 64; l++ {
				for k := 0; k < perLen/nAttrCases+1; k++ {
					v := make([]byte, l)
					rng.Read(v)
					if rng.Intn(3) == 0 {
						v[0] = 0
						v[1] = byte(1 + rng.Intn(2)) // plausible family byte for the address codecs
					}
					c11AttrRaw(rec, ac, v, tid)
				}
			}
			rec.FP("attr/%s", ac.name)
		}
		rec.SetSample(map[string]any{"kind": "attributes", "slice": i})
	}
}

func sign(d int) int {
	switch {
	case d < 0:
		return -1
	case d > 0:
		return 1
	}

	return 0
}

func init() {
	register("C11", PropDef{
		Bubble: false,
		Cases: func(tier string) int {
			if tier == "thorough" {
				return c11ThoroughCases
			}

			return c11QuickCases
		},
		Run: runC11,
	})
}
