package sim

import (
	"encoding/json"
	"fmt"
	"sort"
	"sync"
)

// Violation is one oracle failure.
type Violation struct {
	// Props lists the property ids this oracle kind belongs to.
	Props []string `json:"props"`
	// Kind is a stable short identifier of the oracle that fired.
	Kind string `json:"kind"`
	// Sig is the signature used to match KNOWN_FINDINGS entries (kind + salient parameters,
	// no addresses/ports/times that vary between runs).
	Sig    string `json:"sig"`
	Detail string `json:"detail"`
	Step   int    `json:"step"`
}

// Result is what one case reports back to the driver (one JSON line).
type Result struct {
	Prop       string      `json:"prop"`
	Case       int         `json:"case"`
	Seed       int64       `json:"seed"`
	Violations []Violation `json:"violations,omitempty"`
	// Fingerprints are the distinct non-trivial classes this case exercised.
	Fingerprints []string       `json:"fp,omitempty"`
	Events       map[string]int `json:"events,omitempty"`
	Sample       any            `json:"sample,omitempty"`
	Inconclusive string         `json:"inconclusive,omitempty"`
	Trace        []string       `json:"trace,omitempty"`
}

// Rec accumulates observations of one case. Safe for concurrent use.
type Rec struct {
	mu           sync.Mutex
	Prop         string
	viol         []Violation
	fps          map[string]struct{}
	events       map[string]int
	trace        []string
	step         int
	TraceOn      bool
	sample       any
	inconclusive string
	poisoned     bool
}

// Poisoned reports that the case must not attempt an orderly shutdown.
func (r *Rec) Poisoned() bool {
	r.mu.Lock()
	defer r.mu.Unlock()

	return r.poisoned
}

// NewRec creates a recorder for a property.
func NewRec(prop string) *Rec {
	return &Rec{Prop: prop, fps: map[string]struct{}{}, events: map[string]int{}, TraceOn: true}
}

// kindProps maps oracle kinds to the properties they decide.
var kindProps = map[string][]string{}

// RegisterKind declares which properties an oracle kind belongs to.
func RegisterKind(kind string, props ...string) { kindProps[kind] = props }

// Violate records a violation.
func (r *Rec) Violate(kind, sig, format string, args ...any) {
	r.mu.Lock()
	defer r.mu.Unlock()
	props := kindProps[kind]
	if props == nil {
		props = []string{r.Prop}
	}
	if kind == "lock-held" {
		// a leaked mutex makes every later teardown step block on it (not a durable block for the
		// virtual clock): the bubble cannot be wound down and the process must be abandoned
		r.poisoned = true
	}
	if len(r.viol) < 20 {
		r.viol = append(r.viol, Violation{Props: props, Kind: kind, Sig: kind + ":" + sig, Detail: fmt.Sprintf(format, args...), Step: r.step})
	}
	r.events["violation:"+kind]++
}

// FP records a non-trivial fingerprint.
func (r *Rec) FP(format string, args ...any) {
	s := fmt.Sprintf(format, args...)
	r.mu.Lock()
	r.fps[s] = struct{}{}
	r.mu.Unlock()
}

// Ev counts an event.
func (r *Rec) Ev(name string) { r.EvN(name, 1) }

// EvN counts n events.
func (r *Rec) EvN(name string, n int) {
	r.mu.Lock()
	r.events[name] += n
	r.mu.Unlock()
}

// Tracef appends to the human-readable trace (kept only for violating cases and samples).
func (r *Rec) Tracef(format string, args ...any) {
	if !r.TraceOn {
		return
	}
	r.mu.Lock()
	if len(r.trace) < 400 {
		r.trace = append(r.trace, fmt.Sprintf(format, args...))
	}
	r.mu.Unlock()
}

// SetStep sets the current step number (for violation reports).
func (r *Rec) SetStep(n int) { r.mu.Lock(); r.step = n; r.mu.Unlock() }

// SetSample stores a representative sample of the case.
func (r *Rec) SetSample(s any) { r.mu.Lock(); r.sample = s; r.mu.Unlock() }

// Inconclusive marks the case inconclusive.
func (r *Rec) Inconclusive(format string, args ...any) {
	r.mu.Lock()
	r.inconclusive = fmt.Sprintf(format, args...)
	r.mu.Unlock()
}

// Violations returns the violations so far.
func (r *Rec) Violations() []Violation {
	r.mu.Lock()
	defer r.mu.Unlock()

	return append([]Violation{}, r.viol...)
}

// Result builds the case result.
func (r *Rec) Result(caseNo int, seed int64, wantSample bool) Result {
	r.mu.Lock()
	defer r.mu.Unlock()
	res := Result{Prop: r.Prop, Case: caseNo, Seed: seed, Violations: r.viol, Events: r.events, Inconclusive: r.inconclusive}
	for k := range r.fps {
		res.Fingerprints = append(res.Fingerprints, k)
	}
	sort.Strings(res.Fingerprints)
	if len(r.viol) > 0 || wantSample {
		res.Trace = r.trace
		res.Sample = r.sample
	}

	return res
}

// JSON renders the result as one line.
func (r Result) JSON() string {
	b, err := json.Marshal(r)
	if err != nil {
		return fmt.Sprintf(`{"prop":%q,"case":%d,"inconclusive":"marshal: %s"}`, r.Prop, r.Case, err)
	}

	return string(b)
}
