#!/bin/sh
# usage: seedcheck.sh <seed-dir> <demo-file> <demo-dest-dir-relative> <go-test-run-regex> <prop>...
# Confirms an independently written breaking change: suite passes with it, demo fails with it and passes
# without it; then runs our quick checks against the patched scratch tree.
SD="$1"; DEMO="$2"; DEST="$3"; RUN="$4"; shift 4
D=$(mktemp -d /tmp/vseed.XXXXXX)
rsync -a --exclude .git /repo/ "$D/"
mkdir -p "$D/$DEST"; cp "$SD/$DEMO" "$D/$DEST/"
echo "--- demo WITHOUT change:"; ( cd "$D/$DEST" && GOPROXY=off go test -mod=mod -vet=off -count=1 $DEMO_FLAGS -run "$RUN" . 2>&1 | tail -3 )
( cd "$D" && patch -p1 -s < "$SD/patch.diff" ) || { echo "PATCH FAILED"; rm -rf "$D"; exit 2; }
( cd "$D" && go build ./... ) || { echo "DOES NOT COMPILE"; rm -rf "$D"; exit 2; }
echo "--- demo WITH change:"; ( cd "$D/$DEST" && GOPROXY=off go test -mod=mod -vet=off -count=1 $DEMO_FLAGS -run "$RUN" . 2>&1 | tail -4 )
rm -f "$D/$DEST/$DEMO"
echo "--- suite WITH change:"; ( cd "$D" && GOPROXY=off go test -mod=mod -vet=off -count=1 ./internal/... ./e2e/... 2>&1 | grep -v "no test files" | tail -6 )
for p in "$@"; do
  out=$(cd /verif && VERIF_SCRATCH_TAG="$(basename "$D")" VERIF_REPO="$D" ./check "$p" ${TIER:-quick} 2>&1); code=$?
  echo "--- check $p exit=$code; first: $(echo "$out" | grep -m1 '^violation\|^crash\|^hang\|^data races' | cut -c1-260)"
done
rm -rf "$D" "/verif/.build/scratch-$(basename "$D")"
