package props

import (
	"bytes"
	"encoding/binary"
	"github.com/pion/turn/v5"
	"github.com/pion/turn/v5/verifharness/simnet"
	"math/rand"
	"net"
	"sync"
	"testing"
	"time"

	"github.com/pion/turn/v5/verifharness/sim"
	"github.com/pion/turn/v5/verifharness/wire"
)

// C05: payload integrity / exactly-once / attribution over a fixed authorised topology, swept
// over payload lengths, contents, both directions, both encapsulations, UDP and stream
// transports and inbound MTU settings.

var c05MTUs = []int{0, 512, 1200, 9000, 70000}

func c05Lengths(rng *rand.Rand, tier string, caseNo int, mtu int) (lens []int, exhaustiveChunk bool) {
	eff := mtu
	if eff == 0 {
		eff = 1600
	}
	if tier == "thorough" && caseNo < 860 {
		base := (caseNo / 10) * 20
		for l := base; l < base+20 && l <= 1700; l++ {
			lens = append(lens, l)
		}

		return lens, true
	}
	bound := []int{0, 1, 2, 3, 4, 5, 6, 7, 8, 9, 11, 12, 13, 15, 16, 17, 19, 20, 21, 1499, 1500, 1501, 1595, 1596, 1597, 1598, 1599, 1600, 1601, 1602, 1603, 1604, 1605,
		eff - 41, eff - 40, eff - 39, eff - 37, eff - 36, eff - 35, eff - 33, eff - 32, eff - 29, eff - 28, eff - 25, eff - 24, eff - 5, eff - 4, eff - 3, eff - 1, eff, eff + 1, eff + 4,
		65467, 65470, 65471, 65499, 65500, 65503, 65504, 65506, 65507, 65508, 65531, 65535}
	for i := 0; i < 14; i++ {
		lens = append(lens, pick(rng, bound))
	}
	for i := 0; i < 10; i++ {
		lens = append(lens, rng.Intn(1700))
	}
	for i := 0; i < 4; i++ {
		lens = append(lens, 1700+rng.Intn(63836))
	}
	out := lens[:0]
	for _, l := range lens {
		if l >= 0 && l <= 65535 {
			out = append(out, l)
		}
	}

	return out, false
}

func c05Content(rng *rand.Rand, n int, class int, ownChan uint16) []byte {
	b := make([]byte, n)
	switch class {
	case 0:
		rng.Read(b)
	case 1: // zeros
	case 2:
		for i := range b {
			b[i] = 0xFF
		}
	case 3: // looks like a STUN header (type bits 00, magic cookie)
		rng.Read(b)
		if n >= 1 {
			b[0] &= 0x3F
		}
		if n >= 8 {
			binary.BigEndian.PutUint32(b[4:8], wire.MagicCookie)
		}
		if n >= 4 {
			binary.BigEndian.PutUint16(b[2:4], uint16(max(0, n-20)))
		}
	case 4: // starts with the magic cookie (a ChannelData frame carrying it has the cookie at 4..8)
		rng.Read(b)
		if n >= 4 {
			binary.BigEndian.PutUint32(b[0:4], wire.MagicCookie)
		}
	case 5: // looks like ChannelData with the channel's own number
		rng.Read(b)
		if n >= 2 {
			binary.BigEndian.PutUint16(b[0:2], ownChan)
		}
		if n >= 4 {
			binary.BigEndian.PutUint16(b[2:4], uint16(max(0, n-4)))
		}
	}

	return b
}

func runC05(t *testing.T, rng *rand.Rand, rec *sim.Rec, tier string, caseNo int) {
	useTCP := caseNo%2 == 1
	mtu := c05MTUs[(caseNo/2)%len(c05MTUs)]
	cfg := sim.Config{
		Realm: "verif.test", Users: map[string]string{"alice": "pw-a"}, InboundMTU: mtu,
		UDPListeners: []*net.UDPAddr{{IP: sim.ServerIP4, Port: 3478}},
		TCPListeners: []*net.TCPAddr{{IP: sim.ServerIP4, Port: 3478}},
	}
	w, err := sim.NewWorld(cfg, rec, rng, true)
	if err != nil {
		t.Fatal(err)
	}
	defer w.Shutdown()
	m := sim.NewModel(w)
	var c *sim.RawClient
	if useTCP {
		c, err = w.NewTCPClient("t0", net.IPv4(10, 1, 0, 1).To4(), 6000, 0, "alice")
	} else {
		c, err = w.NewUDPClient("c0", net.IPv4(10, 1, 0, 1).To4(), 5000, 0, "alice")
	}
	if err != nil {
		t.Fatal(err)
	}
	if useTCP && rng.Intn(2) == 0 {
		// the server reads the client's stream under a random segmentation
		segRng := rand.New(rand.NewSource(rng.Int63())) // used only by the server's reader, under the pipe lock
		c.TCP.Peer().SetSeg(func(avail int) int { return 1 + segRng.Intn(avail) })
	}
	// every fourth case relays over IPv6 (an IPv6 relayed address requested over the IPv4 path,
	// IPv6 peers): the attribution travels in XOR-PEER-ADDRESS, whose IPv6 form depends on the
	// transaction id as well
	v6 := (caseNo/2)%4 == 3
	ip1, ip2 := net.IPv4(10, 2, 0, 1).To4(), net.IPv4(10, 2, 0, 2).To4()
	opts := sim.AllocOpts{}
	if v6 {
		ip1, ip2 = net.ParseIP("fd00:2::1"), net.ParseIP("fd00:2::2")
		opts.Family = 2
	}
	pChan, _ := w.NewPeer("pchan", ip1, 7000)
	pPerm, _ := w.NewPeer("pperm", ip2, 7001)
	pOtherPort, _ := w.NewPeer("pchan-otherport", ip1, 7002)
	resp := m.Allocate(c, opts)
	if resp == nil || resp.Class != wire.ClassSuccess {
		rec.Inconclusive("setup allocate failed")

		return
	}
	relay, _ := sim.RelayAddrOf(resp)
	chanNum := uint16(0x4000 + rng.Intn(0x4000))
	m.ChannelBind(c, chanNum, pChan.Addr)
	m.CreatePermission(c, pPerm.Addr)
	lens, exhaustive := c05Lengths(rng, tier, caseNo, mtu)
	for _, l := range lens {
		class := rng.Intn(6)
		st := m.Begin()
		st.ClientSend(c, pPerm.Addr, c05Content(rng, l, class, chanNum))
		st.ClientChanData(c, chanNum, c05Content(rng, l, class, chanNum), rng.Intn(2) == 0)
		if l <= 65507 {
			st.PeerSend(pChan, relay, c05Content(rng, l, class, chanNum))
			st.PeerSend(pPerm, relay, c05Content(rng, l, class, chanNum))
			if rng.Intn(4) == 0 {
				st.PeerSend(pOtherPort, relay, c05Content(rng, l, class, chanNum))
			}
		}
		st.End()
		rec.FP("len/%s/%d/class%d", transportName(useTCP), l, class)
		if exhaustive {
			rec.Ev("sweep-length-covered")
		}
		if len(rec.Violations()) > 0 {
			break
		}
	}
	m.CrossCheck()
	rec.SetSample(map[string]any{"transport": transportName(useTCP), "inbound_mtu": mtu, "lengths": lens, "channel": chanNum})
}

func transportName(tcp bool) string {
	if tcp {
		return "tcp"
	}

	return "udp"
}

func init() {
	register("C05", PropDef{
		Bubble: false, // chosen per case
		Cases: func(tier string) int {
			if tier == "thorough" {
				return 860 + 6000
			}

			return 400
		},
		Run: func(t *testing.T, rng *rand.Rand, rec *sim.Rec, tier string, caseNo int) {
			if caseNo%40 == 21 {
				// real sockets: several clients behind one operating-system UDP listener
				runC19Real(t, rng, rec, tier, caseNo/40)

				return
			}
			inBubble(t, func(t *testing.T) {
				if caseNo%8 == 7 {
					runC05E2E(t, rng, rec, tier, caseNo/8)

					return
				}
				runC05(t, rng, rec, tier, caseNo)
			})
		},
	})
}

// runC05E2E: payload integrity end to end through the real client: bursts of distinct datagrams in
// both directions over Send/Data indications (before the channel is confirmed) and over ChannelData
// (after), read only after the whole burst has arrived.
func runC05E2E(t *testing.T, rng *rand.Rand, rec *sim.Rec, tier string, caseNo int) {
	cfg := sim.Config{
		Realm: "verif.test", Users: map[string]string{"alice": "pw-a"},
		UDPListeners: []*net.UDPAddr{{IP: sim.ServerIP4, Port: 3478}},
		TCPListeners: []*net.TCPAddr{{IP: sim.ServerIP4, Port: 3478}},
	}
	// a server listening on the wildcard address of a host with two addresses: the client is
	// configured with the second one, the server's datagrams leave from the first
	otherAddr := caseNo%2 == 0 && (caseNo/2)%3 == 2
	serverAddr := "10.0.0.1:3478"
	if otherAddr {
		cfg.UDPListeners = []*net.UDPAddr{{IP: net.IPv4zero.To4(), Port: 3478}}
		serverAddr = "10.0.0.9:3478"
	}
	w, err := sim.NewWorld(cfg, rec, rng, true)
	if err != nil {
		t.Fatal(err)
	}
	defer w.Shutdown()
	if otherAddr {
		w.ServerUDP[0].SetEgressIP(sim.ServerIP4)
	}
	w.Net.LogSends = false
	logs := sim.NewLogSink()
	lostBind := caseNo%2 == 0 && (caseNo/2)%3 == 1
	if lostBind {
		// the success response to the client's first ChannelBind is lost: for one retransmission
		// interval the server uses the channel toward a client that has not seen it confirmed
		var pmu sync.Mutex
		dropped := false
		w.Net.Plan = func(d *simnet.Dgram) simnet.Fate {
			pmu.Lock()
			defer pmu.Unlock()
			if m, err := wire.ParseSTUN(d.Data); err == nil && !dropped && m.Method == wire.MethodChannelBind && m.Class == wire.ClassSuccess {
				dropped = true
				rec.Ev("channelbind-response-lost")

				return simnet.Fate{Drop: true}
			}

			return simnet.Fate{}
		}
	}
	// the client reaches the server over UDP or (every other case) over a TCP control connection,
	// where every ChannelData message must be padded to a multiple of four on the wire
	overTCP := caseNo%2 == 1
	var cl *turn.Client
	var ctrl *simnet.Conn
	if overTCP {
		ctrl, err = w.Net.DialTCP(net.IPv4(10, 1, 1, 1).To4(), 0, w.ServerTCP[0].TCPAddr())
		if err != nil {
			t.Fatal(err)
		}
		cl, err = turn.NewClient(&turn.ClientConfig{
			STUNServerAddr: "10.0.0.1:3478", TURNServerAddr: "10.0.0.1:3478", Conn: turn.NewSTUNConn(ctrl),
			Username: "alice", Password: "pw-a", Realm: "verif.test",
			Net: &simnet.VNet{N: w.Net, HostIP4: net.IPv4(10, 1, 1, 1).To4()}, LoggerFactory: logs,
		})
		if err != nil {
			t.Fatal(err)
		}
		defer cl.Close()
	} else {
		rc, err := sim.NewRealClient(w.Net, net.IPv4(10, 1, 0, 1).To4(), 5000, serverAddr, "alice", "pw-a", "verif.test", 0, logs, nil)
		if err != nil {
			t.Fatal(err)
		}
		defer func() { rc.Client.Close(); _ = rc.Conn.Close() }()
		cl = rc.Client
	}
	if err := cl.Listen(); err != nil {
		t.Fatal(err)
	}
	conn, err := cl.Allocate()
	if err != nil {
		rec.Inconclusive("allocate: %v", err)

		return
	}
	defer conn.Close() //nolint:errcheck
	relay := conn.LocalAddr().(*net.UDPAddr)
	peer, _ := w.NewPeer("p", net.IPv4(10, 2, 0, 1).To4(), 7000)
	burst := func(phase string) {
		n := 2 + rng.Intn(40)
		var toClient, toPeer [][]byte
		for i := 0; i < n; i++ {
			l := pick(rng, []int{0, 1, 3, 4, 5, 40, 41, 300, 1199, 1200, 1400})
			// toward the client also the largest datagrams the relay passes on (1600 bytes: 1604 as
			// ChannelData, 1636 as a Data indication - more than the payload itself)
			la := l
			if rng.Intn(4) == 0 {
				la = pick(rng, []int{1560, 1565, 1596, 1597, 1599, 1600})
			}
			a, b := make([]byte, la), make([]byte, l)
			rng.Read(a)
			rng.Read(b)
			if l >= 4 {
				a[0], a[1], b[0], b[1] = byte(i>>8), byte(i), byte(i>>8), byte(i)
			}
			if la != l {
				a[0], a[1] = byte(i>>8), byte(i)
			}
			toClient, toPeer = append(toClient, a), append(toPeer, b)
		}
		peer.UDP.Drain()
		concurrent := lostBind && phase == "indications-or-early-channel"
		if concurrent {
			// four application goroutines write at once while the client still uses Send
			// indications (its ChannelBind is unanswered): every datagram arrives once, unaltered
			var wg sync.WaitGroup
			for g := 0; g < 4; g++ {
				wg.Add(1)
				go func() {
					defer wg.Done()
					for i := g; i < n; i += 4 {
						if _, err := conn.WriteTo(toPeer[i], peer.Addr); err != nil {
							rec.Violate("e2e-write", phase, "WriteTo failed: %v", err)

							return
						}
					}
				}()
			}
			for i := 0; i < n; i++ {
				_, _ = peer.UDP.WriteTo(toClient[i], relay)
			}
			wg.Wait()
		}
		for i := 0; i < n && !concurrent; i++ {
			_, _ = peer.UDP.WriteTo(toClient[i], relay)
			if _, err := conn.WriteTo(toPeer[i], peer.Addr); err != nil {
				rec.Violate("e2e-write", phase, "WriteTo failed: %v", err)

				return
			}
		}
		time.Sleep(50 * time.Millisecond)
		// the application reads only now
		buf := make([]byte, 2000)
		for i := 0; i < n; i++ {
			_ = conn.SetReadDeadline(time.Now().Add(time.Second))
			k, from, err := conn.ReadFrom(buf)
			if err != nil {
				rec.Violate("e2e-lost", phase+"/to-client", "datagram %d of a burst of %d toward the client never surfaced at ReadFrom (%s): %v", i, n, phase, err)

				return
			}
			if !bytes.Equal(buf[:k], toClient[i]) || from.String() != peer.Addr.String() {
				rec.Violate("e2e-altered", phase+"/to-client", "datagram %d of a burst of %d (%s): ReadFrom returned %d bytes %x from %s, sent %d bytes %x from %s", i, n, phase, k, head(buf[:k]), from, len(toClient[i]), head(toClient[i]), peer.Addr)

				return
			}
		}
		got := peer.UDP.Drain()
		if len(got) != n {
			rec.Violate("e2e-lost", phase+"/to-peer", "%d of %d datagrams reached the peer (%s)", len(got), n, phase)

			return
		}
		if concurrent {
			// the writers' relative order is free: compare as multisets
			left := map[string]int{}
			for _, b := range toPeer {
				left[string(b)]++
			}
			for i, d := range got {
				if left[string(d.Data)] == 0 || d.Src.String() != relay.String() {
					rec.Violate("e2e-altered", phase+"/to-peer/concurrent-writers", "datagram %d of %d toward the peer (%s, 4 concurrent writers): %d bytes %x from %s is none of the datagrams written (or arrived once more than written)", i, n, phase, len(d.Data), head(d.Data), d.Src)

					return
				}
				left[string(d.Data)]--
			}
			got = nil
			rec.FP("e2e/concurrent-writers-on-indications")
		}
		for i, d := range got {
			if !bytes.Equal(d.Data, toPeer[i]) || d.Src.String() != relay.String() {
				rec.Violate("e2e-altered", phase+"/to-peer", "datagram %d toward the peer (%s): got %d bytes %x from %s", i, phase, len(d.Data), head(d.Data), d.Src)

				return
			}
		}
		rec.EvN("e2e-datagrams-compared", 2*n)
		rec.FP("e2e/%s/burst=%d/tcp=%v/bind-response-lost=%v/server-answers-from-another-address=%v", phase, min(n/10, 3), overTCP, lostBind, otherAddr)
	}
	// a second socket on the peer's host that the client never writes to: its datagrams are
	// admitted by the host's permission and travel in Data indications, never in ChannelData
	alt, _ := w.NewPeer("alt", peer.Addr.IP, 7900)
	// ... and the same on a second host the client has written to once (its own permission): the
	// datagrams of the two hosts queue up at the client before the application reads them
	host2, _ := w.NewPeer("host2", net.IPv4(10, 2, 0, 2).To4(), 7000)
	alt2, _ := w.NewPeer("alt2", net.IPv4(10, 2, 0, 2).To4(), 7900)
	twoHosts := false
	indications := func(phase string) {
		n := 1 + rng.Intn(6)
		var sent [][]byte
		var senders []*sim.Peer
		for i := 0; i < n; i++ {
			l := pick(rng, []int{0, 1, 5, 40, 1200})
			a := make([]byte, l)
			rng.Read(a)
			sent = append(sent, a)
			from := alt
			if twoHosts && i%2 == 1 {
				from = alt2
			}
			senders = append(senders, from)
			_, _ = from.UDP.WriteTo(a, relay)
		}
		time.Sleep(50 * time.Millisecond)
		buf := make([]byte, 2000)
		for i := 0; i < n; i++ {
			_ = conn.SetReadDeadline(time.Now().Add(time.Second))
			k, from, err := conn.ReadFrom(buf)
			if err != nil {
				rec.Violate("e2e-lost", phase+"/data-indication", "datagram %d of %d from an unbound port of a permitted host never surfaced at ReadFrom (%s, client over TCP: %v): %v", i, n, phase, overTCP, err)

				return
			}
			if !bytes.Equal(buf[:k], sent[i]) || from.String() != senders[i].Addr.String() {
				rec.Violate("e2e-altered", phase+"/data-indication", "datagram %d from %s: ReadFrom returned %d bytes %x from %s", i, senders[i].Addr, k, head(buf[:k]), from)

				return
			}
		}
		rec.EvN("e2e-data-indications-compared", n)
	}
	_, _ = conn.WriteTo([]byte("open"), peer.Addr) // permission + first ChannelBind attempt
	if relay.IP.To4() != nil && caseNo%3 != 0 {
		if _, err := conn.WriteTo([]byte("open-2"), host2.Addr); err == nil {
			twoHosts = true
		}
	}
	time.Sleep(5 * time.Millisecond)
	peer.UDP.Drain()
	host2.UDP.Drain()
	burst("indications-or-early-channel")
	indications("early")
	time.Sleep(2 * time.Second) // the binding is confirmed by now
	burst("channel")
	indications("with-channel-bound")
	if ctrl != nil && (caseNo/4)%2 == 1 {
		// one application write larger than any ChannelData message can carry (the length field has
		// 16 bits), over the stream transport: it cannot be relayed whole, so it is dropped or
		// refused - the peer sees nothing of it, nobody else either, and the stream stays in step
		big := make([]byte, pick(rng, []int{65536, 65537, 65540, 70000, 131073}))
		rng.Read(big)
		peer.UDP.Drain()
		alt.UDP.Drain()
		_, werr := conn.WriteTo(big, peer.Addr)
		time.Sleep(50 * time.Millisecond)
		for _, d := range append(peer.UDP.Drain(), alt.UDP.Drain()...) {
			rec.Violate("e2e-altered", "oversized-write/tcp", "WriteTo of %d bytes (err=%v) made the relay send %d bytes %x... to %s", len(big), werr, len(d.Data), head(d.Data), d.Dst)

			return
		}
		rec.FP("e2e/oversized-write/tcp/refused=%v", werr != nil)
		burst("after-oversized-write")
	}
	if ctrl != nil && (caseNo/2)%2 == 0 {
		// the client's host stops reading its control connection for a few seconds while the peer
		// keeps sending (the server's writes meet TCP flow control: 4 KiB in flight at most); when it
		// resumes, whatever is delivered is one of the datagrams sent, whole and correctly attributed
		ctrl.Peer().SetCapacity(4096)
		ctrl.PauseReads(true)
		sent := map[string]bool{}
		for i := 0; i < 120; i++ {
			a := make([]byte, pick(rng, []int{200, 700, 1200}))
			rng.Read(a)
			a[0], a[1] = byte(i>>8), byte(i)
			sent[string(a)] = true
			_, _ = peer.UDP.WriteTo(a, relay)
			time.Sleep(40 * time.Millisecond)
		}
		ctrl.PauseReads(false)
		time.Sleep(3 * time.Second)
		buf := make([]byte, 2000)
		delivered := 0
		for {
			_ = conn.SetReadDeadline(time.Now().Add(500 * time.Millisecond))
			k, from, err := conn.ReadFrom(buf)
			if err != nil {
				break
			}
			if !sent[string(buf[:k])] || from.String() != peer.Addr.String() {
				rec.Violate("e2e-altered", "stalled-stream-client", "after the client had not read its TCP control connection for 5 s, ReadFrom returned %d bytes %x from %s: no datagram the peer sent looks like that", k, head(buf[:k]), from)

				return
			}
			delivered++
		}
		ctrl.Peer().SetCapacity(0)
		rec.EvN("e2e-after-stall-delivered", delivered)
		rec.FP("e2e/stalled-stream-client/delivered>0=%v", delivered > 0)
		// the stream is still in step: the next burst goes through untouched
		peer.UDP.Drain()
	}
	time.Sleep(pick(rng, []time.Duration{time.Second, 6 * time.Minute}))
	burst("channel-later")
	rec.SetSample(map[string]any{"kind": "real-client-bursts"})
}

func init() {
	sim.RegisterKind("e2e-write", "C05")
	sim.RegisterKind("e2e-lost", "C05", "C13")
	sim.RegisterKind("e2e-altered", "C05", "C13")
}
