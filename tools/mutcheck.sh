#!/bin/sh
# usage: mutcheck.sh <patch.diff|-e 'sed-expr' file> <prop>...   — run quick checks against a scratch copy of /repo with a change applied
# Scratch copies live under /tmp and are removed afterwards.
set -u
PATCH="$1"; shift
D=$(mktemp -d /tmp/vmut.XXXXXX)
rsync -a --exclude .git /repo/ "$D/"
if [ "$PATCH" = "-e" ]; then
  EXPR="$1"; FILE="$2"; shift 2
  sed -i "$EXPR" "$D/$FILE" || { echo "sed failed"; rm -rf "$D"; exit 2; }
  if cmp -s "$D/$FILE" "/repo/$FILE"; then echo "MUTATION DID NOT CHANGE $FILE"; rm -rf "$D"; exit 2; fi
else
  ( cd "$D" && patch -p1 -s < "$PATCH" ) || { echo "patch failed"; rm -rf "$D"; exit 2; }
fi
( cd "$D" && GOFLAGS=-mod=mod GOPROXY=off GOSUMDB=off GOTOOLCHAIN=local go1.26.8 build ./... ) || { echo "MUTANT DOES NOT COMPILE"; rm -rf "$D"; exit 2; }
rc=0
for p in "$@"; do
  out=$(cd /verif && VERIF_SCRATCH_TAG="$(basename "$D")" VERIF_REPO="$D" ./check "$p" ${TIER:-quick} 2>&1)
  code=$?
  echo "$p exit=$code $(echo "$out" | grep -c '^VIOLATION') violation lines; first: $(echo "$out" | grep -m1 '^violation\|^crash\|^hang\|^data races')"
  [ $code -eq 1 ] || rc=1
done
rm -rf "$D" "/verif/.build/scratch-$(basename "$D")"
exit $rc
