package sim

import (
	"net"
	"sync"
	"time"

	"github.com/pion/turn/v5"
	"github.com/pion/turn/v5/verifharness/simnet"
	"github.com/pion/turn/v5/verifharness/wire"
)

// SrvEvent is one datagram seen or sent by the scripted server, in order.
type SrvEvent struct {
	Seq     int
	At      time.Time
	Dir     string // "in" (arrived at the server) or "out" (handed to the client's socket)
	Raw     []byte
	Msg     *wire.Msg // nil if not STUN
	Chan    uint16    // ChannelData number if IsChan
	IsChan  bool
	Payload []byte
}

// ScriptedServer is a TURN server whose every reaction the scenario chooses. It is used to test
// the real client (C12, C13, C09 client side).
type ScriptedServer struct {
	Net  *simnet.Net
	Sock *simnet.UDPConn
	Addr *net.UDPAddr

	mu  sync.Mutex
	log []SrvEvent
	seq int
	// Handler runs in the server goroutine for every arriving datagram (after it was logged).
	Handler func(s *ScriptedServer, from *net.UDPAddr, ev SrvEvent)
	done    chan struct{}
}

// NewScriptedServer binds the server socket and starts its read loop.
func NewScriptedServer(n *simnet.Net, ip net.IP, port int) (*ScriptedServer, error) {
	sock, err := n.ListenUDP(ip, port)
	if err != nil {
		return nil, err
	}
	s := &ScriptedServer{Net: n, Sock: sock, Addr: sock.Addr(), done: make(chan struct{})}
	go s.loop()

	return s, nil
}

func (s *ScriptedServer) record(dir string, raw []byte) SrvEvent {
	ev := SrvEvent{At: time.Now(), Dir: dir, Raw: append([]byte{}, raw...)}
	if len(raw) > 0 && raw[0]>>6 == 0 {
		if m, err := wire.ParseSTUN(ev.Raw); err == nil {
			ev.Msg = m
		}
	}
	if ev.Msg == nil {
		if num, payload, ok := wire.ParseChannelData(ev.Raw); ok {
			ev.IsChan, ev.Chan, ev.Payload = true, num, payload
		}
	}
	s.mu.Lock()
	s.seq++
	ev.Seq = s.seq
	s.log = append(s.log, ev)
	s.mu.Unlock()

	return ev
}

func (s *ScriptedServer) loop() {
	defer close(s.done)
	buf := make([]byte, 70000)
	for {
		n, from, err := s.Sock.ReadFrom(buf)
		if err != nil {
			return
		}
		ev := s.record("in", buf[:n])
		s.mu.Lock()
		h := s.Handler
		s.mu.Unlock()
		if h != nil {
			h(s, from.(*net.UDPAddr), ev)
		}
	}
}

// SetHandler replaces the reaction policy.
func (s *ScriptedServer) SetHandler(h func(s *ScriptedServer, from *net.UDPAddr, ev SrvEvent)) {
	s.mu.Lock()
	s.Handler = h
	s.mu.Unlock()
}

// Send hands a datagram to the client's socket now (logged as "out" at this instant) or after delay.
func (s *ScriptedServer) Send(to *net.UDPAddr, raw []byte, delay time.Duration) {
	do := func() {
		s.record("out", raw)
		_, _ = s.Sock.WriteTo(raw, to)
	}
	if delay > 0 {
		time.AfterFunc(delay, do)
	} else {
		do()
	}
}

// Log returns a copy of the ordered wire log.
func (s *ScriptedServer) Log() []SrvEvent {
	s.mu.Lock()
	defer s.mu.Unlock()

	return append([]SrvEvent{}, s.log...)
}

// Close stops the server.
func (s *ScriptedServer) Close() {
	_ = s.Sock.Close()
	<-s.done
}

// ---------------------------------------------------------------- real client helper

// RealClient bundles a real turn.Client with its simulated socket.
type RealClient struct {
	Conn   *simnet.UDPConn
	Client *turn.Client
	VNet   *simnet.VNet
}

// NewRealClient creates a real turn.Client on a simulated socket talking to serverAddr.
func NewRealClient(n *simnet.Net, ip net.IP, port int, serverAddr string, user, pass, realm string, rto time.Duration, log *LogSink, tweak func(*turn.ClientConfig)) (*RealClient, error) {
	conn, err := n.ListenUDP(ip, port)
	if err != nil {
		return nil, err
	}
	vn := &simnet.VNet{N: n, HostIP4: ip}
	if ip.To4() == nil {
		vn.HostIP4, vn.HostIP6 = nil, ip
	}
	cfg := &turn.ClientConfig{
		STUNServerAddr: serverAddr, TURNServerAddr: serverAddr, Conn: conn, Username: user, Password: pass, Realm: realm,
		RTO: rto, Net: vn, LoggerFactory: log,
	}
	if tweak != nil {
		tweak(cfg)
	}
	c, err := turn.NewClient(cfg)
	if err != nil {
		_ = conn.Close()

		return nil, err
	}

	return &RealClient{Conn: conn, Client: c, VNet: vn}, nil
}
