#!/bin/sh
# Runs the repository's pinned suite with the verif guard OFF and compares with BASELINE.json.
cd /repo || exit 2
GOPROXY=off go test -mod=mod -json -vet=off -count=1 -timeout 25m ./... > /tmp/baseline.$$.json 2>/dev/null
python3 - /tmp/baseline.$$.json <<'PY'
import json,sys
b=json.load(open('/root/.vp/BASELINE.json'))
want=set(b['stable_pass'])
got=set()
for l in open(sys.argv[1]):
    try: e=json.loads(l)
    except Exception: continue
    if e.get('Action')=='pass' and e.get('Test'):
        got.add(e['Package']+'::'+e['Test'])
missing=sorted(want-got)
print('stable tests passing: %d/%d'%(len(want&got),len(want)))
for m in missing[:20]: print('MISSING',m)
sys.exit(1 if missing else 0)
PY
rc=$?
rm -f /tmp/baseline.$$.json
exit $rc
